"""C13 - payload templates and intrinsic functions evaluate as specified, fail cleanly (structural clauses)."""
import ast
import re as _re

from ..core import AnalysisError, dotted, callname, last, const, short, norm, prefix_dispatch_sites
from ..util import body_nodes, name_defs, enclosing_ifs, enclosing_stmt, in_try_with_handler
from . import c12

try:
    import re._parser as sre_parse
    import re._constants as sre_c
except ImportError:  # pragma: no cover
    import sre_parse
    import sre_constants as sre_c

EXPLANATION = (
    "Static analysis of the current /repo source (state_engine_paths.py, statelint's intrinsic table, all prefix-dispatch sites). Decides: "
    "(R1) template evaluation writes through no alias of template/input/context (C12.R1), only members whose name ends in '.$' reach the "
    "evaluation arm, everything else is copied by the clone walk; (R2) at all six `locals().get(K, d)(..)` sites the key is a constant prefix "
    "+ expression on every reaching definition, so user text can only select a handler; (R3) every may-raise sink in the intrinsic "
    "implementations and the argument tokeniser is kind-guarded or inside a handler that raises IntrinsicFailure; (R4) no result depends on "
    "the iteration order of a set (hash seed); (R5) str.format is only applied to literals, never to user text; (R6) a regex built from data "
    "is escaped; (R7) the tokeniser alternative that recognises a nested call vs the nested grammar (regex AST); (R8) the intrinsic names the "
    "validator accepts are exactly the implemented ones. Not decided: the value of every intrinsic on every argument."
    ' (R10) the template expander (clone) is applied to (parts of) the template only, never to a name bound to the data parameters: a copy of the input is made with a data copier.')
RULE_TEXT = "obligation = one dispatch site / intrinsic x sink / regex fact / table entry; non-trivial = distinct (rule, site)"


def _intrinsics(sp):
    eif = sp.funcs.get("evaluate_payload_template.evaluate_intrinsic_function")
    if eif is None:
        raise AnalysisError("anchor not found: evaluate_intrinsic_function")
    return eif, {n[len("asl_intrinsic_"):]: f for n, f in eif.children.items() if n.startswith("asl_intrinsic_")}


def r1(chk, ctx, sp):
    c12.r1(chk, ctx, sp)
    ev = sp.funcs["evaluate_payload_template.evaluate"]
    cl = sp.funcs["evaluate_payload_template.clone"]
    first = [s for s in ev.node.body if not (isinstance(s, ast.Expr) and isinstance(s.value, ast.Constant))][0]
    ok = isinstance(first, ast.If) and norm(first.test) == "isinstance(k, str) and k.endswith('.$')" and "k = k[:-2]" in [norm(s) for s in first.body] \
        and any(norm(s) == "v_is_path_or_intrinsic = True" for s in first.body) and any(norm(s) == "v_is_path_or_intrinsic = False" for s in first.orelse)
    chk.ob("C13.R1", "only names ending in '.$' are evaluated, and renamed without the suffix", ok, "", key="%s | '.$' suffix guard" % ev.qname, where=ev.where(), message="")
    arms = [i for i in ev.node.body if isinstance(i, ast.If) and norm(i.test) == "v_is_path_or_intrinsic"]
    ok = len(arms) == 1
    if ok:
        calls = [callname(c) for c in ast.walk(arms[0]) if isinstance(c, ast.Call)]
        ok = "apply_path" in calls and "evaluate_intrinsic_function" in calls
        outside = [c for s in ev.node.body if s is not arms[0] for c in ast.walk(s) if isinstance(c, ast.Call) and callname(c) in ("apply_path", "evaluate_intrinsic_function")]
        ok = ok and not outside
    chk.ob("C13.R1", "path / intrinsic evaluation happens only in the '.$' arm", ok, "", key="%s | evaluation outside the '.$' arm" % ev.qname, where=ev.where(), message="everything else is copied verbatim")
    darms = [i for i in ast.walk(ev.node) if isinstance(i, ast.If) and norm(i.test) == "v == '$'"]
    from .c12 import placement_by_value
    by_value = placement_by_value(sp)[0]
    # needed only while ResultPath stores results by reference (a payload that IS the input, placed into the input, would make it cyclic);
    # members selected by other paths alias parts of the input anyway, so this is not a condition of 'input left unmodified'
    ok = by_value or (len(darms) == 1 and [norm(s) for s in darms[0].body] == ["v = clone(input)"])
    chk.ob("C13.R1", "a bare '$' member is cloned" + (" (not needed: ResultPath places a copy)" if by_value else ", so a payload placed into the input cannot make it cyclic"), ok, "",
           key="%s | a '$' member holds the input by reference" % ev.qname, where=ev.where(),
           message="the input is 'left unmodified' only while the payload does not alias it: a later ResultPath write into the payload's copy would write into the input")
    txt = [norm(s) for s in ast.walk(cl.node) if isinstance(s, ast.stmt)]
    ok = "target = []" in txt and "target = {}" in txt and "target.append(clone(item))" in txt and "target[k] = clone(v)" in txt and ("(k, v) = evaluate(k, v, True)" in txt or "k, v = evaluate(k, v, True)" in txt) and "return target" in txt
    chk.ob("C13.R1", "clone walk builds fresh containers at every depth", ok, "", key="%s | clone walk shape" % cl.qname, where=cl.where(), message="")
    ept = sp.func("evaluate_payload_template")
    last_if = [s for s in ept.node.body if isinstance(s, ast.If)][-1]
    ok = norm(last_if.test) == "template == None or template == ''" and norm(last_if.body[0]) == "return input"
    chk.ob("C13.R1", "an absent template leaves the effective input as it is", ok, "", key="evaluate_payload_template | absent template", where=ept.where(), message="")


def r2(chk, ctx, sp):
    n = 0
    for mn in ("state_engine", "state_engine_paths", "task_dispatcher", "rest_api", "rest_api_asyncio"):
        m = ctx.mod(mn)
        for q, f in m.funcs.items():
            for call, key, default in prefix_dispatch_sites(f.node):
                if m.enclosing_func(call) is not f:
                    continue
                n += 1
                ok, why = _prefixed(f, key)
                chk.ob("C13.R2", "%s: dispatch key `%s` is <constant prefix> + expr" % (q, short(key, 40)), ok, why,
                       key="%s | dispatch key `%s` is not prefix-guarded (%s)" % (q, norm(key), why), where=m.line(call),
                       message="user text selects an arbitrary local (e.g. \"a.$\": \"args(1)\" calls the local list `args`): TypeError instead of States.IntrinsicFailure")
                chk.ob("C13.R2", "%s: dispatch has a default handler" % q, default is not None, "", key="%s | dispatch without default" % q, where=m.line(call), message="")
    chk.floor("C13.R2", n, 6, "prefix dispatch sites")


def _prefixed(f, key, depth=0):
    if isinstance(key, ast.BinOp) and isinstance(key.op, ast.Add) and isinstance(key.left, ast.Constant) and isinstance(key.left.value, str) and key.left.value:
        return True, "literal prefix %r" % key.left.value
    if isinstance(key, ast.Subscript) and isinstance(key.slice, ast.Slice) and key.slice.lower is None:
        return _prefixed(f, key.value, depth + 1)     # a trailing slice keeps the prefix
    if isinstance(key, ast.Name) and depth < 4:
        ds = [d for d in name_defs(f, key.id) if isinstance(d, ast.Assign)]
        if not ds:
            return False, "no definition of %s" % key.id
        for d in ds:
            if isinstance(d.value, ast.Subscript) and isinstance(d.value.value, ast.Name) and d.value.value.id == key.id:
                continue
            ok, why = _prefixed(f, d.value, depth + 1)
            if not ok:
                return False, "%s = %s" % (key.id, norm(d.value))
        return True, "all definitions prefixed"
    return False, norm(key)


SINKS = {
    "set": ("TypeError", lambda a: True),                # unhashable elements
    "random.randrange": ("ValueError", lambda a: True),  # empty range
    "int": ("ValueError", lambda a: True),
    "float": ("ValueError", lambda a: True),
    "json.loads": ("Exception", lambda a: True),
    "json.dumps": ("Exception", lambda a: True),
    "re.split": ("Exception", lambda a: True),
    "dict.fromkeys": ("TypeError", lambda a: True),
    "random.seed": ("TypeError", lambda a: True),
}


def r3(chk, ctx, sp):
    eif, intr = _intrinsics(sp)
    n = 0
    for name, f in sorted(intr.items()):
        for c in body_nodes(f):
            if not isinstance(c, ast.Call):
                continue
            nm = callname(c)
            sink = nm if nm in SINKS else None
            if sink is None and last(nm) in ("format",) and isinstance(c.func, ast.Attribute) and not isinstance(c.func.value, ast.Constant):
                sink = ".format on a value"
            if sink is None and isinstance(c.func, ast.Attribute) and c.func.attr in ("b64encode", "b64decode", "decode", "hexdigest"):
                sink = nm
            if sink is None:
                continue
            n += 1
            covered = in_try_with_handler(sp, c, f.node, ("Exception", SINKS[nm][0] if nm in SINKS else "Exception"))
            if covered:
                # the handler must raise IntrinsicFailure
                covered = _handler_raises_intrinsic(sp, c, f)
            chk.ob("C13.R3", "asl_intrinsic_%s: %s is converted to IntrinsicFailure" % (name, short(c, 40)), covered, "",
                   key="%s | may-raise `%s` outside a handler that raises IntrinsicFailure" % (f.qname, nm if sink == nm else sink), where=f.where(c),
                   message="ill-formed arguments must fail the state with States.IntrinsicFailure, never with an arbitrary exception")
        # `{**a, **b}` and `x in y` style sinks
        for c in body_nodes(f):
            if isinstance(c, ast.Dict) and any(k is None for k in c.keys):
                n += 1
                ok = in_try_with_handler(sp, c, f.node, ("Exception",)) and _handler_raises_intrinsic(sp, c, f)
                chk.ob("C13.R3", "asl_intrinsic_%s: dict unpacking is converted to IntrinsicFailure" % name, ok, "", key="%s | dict unpacking outside a converting handler" % f.qname, where=f.where(c), message="")
    chk.floor("C13.R3", n, 12, "may-raise sinks in the intrinsics")
    # the tokeniser / dispatcher body
    for c in body_nodes(eif):
        if isinstance(c, ast.Assign) and isinstance(c.targets[0], ast.Tuple) and isinstance(c.value, ast.Call) and last(callname(c.value)) == "split":
            ok = in_try_with_handler(sp, c, eif.node, ("Exception", "ValueError")) or _arity_guarded(eif, c)
            chk.ob("C13.R3", "tokeniser: `%s` cannot fail the unpacking" % short(c, 50), ok, "",
                   key="%s | tuple-unpacking of `%s` may raise ValueError (no '(' in the expression)" % (eif.qname, norm(c.value)), where=eif.where(c),
                   message="an expression without parentheses (\"States.UUID\") raises ValueError instead of States.IntrinsicFailure")
    ints = [c for c in body_nodes(eif) if isinstance(c, ast.Call) and callname(c) == "int" and norm(c.args[0]) == "arg"]
    flts = [c for c in body_nodes(eif) if isinstance(c, ast.Call) and callname(c) == "float" and norm(c.args[0]) == "arg"]
    ok = len(ints) == 1 and len(flts) == 1
    if ok:
        # float(arg) is the fallback inside the ValueError handler of int(arg); both unconditional on the text of arg
        ti = [t for t in ast.walk(eif.node) if isinstance(t, ast.Try) and any(ints[0] is x for s in t.body for x in ast.walk(s))]
        ok = len(ti) >= 1 and any(flts[0] is x for h in ti[-1].handlers if "ValueError" in norm(h.type) for s in h.body for x in ast.walk(s))
        for c in ints + flts:
            par = sp.parent(c)
            ok = ok and not isinstance(par, ast.IfExp)
    chk.ob("C13.R3", "numeric arguments: int(arg), falling back to float(arg) on ValueError, else IntrinsicFailure", ok, "",
           key="%s | numeric argument parsing is not int-then-float" % eif.qname, where=eif.where(),
           message="every JSON number spelling (1e3, 25E-1, 1e-05) must be accepted: choosing the parser by looking for '.' rejects exponent forms")
    ev = sp.funcs["evaluate_payload_template.evaluate"]
    for c in ast.walk(ev.node):
        if isinstance(c, ast.Call) and isinstance(c.func, ast.Attribute) and c.func.attr == "startswith" and norm(c.func.value) == "v":
            guarded = any("isinstance(v, str)" in norm(i.test) for i, arm in enclosing_ifs(sp, c, ev.node))
            # or an early `if not isinstance(v, str): raise` in the same arm
            par = sp.parent(c)
            while par is not None and par is not ev.node:
                for s_ in getattr(par, "body", []) if isinstance(getattr(par, "body", None), list) else []:
                    if isinstance(s_, ast.If) and s_.lineno < c.lineno and norm(s_.test) == "not isinstance(v, str)" and any(isinstance(r, ast.Raise) for r in s_.body):
                        guarded = True
                par = sp.parent(par)
            chk.ob("C13.R3", "evaluate: v.startswith only on strings", guarded, "", key="%s | `v.startswith` on a '.$' value that may not be a string" % ev.qname, where=ev.where(c),
                   message="\"a.$\": 5 raises AttributeError instead of a clean failure")


def _handler_raises_intrinsic(m, node, f):
    n = node
    while n is not None and n is not f.node:
        p = m.parent(n)
        if isinstance(p, ast.Try) and any(n is x for x in p.body):
            return all(any(isinstance(r, ast.Raise) and r.exc is not None and callname(r.exc) == "IntrinsicFailure" for r in ast.walk(h)) for h in p.handlers)
        n = p
    return False


def _arity_guarded(f, assign):
    """a preceding `if <sep> not in <subject>: raise IntrinsicFailure` makes the 2-way split total"""
    call = assign.value
    sep, subj = norm(call.args[0]), norm(call.func.value)
    for s_ in f.node.body:
        if s_.lineno >= assign.lineno:
            break
        if isinstance(s_, ast.If) and norm(s_.test) == "%s not in %s" % (sep, subj) and any(isinstance(r, ast.Raise) and callname(r.exc) == "IntrinsicFailure" for r in s_.body):
            return True
    return False


def r4(chk, ctx, sp):
    eif, intr = _intrinsics(sp)
    n = 0
    for name, f in sorted(intr.items()):
        for c in body_nodes(f):
            if isinstance(c, ast.Call) and callname(c) in ("set", "frozenset"):
                n += 1
                par = sp.parent(c)
                ordered = isinstance(par, ast.Call) and callname(par) in ("sorted",)
                order_free = isinstance(par, ast.Call) and callname(par) in ("len",) or isinstance(par, ast.Compare)
                chk.ob("C13.R4", "asl_intrinsic_%s: a set's iteration order does not reach the result" % name, ordered or order_free, short(par if par is not None else c, 50),
                       key="%s | result depends on the iteration order of a set (`%s`)" % (f.qname, short(par if par is not None else c, 40)), where=f.where(c),
                       message="the order of a set of strings changes with PYTHONHASHSEED: the same input gives different outputs in different processes")
    chk.sample({"rule": "C13.R4", "set_constructions": n})


def r5(chk, ctx, sp):
    eif, intr = _intrinsics(sp)
    n = 0
    funcs = [sp.func("evaluate_payload_template")] + [f for q, f in sp.funcs.items() if q.startswith("evaluate_payload_template.")]
    for f in funcs:
        for c in body_nodes(f):
            if isinstance(c, ast.Call) and isinstance(c.func, ast.Attribute) and c.func.attr == "format":
                n += 1
                recv = c.func.value
                lit = isinstance(recv, ast.Constant) or (isinstance(recv, ast.BinOp) and all(isinstance(x, ast.Constant) for x in (recv.left, recv.right)))
                chk.ob("C13.R5", "%s: `%s` formats a literal" % (f.name, short(c, 50)), lit, "",
                       key="%s | str.format applied to the non-literal `%s`" % (f.qname, norm(recv)), where=f.where(c),
                       message="user text as a format string exposes attribute access ({0.__class__}) and does not honour the \\{ \\} escapes of States.Format")
    chk.floor("C13.R5", n, 10, "str.format calls")
    # States.Format itself: {} not preceded by a backslash is the only placeholder; arguments are consumed in order; \{ \} are unescaped afterwards
    fm = intr.get("Format") if isinstance(intr, dict) else None
    if fm is None:
        fm = sp.funcs.get("evaluate_payload_template.evaluate_intrinsic_function.asl_intrinsic_Format")
    if fm is None:
        raise AnalysisError("anchor not found: asl_intrinsic_Format")
    splits = [c for c in body_nodes(fm) if isinstance(c, ast.Call) and callname(c) == "re.split" and isinstance(c.args[0], ast.Constant)]
    if splits:
        import re._parser as rp
        pat = list(rp.parse(splits[0].args[0].value))
        shape = [(str(op), av if not isinstance(av, tuple) else None) for op, av in pat]
        ok = len(pat) == 3 and str(pat[0][0]) == "ASSERT_NOT" and pat[0][1][0] == -1 and [(str(o), a) for o, a in pat[0][1][1]] == [("LITERAL", 92)] \
            and (str(pat[1][0]), pat[1][1]) == ("LITERAL", 123) and (str(pat[2][0]), pat[2][1]) == ("LITERAL", 125)
        chk.ob("C13.R5", "Format: the placeholder pattern is exactly `{}` not preceded by a backslash", ok, splits[0].args[0].value,
               key="%s | placeholder pattern `%s`" % (fm.qname, splits[0].args[0].value), where=fm.where(splits[0]), message="only {} is substituted; \\{ and \\} are literal braces")
        ok = norm(splits[0].args[1]) == "template_string"
        chk.ob("C13.R5", "Format: the template is the first argument", ok, "", key="%s | split subject" % fm.qname, where=fm.where(), message="")
        loops = [l for l in body_nodes(fm) if isinstance(l, ast.For)]
        def _chain(e):
            return _chain(e.left) + _chain(e.right) if isinstance(e, ast.BinOp) and isinstance(e.op, ast.Add) else [norm(e)]
        ok = len(loops) == 1 and norm(loops[0].iter) == "zip(args, parts[1:])" and len(loops[0].body) == 1 and isinstance(loops[0].body[0], (ast.AugAssign, ast.Assign))
        if ok:
            st_ = loops[0].body[0]
            acc = norm(st_.target if isinstance(st_, ast.AugAssign) else st_.targets[0])
            ops = [x for x in _chain(st_.value) if x != acc]
            tg = [norm(t) for t in loops[0].target.elts] if isinstance(loops[0].target, ast.Tuple) else []
            ok = len(tg) == 2 and ops == ["str(%s)" % tg[0], tg[1]] and (isinstance(st_, ast.AugAssign) and isinstance(st_.op, ast.Add) or _chain(st_.value)[0] == acc)
        chk.ob("C13.R5", "Format: arguments are substituted in order, each rendered with str()", ok, "", key="%s | substitution loop" % fm.qname, where=fm.where(),
               message="Format substitutes arguments in order")
        rets = [r for r in body_nodes(fm) if isinstance(r, ast.Return)]
        ok = len(rets) == 1 and norm(rets[0].value) == "result.replace('\\\\{', '{').replace('\\\\}', '}')"
        chk.ob("C13.R5", "Format: escaped braces are unescaped after substitution", ok, norm(rets[0].value) if rets else "", key="%s | unescaping" % fm.qname, where=fm.where(), message="honours escaped braces")
        guard = [i for i in body_nodes(fm) if isinstance(i, ast.If) and norm(i.test) == "len(parts) - 1 > len(args)" and any(isinstance(x, ast.Raise) for x in i.body)]
        chk.ob("C13.R5", "Format: fewer arguments than placeholders fails", len(guard) == 1, "", key="%s | argument count test" % fm.qname, where=fm.where(), message="ill-formed calls fail with States.IntrinsicFailure")


def r6(chk, ctx, sp):
    funcs = [f for q, f in sp.funcs.items() if q.startswith("evaluate_payload_template.")]
    n = 0
    for f in funcs:
        for c in body_nodes(f):
            if isinstance(c, ast.Call) and callname(c) in ("re.split", "re.findall", "re.search", "re.match", "re.sub", "re.compile"):
                pat = c.args[0]
                if isinstance(pat, ast.Constant):
                    continue
                n += 1
                bad = [x for x in ast.walk(pat) if isinstance(x, ast.Name)]
                esc = [x for x in ast.walk(pat) if isinstance(x, ast.Call) and callname(x) == "re.escape"]
                escaped_names = {y.id for e in esc for y in ast.walk(e) if isinstance(y, ast.Name)}
                raw = [x.id for x in bad if x.id not in escaped_names]
                chk.ob("C13.R6", "%s: regex built from data escapes it" % f.name, not raw, norm(pat),
                       key="%s | regex built from unescaped data `%s`" % (f.qname, norm(pat)), where=f.where(c),
                       message="separator characters such as ^ - ] \\ change the meaning of the character class: StringSplit('a^b-c','^-') splits wrongly")
    chk.floor("C13.R6", n, 1, "regexes built from data")


def r7(chk, ctx, sp):
    eif, intr = _intrinsics(sp)
    fa = [c for c in body_nodes(eif) if isinstance(c, ast.Call) and callname(c) == "re.findall"]
    chk.ob("C13.R7", "arguments are tokenised by one regex", len(fa) == 1, "", key="%s | tokeniser" % eif.qname, where=eif.where(), message="")
    if not fa:
        return
    pat = const(fa[0].args[0])
    tree = sre_parse.parse(pat)
    alts = []
    for op, av in tree:
        if op == sre_c.BRANCH:
            alts = av[1]
    chk.ob("C13.R7", "tokeniser has three alternatives (string | nested call | bare token)", len(alts) == 3, "", key="%s | tokeniser alternatives: %d" % (eif.qname, len(alts)), where=eif.where(), message="")
    nested = None
    for a in alts:
        items = list(a)
        lits = "".join(chr(v) for o, v in items if o == sre_c.LITERAL)
        if lits.startswith("States"):
            nested = items
    chk.ob("C13.R7", "nested-call alternative found", nested is not None, "", key="%s | nested-call alternative" % eif.qname, where=eif.where(), message="")
    if nested is not None:
        rep = [(o, v) for o, v in nested if o in (sre_c.MAX_REPEAT, sre_c.MIN_REPEAT)]
        kind = "lazy" if rep and rep[0][0] == sre_c.MIN_REPEAT else "greedy"
        anyrep = bool(rep) and rep[0][1][2][0][0] == sre_c.ANY
        closes = nested[-1] == (sre_c.LITERAL, ord(")"))
        # "States" + any* + ")" cannot delimit a call that itself contains ")" (lazy: stops too early; greedy: swallows siblings)
        balanced = not (anyrep and closes)
        chk.ob("C13.R7", "nested-call alternative can delimit a call containing ')'", balanced, "States <%s any>* )" % kind,
               key="%s | nested-call alternative is `States` + %s any + `)`: cannot delimit a call that contains ')'" % (eif.qname, kind), where=eif.where(fa[0]),
               message="lazy: States.Array(States.Array(States.MathAdd(1,2))) and ')' inside a string argument are cut short; greedy: two sibling nested calls are swallowed into one argument")
    s_alt = list(alts[0]) if alts else []
    ok = bool(s_alt) and s_alt[0] == (sre_c.LITERAL, ord("'")) and s_alt[-1] == (sre_c.LITERAL, ord("'")) and any(o == sre_c.ASSERT_NOT for o, v in s_alt)
    chk.ob("C13.R7", "string alternative: apostrophe-delimited with escaped-apostrophe lookbehind", ok, "", key="%s | string alternative" % eif.qname, where=eif.where(), message="")


def r8(chk, ctx, sp):
    eif, intr = _intrinsics(sp)
    sl = ctx.mod("statelint")
    names = set()
    for n in ast.walk(sl.tree):
        if isinstance(n, ast.Call) and callname(n) == "re.compile" and isinstance(n.args[0], ast.Constant) and "States" in n.args[0].value:
            pat = n.args[0].value
            m = _re.search(r"States\\\.\(([^)]*)\)", pat)
            if m:
                names |= set(m.group(1).split("|"))
            m = _re.search(r"States\\\.([A-Za-z0-9]+)", pat)
            if m and "(" not in m.group(1):
                names.add(m.group(1))
    impl = set(intr) - {"Default"}
    chk.floor("C13.R8", len(impl), 18, "implemented intrinsics")
    for nm in sorted(impl | names):
        chk.ob("C13.R8", "intrinsic %s: validator and engine agree" % nm, nm in impl and nm in names, "validator:%s engine:%s" % (nm in names, nm in impl),
               key="intrinsic %s is %s" % (nm, "accepted by the validator but not implemented" if nm not in impl else "implemented but rejected by the validator"), where=sl.rel,
               message="a validator-accepted machine must not fail at run time for an unknown intrinsic (and vice versa)")


def run(chk, ctx):
    from . import generic
    generic.definite_assignment(chk, ctx, ['state_engine_paths'], "C13.DA")   # no local is read before it is bound (UnboundLocalError = an arbitrary exception)
    sp = ctx.mod("state_engine_paths")
    r1(chk, ctx, sp)
    r2(chk, ctx, sp)
    r3(chk, ctx, sp)
    r4(chk, ctx, sp)
    r5(chk, ctx, sp)
    r6(chk, ctx, sp)
    r7(chk, ctx, sp)
    r8(chk, ctx, sp)
    from . import c01
    c01.r1(chk, ctx, ctx.protocol(), ctx.mod('state_engine'))  # where the templates are evaluated: once per state / per Map item, on the documented input
    from . import round4
    round4.execution_input_is_a_copy(chk, ctx)   # 'the context is left unmodified' while states update the event data
    round4.intrinsics_pure(chk, ctx)
    round4.template_context_single(chk, ctx)
    round4.fresh_iteration_input(chk, ctx)   # ItemSelector is evaluated for every item
    from . import round5
    round5.expander_applied_to_template_only(chk, ctx, "C13.R10")
    chk.assume("hashlib, base64, json, uuid behave as documented")
