"""Rules added after the third blind round of seeded changes (DESIGN 8.6).  Each function is one rule; the property modules that
own the clause call them from run().  Every rule names the structural part it decides and why breaking it breaks the behaviour."""
import ast

from ..core import AnalysisError, dotted, callname, last, const, short, norm, strip_await
from ..cfg import CFG, OTHER
from ..util import body_nodes, name_defs, enclosing_stmt, enclosing_ifs


def _positive(rule, matcher, src, what):
    """zero-expected rules keep a tiny positive example that must match on every run"""
    tree = ast.parse(src)
    if not matcher(tree):
        raise AnalysisError("%s: the matcher no longer recognises its own positive example (%s)" % (rule, what))


# ---------------------------------------------------------------------------------------------------------------------
# C05.R6 / C02: the range marked "terminated" by the join is the window of slots that were launched
def terminated_range(chk, ctx):
    se = ctx.mod("state_engine")
    f = ctx.protocol().join
    slices = set()
    for n in body_nodes(f):
        if isinstance(n, ast.Subscript) and isinstance(n.slice, ast.Slice) and isinstance(n.value, ast.Name) and n.slice.lower is not None and n.slice.upper is not None:
            d = [x for x in name_defs(f, n.value.id) if isinstance(x, ast.Assign)]
            if d and norm(d[0].value).endswith("['results']"):
                slices.add((norm(n.slice.lower), norm(n.slice.upper)))
    sets = [n for n in body_nodes(f) if isinstance(n, ast.Assign) and any(isinstance(t, ast.Subscript) and const(t.slice) == "terminated" for t in n.targets)]
    chk.floor("C05.R6", len(sets), 1, "assignments of the terminated range in the join")
    chk.floor("C05.R6", len(slices) + 1, 2, "batch windows result[a:b] in the join")
    for s in sets:
        v = s.value
        pair = None
        # str(a) + ":" + str(b)
        if isinstance(v, ast.BinOp) and isinstance(v.op, ast.Add) and isinstance(v.left, ast.BinOp) and const(v.left.right) == ":":
            a, b = v.left.left, v.right
            if all(isinstance(x, ast.Call) and isinstance(x.func, ast.Name) and x.func.id == "str" and len(x.args) == 1 for x in (a, b)):
                pair = (norm(a.args[0]), norm(b.args[0]))
        ok = pair in slices
        chk.ob("C05.R6", "join: terminated range %s is the batch window %s" % (pair, sorted(slices)), ok, norm(v),
               key="%s | the terminated range `%s` is not the batch window result[%s]" % (f.qname, norm(v), " / ".join("%s:%s" % p for p in sorted(slices))), where=se.line(s),
               message="check_pending_results waits for (and cancels) exactly the slots in the terminated range: slots of batches that were never launched stay pending "
                       "for ever, so the join state is never released and the back-stop ends the execution a second time; launched slots outside it are never cancelled")
    # the window itself: end = min(start + max_concurrency, len(result)) / len(result)
    ends = [x for x in name_defs(f, "end") if isinstance(x, ast.Assign)]
    texts = sorted(norm(x.value) for x in ends)
    ok = texts == ["len(result)", "min(start + max_concurrency, len(result))"]
    chk.ob("C05.R6", "join: batch window end is min(start + MaxConcurrency, len) / len", ok, str(texts), key="%s | batch window end %s" % (f.qname, texts), where=f.where(), message="")


# ---------------------------------------------------------------------------------------------------------------------
# C05.R7: a slot is marked __TERMINATED__ only under its own group's terminated flag
def sentinel_guard(chk, ctx):
    se = ctx.mod("state_engine")
    n_sites = 0
    for q, f in sorted(se.funcs.items()):
        for s in body_nodes(f):
            if not (isinstance(s, ast.Assign) and const(s.value) == "__TERMINATED__" and len(s.targets) == 1 and isinstance(s.targets[0], ast.Subscript) and isinstance(s.targets[0].value, ast.Name)):
                continue
            n_sites += 1
            arr = s.targets[0].value.id
            # group variable G:  arr = G["results"] / G.get("results")
            grp = None
            for d in name_defs(f, arr):
                v = getattr(d, "value", None)
                if isinstance(v, ast.Subscript) and const(v.slice) == "results" and isinstance(v.value, ast.Name):
                    grp = v.value.id
                if isinstance(v, ast.Call) and isinstance(v.func, ast.Attribute) and v.func.attr == "get" and v.args and const(v.args[0]) == "results" and isinstance(v.func.value, ast.Name):
                    grp = v.func.value.id
            gi = [(i, arm) for i, arm in enclosing_ifs(se, s, f.node)]
            inner = gi[0] if gi else None
            ok = False
            why = "no guard"
            if inner and inner[1] == "body" and grp:
                groups, pure = _terminated_sources(f, inner[0].test)
                ok = pure and grp in groups
                why = "innermost guard `%s` derives from the terminated flag of %s%s" % (norm(inner[0].test), sorted(groups) or "nothing", "" if pure else " and from other values")
            chk.ob("C05.R7", "%s: `%s` guarded by the terminated flag of %s" % (f.name, norm(s), grp), ok, why,
                   key="%s | `%s` is not guarded by the terminated flag of its own results group (%s)" % (f.qname, norm(s), why), where=se.line(s),
                   message="a slot marked __TERMINATED__ counts as finished: marking the parent's slot when the parent was not terminated lets the outer join fire early with a sentinel as that branch's output")
    chk.floor("C05.R7", n_sites, 2, "writes of the __TERMINATED__ sentinel")


def _terminated_sources(f, test, depth=3):
    """names in `test`, expanded through local definitions: which groups' .get('terminated') do they read; pure = nothing else"""
    groups, pure = set(), True
    names = [x for x in ast.walk(test) if isinstance(x, ast.Name)]
    if not names:
        return groups, False
    for nm in names:
        defs = [d for d in name_defs(f, nm.id) if isinstance(d, ast.Assign)]
        vals = [d.value for d in defs if not (isinstance(d.value, ast.Constant) and d.value.value in (None, False))]
        if not vals:
            pure = False
            continue
        for v in vals:
            if isinstance(v, ast.Call) and isinstance(v.func, ast.Attribute) and v.func.attr == "get" and v.args and const(v.args[0]) == "terminated" and isinstance(v.func.value, ast.Name):
                groups.add(v.func.value.id)
            elif isinstance(v, ast.BoolOp) and depth > 0:
                g2, p2 = _terminated_sources(f, v, depth - 1)
                groups |= g2
                pure = pure and p2
            else:
                pure = False
    return groups, pure


# ---------------------------------------------------------------------------------------------------------------------
# C03.R9: a retained (orphaned) reply is acknowledged only by the expiry handler or by being handled again
def retained_ack(chk, ctx):
    td = ctx.mod("task_dispatcher")

    def sites(funcs):
        out = []
        for q, f in funcs:
            tainted = set()
            for n in body_nodes(f):
                src = None
                if isinstance(n, ast.Assign):
                    src, tg = n.value, n.targets[0]
                elif isinstance(n, ast.For):
                    src, tg = n.iter, n.target
                if src is None or "orphaned_responses" not in norm(src) and not (isinstance(src, ast.Name) and src.id in tainted):
                    continue
                for x in ast.walk(tg):
                    if isinstance(x, ast.Name):
                        tainted.add(x.id)
            for n in body_nodes(f):
                if isinstance(n, ast.Call) and isinstance(n.func, ast.Attribute) and n.func.attr == "acknowledge" and isinstance(n.func.value, ast.Name) and n.func.value.id in tainted:
                    out.append((q, f, n))
        return out

    class _F:           # adaptor for the positive example
        def __init__(self, node):
            self.node = node
    _positive("C03.R9", lambda t: sites([("x", _F(t.body[0]))]),
              "def h(self, c):\n    o = self.orphaned_responses.pop(c, None)\n    if o:\n        m, t = o\n        m.acknowledge(multiple=False)\n", "ack of a message taken from orphaned_responses")
    found = sites(sorted(td.funcs.items()))
    n_funcs = sum(1 for q, f in td.funcs.items() if any("orphaned_responses" in norm(x) for x in body_nodes(f) if isinstance(x, ast.Attribute)))
    chk.floor("C03.R9", n_funcs, 4, "functions touching orphaned_responses")
    def replaced(f, n):
        # accepted idiom: the retained message is acknowledged and, in the same block, the table entry is replaced by the message being handled
        st = enclosing_stmt(td, n)
        blk = getattr(td.parent(st), "body", []) + getattr(td.parent(st), "orelse", [])
        return any(isinstance(s, ast.Assign) and any(isinstance(t, ast.Subscript) and norm(t.value) == "self.orphaned_responses" for t in s.targets) and isinstance(s.value, ast.Tuple)
                   and s.value.elts and isinstance(s.value.elts[0], ast.Name) and s.value.elts[0].id != n.func.value.id and s.lineno > st.lineno for s in blk if any(st is x for x in blk))
    bad = [(q, f, n) for q, f, n in found if f.name != "log_and_acknowledge_orphaned_responses" and not replaced(f, n)]
    chk.ob("C03.R9", "retained replies are acknowledged only by their expiry handler (%d functions touch orphaned_responses)" % n_funcs, not bad, "",
           key="%s | a retained reply is acknowledged outside its expiry handler" % (bad[0][0] if bad else ""), where=td.line(bad[0][2]) if bad else "task_dispatcher",
           message="a retained reply that is later matched is passed to handle_rpcmessage_response again, which acknowledges the message it handles: acknowledging the retained "
                   "copy as well acknowledges one delivery twice (the broker closes the channel with PRECONDITION_FAILED)")


# ---------------------------------------------------------------------------------------------------------------------
# C04.R6: the orphan sweep re-arms itself on every path while retained replies remain
def orphan_sweep_rearms(chk, ctx):
    td = ctx.mod("task_dispatcher")
    f = td.func("TaskDispatcher.handle_orphaned_responses")
    calls = [n for n in body_nodes(f) if isinstance(n, ast.Call) and callname(n) == "self.schedule_orphaned_response_handler"]
    ok = len(calls) == 1
    why = "%d calls" % len(calls)
    if ok:
        st = enclosing_stmt(td, calls[0])
        g = CFG(f.node)
        cn = g.node_of(st)
        # every normal path from entry to exit passes the call, unless the only guards test the emptiness of orphaned_responses
        avoid = g.paths_avoiding(g.entry, g.exit, {cn})
        gi = enclosing_ifs(td, st, f.node)
        only_empty = all("orphaned_responses" in norm(i.test) and not any(isinstance(x, ast.Name) and x.id not in ("self", "len") for x in ast.walk(i.test)) for i, arm in gi)
        ok = (not avoid) or (bool(gi) and only_empty)
        why = "guards: %s" % [norm(i.test) for i, arm in gi]
        # and the flag that lets it be scheduled again is reset first
        resets = [s for s in body_nodes(f) if isinstance(s, ast.Assign) and norm(s.targets[0]) == "self.handle_orphaned_responses_is_scheduled" and const(s.value) is False]
        ok2 = len(resets) == 1 and g.dominates(g.node_of(resets[0]), cn)
        chk.ob("C04.R6", "orphan sweep clears its scheduled flag before re-arming", ok2, "", key="%s | scheduled flag not reset before re-arming" % f.qname, where=f.where(), message="")
    chk.ob("C04.R6", "orphan sweep re-arms itself on every path", ok, why, key="%s | the sweep does not re-arm itself on every path (%s)" % (f.qname, why), where=f.where(),
           message="a reply retained after a restart is matched by this 1 s sweep once its redelivered Task event has re-registered the request; if the sweep stops while replies "
                   "are still retained, a Task whose event is delivered later (e.g. one waiting in a Retry interval) never sees its reply")
    s = td.func("TaskDispatcher.schedule_orphaned_response_handler")
    sets = [n for n in body_nodes(s) if isinstance(n, ast.Call) and last(callname(n)) == "set_timeout" and n.args and norm(n.args[0]) == "self.handle_orphaned_responses"]
    early = [n for n in body_nodes(s) if isinstance(n, ast.If) and any(isinstance(r, ast.Return) for r in n.body)]
    ok = len(sets) == 1 and len(early) == 1 and sorted(norm(v) for v in (early[0].test.values if isinstance(early[0].test, ast.BoolOp) and isinstance(early[0].test.op, ast.Or) else [early[0].test])) == \
        ["len(self.orphaned_responses) == 0", "self.handle_orphaned_responses_is_scheduled"]
    chk.ob("C04.R6", "scheduler arms the sweep unless nothing is retained or it is already armed", ok, "", key="%s | arming condition" % s.qname, where=s.where(), message="")


# ---------------------------------------------------------------------------------------------------------------------
# C20.R7 / C04: every JSONStore mutation is written through: _update_store reaches the dump on every path
def json_write_through(chk, ctx):
    st = ctx.mod("store")
    f = st.func("JSONStore._update_store")
    dumps = [n for n in body_nodes(f) if isinstance(n, ast.Call) and callname(n) == "json.dump"]
    ok = len(dumps) == 1
    why = ""
    if ok:
        g = CFG(f.node)
        dn = g.containing_stmt_node(dumps[0], st)
        avoid = g.paths_avoiding(g.entry, g.exit, {dn})
        ok = not avoid
        why = "a path reaches the end of _update_store without json.dump" if avoid else ""
        w = [n for n in body_nodes(f) if isinstance(n, ast.With)]
        ok = ok and len(w) == 1 and norm(w[0].items[0].context_expr) == "open(self.json_store, 'w')" and norm(dumps[0].args[0]) == "self.store"
    chk.ob("C20.R7", "JSONStore._update_store writes self.store to the file on every path", ok, why, key="%s | a mutation can return without the file being written (%s)" % (f.qname, why or "shape"), where=f.where(),
           message="the file store is write-through: a definition accepted just before a crash must be on disk, because events after the first carry no definition and are dropped when it is missing")
    muts = 0
    for name in ("__setitem__", "__delitem__"):
        m = st.func("JSONStore." + name)
        calls = [n for n in body_nodes(m) if isinstance(n, ast.Call) and callname(n) == "self._update_store"]
        g = CFG(m.node)
        okm = len(calls) == 1 and not g.paths_avoiding(g.entry, g.exit, {g.containing_stmt_node(calls[0], st)}) and not enclosing_ifs(st, enclosing_stmt(st, calls[0]), m.node) if calls else False
        muts += 1
        chk.ob("C20.R7", "JSONStore.%s ends with _update_store()" % name, okm, "", key="JSONStore.%s | mutation without unconditional write-through" % name, where=m.where(), message="")
    chk.floor("C20.R7", muts, 2, "JSONStore mutators")


# ---------------------------------------------------------------------------------------------------------------------
# C08.R6: a timer's delay reaches the event loop unchanged (negative -> 0 only), on both transports
def timer_delay_unmodified(chk, ctx):
    n = 0
    shapes = {}
    for mn in ("amqp_0_9_1_messaging", "amqp_0_9_1_messaging_asyncio"):
        m = ctx.mod(mn)
        f = m.func("Connection.set_timeout")
        n += 1
        assigns = [s for s in body_nodes(f) if isinstance(s, (ast.Assign, ast.AugAssign)) and any(isinstance(x, ast.Name) and x.id == "delay" and isinstance(x.ctx, ast.Store) for x in ast.walk(s))]
        ok = True
        why = []
        for s in assigns:
            gi = enclosing_ifs(m, s, f.node)
            fine = isinstance(s, ast.Assign) and const(s.value) == 0 and type(const(s.value)) is int and len(gi) == 1 and gi[0][1] == "body" and norm(gi[0][0].test) in ("delay < 0", "0 > delay")
            fine = fine or (isinstance(s, ast.Assign) and norm(s.value) in ("max(delay, 0)", "max(0, delay)") and not gi)
            if not fine:
                ok = False
                why.append(norm(s))
        rets = [r for r in body_nodes(f) if isinstance(r, ast.Return)]
        okr = len(rets) == 1 and isinstance(rets[0].value, ast.Call) and len(rets[0].value.args) == 2 and norm(rets[0].value.args[0]) == "delay / 1000" and norm(rets[0].value.args[1]) == "callback"
        shapes[mn] = (sorted(norm(s) for s in assigns), norm(rets[0].value.args[0]) if okr else "?")
        chk.ob("C08.R6", "%s.set_timeout: delay only clamped below at 0" % mn, ok, str(why), key="%s.Connection.set_timeout | the delay is altered (%s)" % (mn, "; ".join(why)), where=f.where(),
               message="Wait deadlines and timeouts are armed with the full remaining time; an upper clamp (or any rescaling) fires the timer early")
        chk.ob("C08.R6", "%s.set_timeout: arms call_later(delay / 1000, callback)" % mn, okr, "", key="%s.Connection.set_timeout | arming expression" % mn, where=f.where(), message="milliseconds in, seconds to the loop")
    chk.ob("C08.R6", "both transports treat the delay alike", len({repr(v) for v in shapes.values()}) == 1, str(shapes), key="Connection.set_timeout | transports disagree on the delay", where="amqp_0_9_1_messaging*.py", message="")
    chk.floor("C08.R6", n, 2, "set_timeout implementations")


# ---------------------------------------------------------------------------------------------------------------------
# C09.R6: a (re)started STANDARD execution always gets a fresh record and an empty history
def start_resets_record(chk, ctx):
    se = ctx.mod("state_engine")
    st = se.func("StateEngine.start_execution")
    n_st = 0
    for n in body_nodes(st):
        if isinstance(n, ast.Assign) and any(isinstance(t, ast.Subscript) and last(dotted(t.value) or "") in ("executions", "execution_history") for t in n.targets):
            n_st += 1
            gi = enclosing_ifs(se, n, st.node)
            ok = len(gi) == 1 and gi[0][1] == "body" and "STANDARD" in norm(gi[0][0].test)
            chk.ob("C09.R6", "start_execution: `%s` under the STANDARD test only" % short(n, 50), ok, str([norm(i.test) for i, a in gi]),
                   key="StateEngine.start_execution | `%s` under extra guard(s) %s" % (norm(n.targets[0]), [norm(i.test) for i, a in gi[:-1]]), where=se.line(n),
                   message="ExecutionStarted is appended by every handling of a start event: unless the record and the history are re-created on that same path, a redelivered start or a re-used "
                           "name leaves two ExecutionStarted events / a record whose input, startDate and error belong to the earlier run")
    chk.floor("C09.R6", n_st, 2, "record/history creations in start_execution")
    hist = [n for n in body_nodes(st) if isinstance(n, ast.Assign) and norm(n.targets[0]) == "self.execution_history[execution_arn]"]
    ok = len(hist) == 1 and norm(hist[0].value) == "[]"
    chk.ob("C09.R6", "start_execution: history starts empty", ok, "", key="StateEngine.start_execution | initial history value", where=st.where(), message="")
    # and it happens before the ExecutionStarted event is recorded
    ups = [n for n in body_nodes(st) if isinstance(n, ast.Call) and callname(n) == "self.update_execution_history"]
    if hist and ups:
        ok = all(hist[0].lineno < u.lineno for u in ups)
        chk.ob("C09.R6", "history created before ExecutionStarted is recorded", ok, "", key="StateEngine.start_execution | ExecutionStarted recorded before the history is created", where=st.where(), message="")


# ---------------------------------------------------------------------------------------------------------------------
# C10.R6 / C18.R8: the semantic checker is built per validation (it accumulates state names)
def validator_stateless(chk, ctx):
    sl = ctx.mod("statelint")
    cls = [c for c in sl.tree.body if isinstance(c, ast.ClassDef) and c.name == "StateNode"]
    if not cls:
        raise AnalysisError("C18.R8: class StateNode not found")
    init = sl.func("StateNode.__init__")
    acc = sorted({norm(s.targets[0]) for s in body_nodes(init) if isinstance(s, ast.Assign) and isinstance(s.value, (ast.List, ast.Dict, ast.Set))})
    sites = []
    for q, f in sorted(sl.funcs.items()):
        for n in body_nodes(f):
            if isinstance(n, ast.Call) and isinstance(n.func, ast.Name) and n.func.id == "StateNode":
                sites.append((q, f, n))
    for n in ast.walk(sl.tree):
        if isinstance(n, ast.Call) and isinstance(n.func, ast.Name) and n.func.id == "StateNode" and sl.enclosing_func(n) is None:
            sites.append(("<module>", None, n))
    chk.floor("C18.R8", len(sites), 1, "constructions of StateNode")
    for q, f, n in sites:
        st = enclosing_stmt(sl, n)
        local = f is not None and f.qname == "StateLint.validate" and isinstance(st, ast.Assign) and all(isinstance(t, ast.Name) for t in st.targets)
        chk.ob("C18.R8", "%s: StateNode() is a per-validation local (accumulators: %s)" % (q, acc), local, norm(st),
               key="%s | the StateNode checker outlives one validation (`%s`)" % (q, norm(st)), where=sl.line(n),
               message="StateNode accumulates every state name it has seen (%s): reused across requests, a second definition that re-uses any earlier state name is refused as a duplicate" % ", ".join(acc))
    # validate() keeps nothing on self
    v = sl.func("StateLint.validate")
    stores = [s for s in body_nodes(v) if isinstance(s, (ast.Assign, ast.AugAssign)) and any(isinstance(x, ast.Attribute) and isinstance(x.ctx, ast.Store) and norm(x.value) == "self" for x in ast.walk(s))]
    chk.ob("C18.R8", "StateLint.validate stores nothing on self", not stores, "", key="StateLint.validate | stores on self", where=v.where(), message="the same value must get the same answer, whatever was validated before")


# ---------------------------------------------------------------------------------------------------------------------
# C15.R9: the error name SendTaskFailure publishes
def send_task_failure_error(chk, ctx):
    m = ctx.mod("rest_api_asyncio")
    f = [f for q, f in m.funcs.items() if f.name == "aws_api_SendTaskFailure"][0]
    d = [x for x in name_defs(f, "error") if isinstance(x, ast.Assign)]
    v = strip_await(d[0].value) if len(d) == 1 else None
    fallback = None
    if isinstance(v, ast.BoolOp) and isinstance(v.op, ast.Or) and len(v.values) == 2:
        v, fallback = strip_await(v.values[0]), v.values[1]
    ok = isinstance(v, ast.Call) and norm(v.func) == "params.get" and const(v.args[0]) == "error"
    chk.ob("C15.R9", "SendTaskFailure reads `error` from the request", ok, "", key="aws_api_SendTaskFailure | source of the error name", where=f.where(), message="exactly the supplied error")
    if not ok:
        return
    # the published body carries error and cause under errorType/errorMessage
    msgs = [n for n in body_nodes(f) if isinstance(n, ast.Call) and callname(n) == "Message"]
    okm = len(msgs) == 1 and norm(msgs[0].args[0]) == "json.dumps({'errorType': error, 'errorMessage': cause})"
    chk.ob("C15.R9", "SendTaskFailure publishes {'errorType': error, 'errorMessage': cause}", okm, "", key="aws_api_SendTaskFailure | published body", where=f.where(), message="")
    # a falsy error name never reaches the publish: `params.get('error') or <non-empty name>`, or a refusing test
    truthy_fallback = isinstance(fallback, ast.Constant) and isinstance(fallback.value, str) and bool(fallback.value)
    guards = [i for i in body_nodes(f) if isinstance(i, ast.If) and any(isinstance(r, ast.Return) for r in i.body) and norm(i.test) in ("not error", "error == ''", "len(error) == 0", "not error or not isinstance(error, str)")]
    dflt = v.args[1] if len(v.args) > 1 else None
    shown = norm(d[0].value)
    chk.ob("C15.R9", "the error name that is published is never falsy (`error = %s`)" % shown, truthy_fallback or bool(guards), "",
           key="aws_api_SendTaskFailure | a missing or empty error name is published as a falsy errorType (`error = %s`)" % shown, where=m.line(d[0]),
           message="the reply handler decides success/failure from the truth of errorType: a SendTaskFailure published with an empty error name completes the waiting Task successfully")


# ---------------------------------------------------------------------------------------------------------------------
# C16.R5: the size of a task reply is measured on the text that was received
def reply_size_on_received_text(chk, ctx):
    td = ctx.mod("task_dispatcher")
    f = td.func("TaskDispatcher.handle_rpcmessage_response")
    cmps = [c for c in body_nodes(f) if isinstance(c, ast.Compare) and any(isinstance(x, ast.Name) and x.id == "MAX_DATA_LENGTH" for x in ast.walk(c))]
    chk.floor("C16.R5", len(cmps), 1, "size tests in the reply handler")
    for c in cmps:
        lens = [x for x in ast.walk(c) if isinstance(x, ast.Call) and isinstance(x.func, ast.Name) and x.func.id == "len"]
        arg = lens[0].args[0] if lens else None
        src = None
        if isinstance(arg, ast.Name):
            ds = sorted((x for x in name_defs(f, arg.id) if isinstance(x, ast.Assign) and x.lineno < c.lineno), key=lambda x: x.lineno)
            src = [norm(x.value) for x in ds[-1:]]      # the nearest preceding binding (straight-line code up to the test)
        ok = src is not None and len(src) == 1 and src[0] in ("message.body", "message.body.decode('utf8')", "message_body.decode('utf8')")
        chk.ob("C16.R5", "reply size test measures the received body", ok, str(src), key="%s | size test measures `%s` = %s, not the received body" % (f.qname, norm(arg) if arg is not None else "?", src), where=td.line(c),
               message="the quota is on the text the worker sent: a re-serialisation has a different length (separators, whitespace, escapes), so replies at the boundary are decided wrongly")
        # and it is decided before the body is parsed
        st = enclosing_stmt(td, c)
        loads = [n for n in body_nodes(f) if isinstance(n, ast.Call) and callname(n) == "json.loads"]
        ok = isinstance(st, ast.If) and all(any(n is y for s in st.orelse for y in ast.walk(s)) for n in loads if n.lineno < st.lineno + 40 and n.lineno >= st.lineno)
        chk.ob("C16.R5", "the body is parsed only in the else-arm of the size test", ok, "", key="%s | reply parsed outside the else-arm of its size test" % f.qname, where=td.line(c), message="an oversized reply is refused without being interpreted")


# ---------------------------------------------------------------------------------------------------------------------
# C18.R9: dispatch's drop arms acknowledge the delivery itself
def drop_arm_acks_directly(chk, ctx):
    ed = ctx.mod("event_dispatcher")
    f = ed.func("EventDispatcher.dispatch")
    trys = [n for n in f.node.body if isinstance(n, ast.Try)]
    ok = len(trys) == 1
    chk.ob("C18.R9", "dispatch has one try around decoding and notify", ok, "", key="%s | shape" % f.qname, where=f.where(), message="")
    if not ok:
        return
    t = trys[0]
    g = CFG(f.node, may_raise=lambda n: {OTHER, "ValueError"} if any(isinstance(x, ast.Call) for x in ast.walk(n)) else set())
    reg = [s for s in body_nodes(f) if isinstance(s, ast.Assign) and any(isinstance(x, ast.Subscript) and norm(x.value) == "self.unacknowledged_messages" for x in s.targets)]
    chk.floor("C18.R9", len(t.handlers), 2, "drop arms of dispatch")
    for h in t.handlers:
        direct = [n for s in h.body for n in ast.walk(s) if isinstance(n, ast.Call) and norm(n.func) == "message.acknowledge"]
        via = [n for s in h.body for n in ast.walk(s) if isinstance(n, ast.Call) and norm(n.func) == "self.acknowledge"]
        okh = len(direct) == 1 and not via
        why = ""
        if via and reg:
            dom = all(g.dominates(g.node_of(reg[0]), g.containing_stmt_node(v, ed)) for v in via)
            why = "acknowledges through the id table, which this arm can reach %s the delivery was registered" % ("only after" if dom else "before")
            okh = okh or (dom and len(via) == 1 and not direct)
        hn = norm(h.type) if h.type is not None else "bare"
        chk.ob("C18.R9", "dispatch `except %s`: the dropped delivery itself is acknowledged" % hn, okh, why,
               key="%s | `except %s` does not acknowledge the dropped delivery directly (%s)" % (f.qname, hn, why or "%d direct, %d via table" % (len(direct), len(via))), where=ed.line(h),
               message="the poison event must be acknowledged whatever statement raised: decoding raises before the delivery is entered in unacknowledged_messages, and "
                       "EventDispatcher.acknowledge swallows the resulting KeyError, so the event would stay unacknowledged and be redelivered for ever")


# ---------------------------------------------------------------------------------------------------------------------
# C18.R10: the validator never needs a document value to be hashable
DOCNAMES = {"node", "json", "child", "state_node"}
IN_TABLE = {
    ("FieldValueConstraint.check", "value not in enum"): "enum is the list of strings the grammar parser built (params = {'enum': fields})",
}


def _doc_read(e):
    if isinstance(e, ast.Call) and isinstance(e.func, ast.Attribute) and e.func.attr == "get" and isinstance(e.func.value, ast.Name) and e.func.value.id in DOCNAMES:
        return True
    return isinstance(e, ast.Subscript) and isinstance(e.value, ast.Name) and e.value.id in DOCNAMES and isinstance(e.ctx, ast.Load)


def _hash_uses(fnode_body_nodes):
    nodes = list(fnode_body_nodes)
    tainted = {n.targets[0].id for n in nodes if isinstance(n, ast.Assign) and len(n.targets) == 1 and isinstance(n.targets[0], ast.Name) and _doc_read(n.value)}

    def t(e):
        return _doc_read(e) or (isinstance(e, ast.Name) and e.id in tainted)
    out = []
    for n in nodes:
        if isinstance(n, ast.Call) and isinstance(n.func, ast.Attribute) and n.func.attr in ("get", "pop", "setdefault", "add", "discard", "remove") and n.args and t(n.args[0]) \
                and not (isinstance(n.func.value, ast.Name) and n.func.value.id in DOCNAMES):
            out.append(("key", n.args[0], n))
        elif isinstance(n, ast.Subscript) and t(n.slice) and not (isinstance(n.value, ast.Name) and n.value.id in DOCNAMES and False):
            out.append(("key", n.slice, n))
        elif isinstance(n, ast.Compare) and len(n.ops) == 1 and isinstance(n.ops[0], (ast.In, ast.NotIn)) and t(n.left) and not isinstance(n.comparators[0], (ast.List, ast.Tuple)):
            out.append(("in", n.left, n))
        elif isinstance(n, ast.Dict) and any(k is not None and t(k) for k in n.keys):
            out.append(("key", [k for k in n.keys if k is not None and t(k)][0], n))
    return out


def validator_hashless(chk, ctx):
    from .c18 import _has_isinstance

    class _F:
        def __init__(self, node):
            self.node = node
    _positive("C18.R10", lambda tr: _hash_uses(body_nodes(_F(tr.body[0]))), "def f(self, node, roles):\n    r = self.table.get(node.get('Type'))\n", "dict lookup keyed by a document value")
    total = 0
    for mn in ("statelint", "j2119"):
        m = ctx.mod(mn)
        for q, f in sorted(m.funcs.items()):
            for kind, val, n in _hash_uses(body_nodes(f)):
                total += 1
                ok = False
                why = ""
                if isinstance(val, ast.Name):
                    # guarded by isinstance(val, str) in an enclosing test (if / and-chain)
                    x = n
                    while x is not None and x is not f.node and not ok:
                        p = m.parent(x)
                        if isinstance(p, ast.If) and any(x is s for s in p.body) and _has_isinstance(p.test, val.id, "str"):
                            ok = True
                        if isinstance(p, ast.If) and x is p.test:
                            # the use is itself the test of an if nested in a guarded arm: keep climbing
                            pass
                        x = p
                    why = "no enclosing isinstance(%s, str)" % val.id
                if not ok and kind == "in" and (q, norm(n)) in IN_TABLE:
                    ok, why = True, IN_TABLE[(q, norm(n))]
                chk.ob("C18.R10", "%s: `%s` does not need a hashable document value" % (q, short(n, 60)), ok, why,
                       key="%s | `%s` uses a document value as a dictionary key / set member without testing that it is a string" % (q, norm(n)), where=m.line(n),
                       message="a JSON array or object in that position raises TypeError (unhashable) out of validate(): the validator must report problems rather than raise, for any JSON value")
    chk.floor("C18.R10", total, 3, "hash-requiring uses of document values in the validator")


# ---------------------------------------------------------------------------------------------------------------------
# C19.R8: the REST front ends never consult this instance's own identity when routing a callback
INSTANCE_IDENTITY = {"reply_to_queue_name", "instance_id", "instance_queue_name", "reply_to"}


def rest_no_instance_identity(chk, ctx):
    def refs(tree):
        out = []
        for n in ast.walk(tree):
            if isinstance(n, ast.Attribute) and n.attr in INSTANCE_IDENTITY and isinstance(n.ctx, ast.Load):
                d = dotted(n)
                if d and (d.startswith("self.task_dispatcher.") or d.startswith("self.event_dispatcher.") or d.startswith("self.state_engine.")):
                    out.append(n)
        return out
    _positive("C19.R8", refs, "def f(self, reply_to):\n    p = self.task_dispatcher.reply_to_queue_name.rsplit('-', 1)[0]\n    return reply_to.startswith(p)\n", "read of the instance's own reply queue name")
    n = 0
    for mn in ("rest_api", "rest_api_asyncio"):
        m = ctx.mod(mn)
        n += 1
        bad = refs(m.tree)
        chk.ob("C19.R8", "%s never reads this instance's queue identity" % mn, not bad, "", key="%s | reads `%s`" % (mn, norm(bad[0]) if bad else ""), where=m.line(bad[0]) if bad else mn,
               message="a task token names the reply queue of the instance that started the Task; the HTTP call may land on any instance, so accepting or routing a callback by comparison "
                       "with the local instance's identity rejects (or misroutes) callbacks for Tasks started elsewhere")
    # the token's reply queue is the publish subject, unchanged
    m = ctx.mod("rest_api_asyncio")
    k = 0
    for q, f in sorted(m.funcs.items()):
        if f.name in ("aws_api_SendTaskSuccess", "aws_api_SendTaskFailure"):
            k += 1
            msgs = [c for c in body_nodes(f) if isinstance(c, ast.Call) and callname(c) == "Message"]
            ok = len(msgs) == 1 and any(kw.arg == "subject" and norm(kw.value) == "reply_to" for kw in msgs[0].keywords) and any(kw.arg == "correlation_id" and norm(kw.value) == "correlation_id" for kw in msgs[0].keywords)
            chk.ob("C19.R8", "%s publishes to the token's reply queue with the token's correlation id" % f.name, ok, "", key="%s | callback address" % f.name, where=f.where(), message="")
            tests = [i for i in body_nodes(f) if isinstance(i, ast.If) and any(isinstance(x, ast.Name) and x.id == "reply_to" for x in ast.walk(i.test))]
            chk.ob("C19.R8", "%s: no acceptance test on the token's reply queue" % f.name, not tests, str([norm(i.test) for i in tests]),
                   key="%s | the callback is accepted or refused by a test on the token's reply queue (`%s`)" % (f.name, norm(tests[0].test) if tests else ""), where=m.line(tests[0]) if tests else f.where(),
                   message="any instance must forward a well-formed token to the queue it names")
    chk.floor("C19.R8", k, 2, "callback handlers")


# ---------------------------------------------------------------------------------------------------------------------
# C02.R6: functions that are handed the execution record do not write it (except the notification's save/restore, C11.R3)
RECORD_PARAM = "execution_detail"
RECORD_WRITE_OK = {
    ("StateEngine.broadcast_notification", "startDate"): "saved before, restored after publishing (C11.R3 checks the restore)",
    ("StateEngine.broadcast_notification", "stopDate"): "saved before, restored after publishing (C11.R3 checks the restore)",
}


def _param_writes(f, p):
    out = []
    for n in body_nodes(f):
        if isinstance(n, (ast.Assign, ast.AugAssign, ast.Delete)):
            targets = n.targets if isinstance(n, (ast.Assign, ast.Delete)) else [n.target]
            for t in targets:
                if isinstance(t, ast.Subscript) and isinstance(t.value, ast.Name) and t.value.id == p:
                    out.append((n, const(t.slice) if isinstance(t.slice, ast.Constant) else norm(t.slice)))
        elif isinstance(n, ast.Call) and isinstance(n.func, ast.Attribute) and isinstance(n.func.value, ast.Name) and n.func.value.id == p and \
                n.func.attr in ("update", "pop", "clear", "setdefault", "popitem", "__setitem__", "__delitem__"):
            out.append((n, "." + n.func.attr + "()"))
    return out


def record_receivers_readonly(chk, ctx):
    class _F:
        def __init__(self, node):
            self.node = node
    _positive("C02.R6", lambda t: _param_writes(_F(t.body[0]), RECORD_PARAM), "def h(self, execution_detail):\n    execution_detail['output'] = 1\n", "store through the record parameter")
    n = 0
    for name, m in sorted(ctx.repo.modules.items()):
        for q, f in sorted(m.funcs.items()):
            params = [a.arg for a in f.node.args.args]
            if RECORD_PARAM not in params:
                continue
            n += 1
            ws = _param_writes(f, RECORD_PARAM)
            bad = [(w, k) for w, k in ws if (q, k) not in RECORD_WRITE_OK]
            chk.ob("C02.R6", "%s does not write the record it is handed (%d tolerated save/restore writes)" % (q, len(ws) - len(bad)), not bad, "",
                   key="%s | writes member %s of the execution record it was handed" % (q, sorted({str(k) for w, k in bad})), where=m.line(bad[0][0]) if bad else f.where(),
                   message="with the in-memory store the argument IS the stored record of the (terminal) execution: writing it changes output/input/status after the execution has ended")
    chk.floor("C02.R6", n, 2, "functions that receive the execution record")


# ---------------------------------------------------------------------------------------------------------------------
# C08.R7: a request's timer is disarmed only on a path that also completes (removes) the request
def timer_cleared_only_on_completion(chk, ctx):
    tdm = ctx.mod("task_dispatcher")
    n = 0
    for qn in ("TaskDispatcher.handle_rpcmessage_response", "TaskDispatcher.handle_sfn_response"):
        f = tdm.func(qn)
        g = CFG(f.node)
        clears = [c for c in body_nodes(f) if isinstance(c, ast.Call) and last(callname(c)) == "clear_timeout" and norm(c.args[0]) == "timeout_id"]
        direct = [c for c in body_nodes(f) if isinstance(c, ast.Call) and last(callname(c)) == "clear_timeout" and isinstance(c.args[0], ast.Subscript) and "request" in norm(c.args[0].value)]
        removes = [s for s in body_nodes(f) if isinstance(s, ast.Delete) and any(isinstance(t, ast.Subscript) and norm(t.value) == "self.pending_requests" for t in s.targets)]
        removes += [enclosing_stmt(tdm, c) for c in body_nodes(f) if isinstance(c, ast.Call) and norm(c.func) == "self.pending_requests.pop"]
        unp = [s for s in body_nodes(f) if isinstance(s, ast.Assign) and isinstance(s.targets[0], ast.Tuple) and norm(s.value) == "request"]
        for cl in clears:
            # which timer?  the nearest preceding binding of timeout_id decides: only the one unpacked from `request` is the request's timer
            defs = sorted((d for d in name_defs(f, "timeout_id") if d.lineno < cl.lineno), key=lambda d: d.lineno)
            if not defs or norm(defs[-1].value) != "request":
                continue
            n += 1
            cn = g.containing_stmt_node(cl, tdm)
            # the id must be the matched request's (clear after the unpack), and every normal path from the clear to the exit removes the request
            after_unpack = bool(unp) and g.dominates(g.node_of(unp[0]), cn)
            rn = {g.node_of(r) for r in removes}
            paired = bool(rn) and (any(g.dominates(r, cn) for r in rn) or not g.paths_avoiding(cn, g.exit, rn))
            chk.ob("C08.R7", "%s: clear_timeout(timeout_id) only where the matched request is removed" % f.name, after_unpack and paired, "",
                   key="%s | the request's timer is cleared on a path that leaves the request pending" % qn, where=tdm.line(cl),
                   message="a Task that is still waiting (e.g. a .waitForTaskToken Task after the worker's ordinary reply) must keep its timer: without it neither the Task's nor the "
                           "execution's TimeoutSeconds can ever fire")
        for cl in direct:
            n += 1
            cn = g.containing_stmt_node(cl, tdm)
            rn = {g.node_of(r) for r in removes}
            paired = bool(rn) and (any(g.dominates(r, cn) for r in rn) or not g.paths_avoiding(cn, g.exit, rn))
            chk.ob("C08.R7", "%s: clear_timeout(%s) only where the matched request is removed" % (f.name, norm(cl.args[0])), paired, "",
                   key="%s | the request's timer is cleared on a path that leaves the request pending" % qn, where=tdm.line(cl), message="a Task that is still waiting must keep its timer")
    chk.floor("C08.R7", n, 2, "clear_timeout sites in the completion handlers")


# ---------------------------------------------------------------------------------------------------------------------
# C11.R5: ListExecutions returns every matching record (both front ends)
def list_executions_exact(chk, ctx):
    for mn in ("rest_api", "rest_api_asyncio"):
        m = ctx.mod(mn)
        le = [f for q, f in m.funcs.items() if f.name == "aws_api_ListExecutions"][0]
        comps = [n for n in body_nodes(le) if isinstance(n, ast.ListComp)]
        ok = len(comps) == 1 and norm(comps[0].generators[0].iter) == "self.executions.items()"
        conds = []
        if ok:
            for c in comps[0].generators[0].ifs:
                conds += [norm(v) for v in (c.values if isinstance(c, ast.BoolOp) and isinstance(c.op, ast.And) else [c])]
        want = ["v['stateMachineArn'] == state_machine_arn", "status_filter == None or v['status'] == status_filter"]
        ok = ok and sorted(conds) == sorted(want)
        chk.ob("C11.R5", "%s ListExecutions enumerates the whole store with exactly the ARN and status filters" % mn, ok, str(conds),
               key="%s.aws_api_ListExecutions | selection %s" % (mn, conds), where=le.where(),
               message="the list view must show every execution the other views show: truncating, or matching by key prefix, makes ListExecutions disagree with DescribeExecution and the notifications")


# ---------------------------------------------------------------------------------------------------------------------
# C20.R8: an updated definition is assigned back into the store (the file store persists on __setitem__ only)
def update_writes_back(chk, ctx):
    for mn in ("rest_api", "rest_api_asyncio"):
        m = ctx.mod(mn)
        up = [f for q, f in m.funcs.items() if f.name == "aws_api_UpdateStateMachine"][0]
        wb = [s for s in body_nodes(up) if isinstance(s, ast.Assign) and norm(s.targets[0]) == "self.asl_store[state_machine_arn]"]
        ok = len(wb) == 1 and norm(wb[0].value) == "state_machine"
        if ok:
            g = CFG(up.node)
            rets = [r for r in body_nodes(up) if isinstance(r, ast.Return) and isinstance(r.value, ast.Tuple) and const(r.value.elts[-1]) == 200]
            ok = bool(rets) and all(g.dominates(g.node_of(wb[0]), g.node_of(r)) for r in rets)
        chk.ob("C20.R8", "%s UpdateStateMachine assigns the record back under its ARN before answering 200" % mn, ok, "", key="%s.aws_api_UpdateStateMachine | no write-back of the updated record" % mn, where=up.where(),
               message="JSONStore persists in __setitem__: updating the dictionary it returned changes memory only, so the new definition is gone after a restart")


# ---------------------------------------------------------------------------------------------------------------------
# C05.R8: check_pending_results acknowledges every held branch event and deletes the join state unless a terminated group still has
# slots outstanding - so it may only be called where the fan-out (or the execution) is really being torn down.  Instances confirmed by reading.
CPR_CALLERS = {
    "StateEngine.end_execution": ("execution_failed", "the execution has FAILED: nothing will be joined any more"),
    "StateEngine.branch_has_terminated": ("has_terminated", "this event belongs to a terminated fan-out"),
    "StateEngine.notify.handle_terminal_state": ("task_terminated", "a cancelled Task of a terminated fan-out reports back"),
    "StateEngine.notify.handle_error": ("state.get('Type') in ('Parallel', 'Map')", "the state being retried is the fan-out state itself, whose branches were terminated"),
    "StateEngine.check_for_expired_branch_results": ("branch_metadata.ended", "the execution has already FAILED and its deadline has passed: every group was marked terminated just before (fix f0dd037)"),
}


def tidy_up_callers(chk, ctx):
    se = ctx.mod("state_engine")
    n = 0
    for q, f in sorted(se.funcs.items()):
        for c in body_nodes(f):
            if not (isinstance(c, ast.Call) and callname(c) == "self.check_pending_results"):
                continue
            n += 1
            want = CPR_CALLERS.get(q)
            conj = []
            for i, arm in enclosing_ifs(se, c, f.node):
                if arm == "body":
                    t = i.test
                    conj += [norm(v) for v in (t.values if isinstance(t, ast.BoolOp) and isinstance(t.op, ast.And) else [t])]
            ok = want is not None and want[0] in conj
            chk.ob("C05.R8", "%s tears the join state down only under `%s`" % (q, want[0] if want else "?"), ok, "guards: %s" % conj,
                   key="%s | check_pending_results called without the guard `%s` (guards: %s)" % (q, want[0] if want else "- not a confirmed caller -", conj), where=se.line(c),
                   message="check_pending_results acknowledges the held events of every branch and deletes the join state when no group is terminated: called while sibling branches are "
                           "still running or already finished (e.g. for a Task retried inside a Map iteration) it discards their results and the join never completes")
    chk.floor("C05.R8", n, 4, "call sites of check_pending_results")


# ---------------------------------------------------------------------------------------------------------------------
# C05.R9: the marker of a slot whose result has not arrived must not be a value a branch can legitimately produce
def pending_marker_not_data(chk, ctx):
    se = ctx.mod("state_engine")
    p = ctx.protocol()
    join = p.join
    # the marker: "results": [<marker>] * length
    markers = set()
    for q, f in se.funcs.items():
        for n in body_nodes(f):
            if isinstance(n, ast.Dict):
                for k, v in zip(n.keys, n.values):
                    if const(k) == "results" and isinstance(v, ast.BinOp) and isinstance(v.op, ast.Mult) and isinstance(v.left, ast.List) and len(v.left.elts) == 1:
                        markers.add(norm(v.left.elts[0]))
    chk.floor("C05.R9", len(markers), 1, "initialisations of the join's results array")
    chk.ob("C05.R9", "one pending marker (%s)" % sorted(markers), len(markers) == 1, "", key="join results array | several pending markers %s" % sorted(markers), where=join.where(), message="")
    # what is stored: result[index] = <name>; can <name> be the marker?
    stores = [s for s in body_nodes(join) if isinstance(s, ast.Assign) and len(s.targets) == 1 and isinstance(s.targets[0], ast.Subscript) and norm(s.targets[0]) == "result[index]"]
    chk.floor("C05.R9", len(stores), 1, "stores of a branch output into its slot")
    for s in stores:
        v = s.value
        src = None
        if isinstance(v, ast.Name):
            ds = [d for d in name_defs(join, v.id) if isinstance(d, ast.Assign)] or [d for d in name_defs(p.notify, v.id) if isinstance(d, ast.Assign)]
            src = [norm(d.value) for d in ds]
        any_json = src is not None and any("event" in x and "data" in x for x in src)
        guarded = any(arm == "body" and ("%s is not None" % norm(v) in norm(i.test) or "%s != None" % norm(v) in norm(i.test)) for i, arm in enclosing_ifs(se, s, join.node))
        clash = "None" in markers and any_json and not guarded
        chk.ob("C05.R9", "the value stored in a slot (`%s` = %s) can never equal the pending marker" % (norm(v), src), not clash, "",
               key="%s | the pending marker None is also a legal branch output (JSON null stored by `%s`)" % (join.qname, norm(s)), where=se.line(s),
               message="a branch or iteration whose output is JSON null stores None in its slot, which every completeness test (`None in result`, `result[i] == None`) reads as "
                       "'not yet arrived': the join never completes and the execution stays RUNNING for ever")
