"""C14 - Choice rules compare by type and combine like Boolean logic (structural clauses)."""
import ast

from ..core import AnalysisError, dotted, callname, last, const, short, norm, prefix_dispatch_sites
from ..j2119 import Schema
from ..util import body_nodes, name_defs, in_try_with_handler, enclosing_ifs

EXPLANATION = (
    "Static analysis of the current /repo source. Decides: (R1) every comparison operator of the J2119 schema (39, with the "
    "Path suffix rule) and And/Or/Not has a handler behind the asl_choice_ prefix dispatch; (R2) for each handler the operator "
    "family named in its name selects the typed helper and comparison type (String->str, Numeric->numeric helper that excludes "
    "bool, Boolean->bool, Timestamp->helper that compares parsed instants only) and the suffix selects the relation (eq/lt/gt/le/"
    "ge), applied to (variable, value) in that order; (R3) the marker bound to the variable when the path is missing is not a "
    "JSON value and is always set together with the missing flag, and the Is* handlers consult the flag or use type tests the "
    "marker fails; (R4) after the effective input is computed every path evaluation in the Choice handler reads it; (R5) the "
    "StringMatches translation neutralises every fnmatch metacharacter except '*'; (R6) And/Or/Not are all/any/not over the "
    "recursive evaluation, operator calls are inside try/except Exception -> no match, rules are scanned in list order with "
    "first match, then Default, else States.NoChoiceMatched. Not decided: truth tables over all values."
    ' (R7) the type tests agree on a Variable that does not exist: every asl_choice_Is* operator other than IsPresent consults path_match_failed as IsBoolean does; reported on the current tree as D70 (four keys).')
RULE_TEXT = "obligation = one operator / handler / site; non-trivial = distinct (rule, site)"

REL = {"Equals": "eq", "LessThan": "lt", "GreaterThan": "gt", "LessThanEquals": "le", "GreaterThanEquals": "ge"}
FAM = {"String": ("next_if", "str"), "Boolean": ("next_if", "bool"), "Numeric": ("next_if_numeric", None), "Timestamp": ("next_if_timestamp", None)}


def _choose(ctx):
    p = ctx.protocol()
    ch = p.handlers.get("Choice")
    if ch is None:
        raise AnalysisError("anchor not found: asl_state_Choice")
    c = ch.children.get("choose")
    if c is None:
        raise AnalysisError("anchor not found: asl_state_Choice.choose")
    return ch, c


def r1(chk, ctx):
    sc = Schema(ctx.repo)
    ch, c = _choose(ctx)
    handlers = {n[len("asl_choice_"):]: f for n, f in c.children.items() if n.startswith("asl_choice_")}
    chk.floor("C14.R1", len(sc.operators), 39, "comparison operators in the J2119 schema")
    for op in sc.operators + ["And", "Or", "Not"]:
        base = op[:-4] if op.endswith("Path") else op
        chk.ob("C14.R1", "operator %s -> asl_choice_%s" % (op, base), base in handlers, "",
               key="operator %s has no handler asl_choice_%s" % (op, base), where=c.where(),
               message="a rule using this operator is accepted by the validator but silently never matches")
    # the dispatch site: key = "asl_choice_" + key, Path suffix sliced off with exactly 4 characters
    sites = [s for s in prefix_dispatch_sites(c.node)]
    chk.ob("C14.R1", "choose has one prefix dispatch", len(sites) == 1, "", key="%s | prefix dispatch sites: %d" % (c.qname, len(sites)), where=c.where(), message="")
    if sites:
        call, keyexpr, default = sites[0]
        kname = keyexpr.id if isinstance(keyexpr, ast.Name) else None
        defs = [d for d in name_defs(c, kname)] if kname else []
        pref = [d for d in defs if isinstance(d, ast.Assign) and isinstance(d.value, ast.BinOp) and const(d.value.left) == "asl_choice_"]
        chk.ob("C14.R1", "dispatch key is 'asl_choice_' + operator name", len(pref) == 1, "", key="%s | dispatch key prefix" % c.qname, where=c.where(call),
               message="the prefix confines the dispatch to the operator handlers")
        sl = [d for d in defs if isinstance(d, ast.Assign) and isinstance(d.value, ast.Subscript) and isinstance(d.value.slice, ast.Slice)]
        ok = len(sl) == 1 and norm(sl[0].value.slice) == ":-4"
        guard = False
        if sl:
            for i, arm in enclosing_ifs(c.module, sl[0], c.node):
                if arm == "body" and "endswith('Path')" in norm(i.test):
                    guard = True
        chk.ob("C14.R1", "Path suffix stripped by [:-4] under endswith('Path')", ok and guard, "", key="%s | Path suffix handling" % c.qname, where=c.where(call), message="")
    return handlers


def _single_return_call(f):
    body = [s for s in f.node.body if not (isinstance(s, ast.Expr) and isinstance(s.value, ast.Constant))]
    if len(body) == 1 and isinstance(body[0], ast.Return) and isinstance(body[0].value, ast.Call):
        return body[0].value
    return None


def r2(chk, ctx, handlers):
    ch, c = _choose(ctx)
    n = 0
    for name, f in sorted(handlers.items()):
        fam = next((k for k in FAM if name.startswith(k) or name.startswith("CaseInsensitive" + k)), None)
        if fam is None or name == "StringMatches":
            continue
        rel = name[name.index(fam) + len(fam):]
        if rel not in REL:
            continue
        n += 1
        call = _single_return_call(f)
        helper, typ = FAM[fam]
        ok = call is not None and callname(call) == helper
        detail = short(call) if call is not None else "no single return call"
        if ok:
            a = call.args
            ok = len(a) >= 3 and norm(a[1]) == "operator." + REL[rel]
            if name.startswith("CaseInsensitive"):
                ok = ok and norm(a[0]) == "variable.lower()" and norm(a[2]) == "value.lower()"
            else:
                ok = ok and norm(a[0]) == "variable" and norm(a[2]) == "value"
            if typ:
                ok = ok and len(a) == 4 and norm(a[3]) == typ
        chk.ob("C14.R2", "asl_choice_%s = %s(variable, operator.%s, value%s)" % (name, helper, REL[rel], ", " + typ if typ else ""), ok, detail,
               key="%s | operator/helper/type does not match the operator name" % f.qname, where=f.where(),
               message="the operator name promises family %s and relation %s" % (fam, rel))
    chk.floor("C14.R2", n, 16, "typed comparison handlers")
    # helpers
    ni = c.children.get("next_if")
    nn = c.children.get("next_if_numeric")
    nt = c.children.get("next_if_timestamp")
    isn = c.children.get("isnumber")
    for nm, f in (("next_if", ni), ("next_if_numeric", nn), ("next_if_timestamp", nt), ("isnumber", isn)):
        if f is None:
            raise AnalysisError("anchor not found: choose.%s" % nm)
    ifs = [x for x in body_nodes(ni) if isinstance(x, ast.If)]
    ok = len(ifs) == 1 and isinstance(ifs[0].test, ast.BoolOp) and isinstance(ifs[0].test.op, ast.And) and \
        {norm(v) for v in ifs[0].test.values} == {"isinstance(variable, comp_type)", "isinstance(value, comp_type)", "op(variable, value)"} and \
        norm(ifs[0].test.values[-1]) == "op(variable, value)"
    chk.ob("C14.R2", "next_if: both operands of the comparison type, then op(variable, value)", ok, "", key="%s | guard shape" % ni.qname, where=ni.where(),
           message="values of the wrong type must never match")
    ifs = [x for x in body_nodes(nn) if isinstance(x, ast.If)]
    ok = len(ifs) == 1 and isinstance(ifs[0].test, ast.BoolOp) and isinstance(ifs[0].test.op, ast.And) and \
        [norm(v) for v in ifs[0].test.values] == ["isnumber(variable)", "isnumber(value)", "op(variable, value)"]
    chk.ob("C14.R2", "next_if_numeric: isnumber on both operands, then op(variable, value)", ok, "", key="%s | guard shape" % nn.qname, where=nn.where(), message="")
    txt = " ".join(norm(s) for s in isn.node.body)
    chk.ob("C14.R2", "isnumber excludes bool", "not isinstance(x, bool)" in txt, "", key="%s | bool not excluded from numbers" % isn.qname, where=isn.where(),
           message="true/false are not numbers in JSON")
    # timestamp helper: every op(...) call compares values whose every reaching definition is parse_rfc3339_datetime(..).timestamp()
    ops = [x for x in body_nodes(nt) if isinstance(x, ast.Call) and isinstance(x.func, ast.Name) and x.func.id == "op"]
    chk.ob("C14.R2", "next_if_timestamp calls op", len(ops) >= 1, "", key="%s | no comparison" % nt.qname, where=nt.where(), message="")
    for o in ops:
        good = True
        for a in o.args:
            if not isinstance(a, ast.Name):
                good = False
                continue
            defs = name_defs(nt, a.id)
            # the parameter itself is also a definition unless every path to the call redefines it
            ok_defs = bool(defs) and all(isinstance(d, ast.Assign) and "parse_rfc3339_datetime(" in norm(d.value) and norm(d.value).endswith(".timestamp()") for d in defs)
            # the redefinition must not be conditional (else the raw string may reach the comparison)
            cond = any(enclosing_ifs(nt.module, d, nt.node) for d in defs)
            before = all(d.lineno < o.lineno for d in defs)
            opcond_defs = ok_defs and not cond and before
            good = good and opcond_defs
        chk.ob("C14.R2", "next_if_timestamp: %s compares parsed instants" % short(o, 40), good, "",
               key="%s | comparison on a value that is not a parsed instant" % nt.qname, where=nt.where(o),
               message="timestamps must be compared by instant, never as text")
    chk.ob("C14.R2", "next_if_timestamp argument order", all(norm(o) == "op(variable, value)" for o in ops), "", key="%s | operand order" % nt.qname, where=nt.where(), message="")


def r3(chk, ctx, handlers):
    ch, c = _choose(ctx)
    m = c.module
    defs = name_defs(c, "variable")
    flag_defs = name_defs(c, "path_match_failed")
    marker = None
    for d in defs:
        if not isinstance(d, ast.Assign):
            chk.ob("C14.R3", "definition of variable: %s" % short(d, 50), False, "", key="%s | variable bound by a non-assignment" % c.qname, where=c.where(d), message="")
            continue
        v = d.value
        names = set()
        for t in d.targets:
            names |= {x.id for x in ast.walk(t) if isinstance(x, ast.Name)}
        if isinstance(v, ast.Call) and last(callname(v)) == "apply_path":
            te = [k for k in v.keywords if k.arg == "throw_exception_on_failed_match"]
            ok = (not te) or (isinstance(te[0].value, ast.Constant) and te[0].value.value is True)
            chk.ob("C14.R3", "variable = apply_path(...) raises on a missing path", ok, "", key="%s | variable lookup does not raise on failed match" % c.qname,
                   where=c.where(d), message="a missing Variable must be distinguishable from every JSON value")
            ok = in_try_with_handler(m, d, c.node, ("PathMatchFailure",))
            chk.ob("C14.R3", "lookup is inside try/except PathMatchFailure", ok, "", key="%s | variable lookup outside the PathMatchFailure handler" % c.qname, where=c.where(d), message="")
            continue
        if {"variable", "path_match_failed"} <= names:
            continue   # joint binding carries the flag with the value
        # otherwise it must be the marker, set together with the flag
        par = m.parent(d)
        sib = par.body if isinstance(par, ast.ExceptHandler) else getattr(par, "body", [])
        together = any(isinstance(s, ast.Assign) and any(isinstance(t, ast.Name) and t.id == "path_match_failed" for t in s.targets)
                       and isinstance(s.value, ast.Constant) and s.value.value is True for s in sib)
        chk.ob("C14.R3", "non-lookup binding of variable sets the missing flag with it: %s" % short(d, 50), together and isinstance(par, ast.ExceptHandler), "",
               key="%s | variable bound without the missing flag: %s" % (c.qname, norm(d)), where=c.where(d),
               message="every later reference must still know that the Variable is missing")
        if isinstance(par, ast.ExceptHandler):
            marker = v
    chk.ob("C14.R3", "missing-path arm binds a marker", marker is not None, "", key="%s | no marker for a missing Variable" % c.qname, where=c.where(), message="")
    if marker is not None:
        is_json = isinstance(marker, ast.Constant) and (marker.value is None or isinstance(marker.value, (bool, int, float, str)))
        if isinstance(marker, ast.Name):
            md = name_defs(c, marker.id)
            is_json = not (len(md) == 1 and isinstance(md[0], ast.Assign) and norm(md[0].value) == "object()")
        chk.ob("C14.R3", "the marker is not a JSON value", not is_json, norm(marker),
               key="%s | missing-Variable marker `%s` is a JSON value" % (c.qname, norm(marker)), where=c.where(),
               message="a comparison whose type includes the marker (e.g. BooleanEquals: false for the marker False) matches a missing Variable")
    # flag defaults to False once, True only in the handler arm
    consts = [norm(d.value) for d in flag_defs if isinstance(d, ast.Assign)]
    chk.ob("C14.R3", "missing flag: initialised False, set True in the handler arm only", sorted(consts) == ["False", "True"], str(consts),
           key="%s | missing flag assignments %s" % (c.qname, sorted(consts)), where=c.where(), message="")
    # Is* handlers
    want = {"IsPresent": "path_match_failed", "IsBoolean": "path_match_failed"}
    for nm, needle in want.items():
        f = handlers.get(nm)
        if f is None:
            continue
        chk.ob("C14.R3", "asl_choice_%s consults the missing flag" % nm, needle in {x.id for x in ast.walk(f.node) if isinstance(x, ast.Name)}, "",
               key="%s | does not consult the missing flag" % f.qname, where=f.where(), message="")
    typed = {"IsNull": "variable is None", "IsString": "isinstance(variable, str)", "IsNumeric": "isnumber(variable)", "IsBoolean": "isinstance(variable, bool)"}
    for nm, needle in typed.items():
        f = handlers.get(nm)
        if f is None:
            continue
        txt = " ".join(norm(s) for s in f.node.body)
        chk.ob("C14.R3", "asl_choice_%s tests `%s` == value" % (nm, needle), needle in txt and "== value" in txt, "", key="%s | type fact test" % f.qname, where=f.where(), message="")


def r4(chk, ctx):
    ch, c = _choose(ctx)
    # effective input
    eff = [d for d in name_defs(ch, "input") if isinstance(d, ast.Assign) and last(callname(d.value)) == "apply_path" and "InputPath" in norm(d.value)]
    chk.ob("C14.R4", "Choice computes its effective input from InputPath", len(eff) == 1, "", key="%s | effective input" % ch.qname, where=ch.where(), message="")
    n = 0
    for f in [c, ch]:
        for x in body_nodes(f):
            if isinstance(x, ast.Call) and last(callname(x)) == "apply_path" and x.args:
                if f is ch and eff and x is eff[0].value:
                    continue
                n += 1
                ok = norm(x.args[0]) == "input"
                chk.ob("C14.R4", "%s reads the effective input" % short(x, 60), ok, "",
                       key="%s | path evaluated against `%s` instead of the effective input" % (f.qname, norm(x.args[0])), where=f.where(x),
                       message="after InputPath every Variable and *Path comparand refers to the effective input")
    chk.floor("C14.R4", n, 3, "path evaluations in the Choice handler")


def r5(chk, ctx, handlers):
    f = handlers.get("StringMatches")
    if f is None:
        raise AnalysisError("anchor not found: asl_choice_StringMatches")
    fm = [x for x in body_nodes(f) if isinstance(x, ast.Call) and callname(x) in ("fnmatch.fnmatch", "fnmatch.fnmatchcase")]
    chk.ob("C14.R5", "StringMatches uses fnmatch", len(fm) == 1, "", key="%s | matcher" % f.qname, where=f.where(), message="")
    if not fm:
        return
    pat = fm[0].args[1] if len(fm[0].args) > 1 else None
    # collect the replace chain applied to the pattern
    reps = []
    for d in name_defs(f, pat.id if isinstance(pat, ast.Name) else "value"):
        v = getattr(d, "value", None)
        while isinstance(v, ast.Call) and isinstance(v.func, ast.Attribute) and v.func.attr == "replace":
            reps.append((const(v.args[0]), const(v.args[1])))
            v = v.func.value
    reps.reverse()
    src = [a for a, b in reps]
    for meta in ("[", "?"):
        ok = meta in src and dict(reps).get(meta) == "[" + meta + "]"
        chk.ob("C14.R5", "fnmatch metacharacter %r is neutralised" % meta, ok, str(reps),
               key="%s | fnmatch metacharacter %s not neutralised" % (f.qname, meta), where=f.where(),
               message="StringMatches has '*' as its only wildcard; %r would be interpreted by fnmatch" % meta)
    ok = "\\*" in src and dict(reps).get("\\*") == "[*]"
    chk.ob("C14.R5", "escaped star \\* maps to a literal star", ok, str(reps), key="%s | backslash escape of *" % f.qname, where=f.where(), message="")
    if "[" in src:
        chk.ob("C14.R5", "'[' is neutralised before brackets are introduced", src.index("[") == 0, str(src), key="%s | order of replacements" % f.qname, where=f.where(),
               message="replacing '[' after another replacement has introduced brackets corrupts the pattern")
    chk.ob("C14.R5", "case-sensitive matcher on (variable, pattern)", norm(fm[0].args[0]) == "variable", "", key="%s | matcher operands" % f.qname, where=f.where(), message="")


def r6(chk, ctx, handlers):
    ch, c = _choose(ctx)
    for nm, fn in (("And", "all"), ("Or", "any")):
        f = handlers.get(nm)
        if f is None:
            continue
        ok = False
        ifs = [x for x in body_nodes(f) if isinstance(x, ast.If)]
        if len(ifs) == 1 and isinstance(ifs[0].test, ast.Call) and isinstance(ifs[0].test.func, ast.Name) and ifs[0].test.func.id == fn and ifs[0].test.args:
            g = ifs[0].test.args[0]
            if isinstance(g, (ast.GeneratorExp, ast.ListComp)) and len(g.generators) == 1 and not g.generators[0].ifs:
                gen = g.generators[0]
                ok = (norm(gen.iter) == "value" and isinstance(g.elt, ast.Call) and callname(g.elt) == "choose"
                      and len(g.elt.args) == 1 and norm(g.elt.args[0]) == norm(gen.target)
                      and len(ifs[0].body) == 1 and norm(ifs[0].body[0]) == "return next" and not ifs[0].orelse)
        chk.ob("C14.R6", "asl_choice_%s is %s(choose(r) for r in value)" % (nm, fn), ok, "", key="%s | combinator shape" % f.qname, where=f.where(),
               message="%s must be the Boolean %s of its nested rules" % (nm, "conjunction" if nm == "And" else "disjunction"))
    f = handlers.get("Not")
    if f is not None:
        ifs = [x for x in body_nodes(f) if isinstance(x, ast.If)]
        ok = (len(ifs) == 1 and isinstance(ifs[0].test, ast.UnaryOp) and isinstance(ifs[0].test.op, ast.Not) and norm(ifs[0].test.operand) == "choose(value)"
              and len(ifs[0].body) == 1 and norm(ifs[0].body[0]) == "return next" and not ifs[0].orelse)
        chk.ob("C14.R6", "asl_choice_Not is not choose(value)", ok, "", key="%s | combinator shape" % f.qname, where=f.where(), message="Not must be Boolean negation")
    sites = prefix_dispatch_sites(c.node)
    if sites:
        call = sites[0][0]
        chk.ob("C14.R6", "operator call inside try/except Exception", in_try_with_handler(c.module, call, c.node, ("Exception",)), "",
               key="%s | operator dispatch outside try/except Exception" % c.qname, where=c.where(call), message="a failing comparison is 'no match', not an error")
        # default handler is a no-match lambda
        d = sites[0][2]
        chk.ob("C14.R6", "unknown keys dispatch to a no-match default", isinstance(d, ast.Lambda) and isinstance(d.body, ast.Constant) and d.body.value is None, "",
               key="%s | dispatch default" % c.qname, where=c.where(call), message="")
    # rule order in the Choice handler
    loops = [x for x in body_nodes(ch) if isinstance(x, ast.For) and norm(x.iter) == "choices"]
    ok = len(loops) == 1
    chk.ob("C14.R6", "rules are scanned by a plain loop over Choices", ok, "", key="%s | rule scan loop" % ch.qname, where=ch.where(), message="")
    if ok:
        lp = loops[0]
        txt = [norm(s) for s in lp.body]
        ok = len(lp.body) == 2 and txt[0] == "next_state = choose(choice)" and isinstance(lp.body[1], ast.If) and norm(lp.body[1].test) == "next_state" and isinstance(lp.body[1].body[0], ast.Break)
        chk.ob("C14.R6", "first match wins (break on the first truthy result)", ok, str(txt)[:120], key="%s | first-match loop body" % ch.qname, where=ch.where(lp), message="")
    cd = [d for d in name_defs(ch, "choices") if isinstance(d, ast.Assign)]
    ok = len(cd) == 1 and norm(cd[0].value).startswith("state.get('Choices'")
    chk.ob("C14.R6", "Choices taken in array order from the state", ok, "", key="%s | Choices source" % ch.qname, where=ch.where(), message="no sort/reverse/filter")
    txt = " ".join(norm(s) for s in ch.node.body)
    chk.ob("C14.R6", "Default fallback", "next_state = next_state if next_state else state.get('Default')" in txt, "", key="%s | Default fallback" % ch.qname, where=ch.where(), message="")
    chk.ob("C14.R6", "NoChoiceMatched when nothing matches", "'States.NoChoiceMatched'" in txt, "", key="%s | NoChoiceMatched" % ch.qname, where=ch.where(), message="")


def run(chk, ctx):
    from . import round5
    round5.type_tests_agree_on_missing_variable(chk, ctx)
    from . import generic
    generic.definite_assignment(chk, ctx, ['state_engine'], "C14.DA")   # no local is read before it is bound (UnboundLocalError = an arbitrary exception)
    from . import c08
    c08.r1(chk, ctx)          # 'timestamps by instant': every Timestamp* operator goes through this parser
    handlers = r1(chk, ctx)
    r2(chk, ctx, handlers)
    r3(chk, ctx, handlers)
    r4(chk, ctx)
    r5(chk, ctx, handlers)
    r6(chk, ctx, handlers)
    from . import c12
    c12.r2(chk, ctx, ctx.mod('state_engine_paths'))          # Variable lookup: a missing Variable is missing whatever the (falsy) input
    chk.assume("operator.eq/lt/gt/le/ge and fnmatch behave as documented")
