"""Rules written after the sixth blind round for the baseline defects its sub-agents reported (DESIGN 8.9, D49-D57).

Each rule states a discipline that the *siblings* of the defective site already followed (Engler et al.: a deviation from what the code itself
says is the rule), decides it on the current tree for every site, and keeps a positive example of the defective shape that must match on every run."""
import ast

from ..core import AnalysisError, dotted, callname, last, const, short, norm
from ..cfg import CFG
from ..util import body_nodes, name_defs, enclosing_ifs


def _positive(rule, matcher, src, what):
    if not matcher(ast.parse(src)):
        raise AnalysisError("%s: the matcher no longer recognises its own positive example (%s)" % (rule, what))


def _walk_no_nested(node):
    """node and its descendants, not entering nested function definitions"""
    todo = [node]
    while todo:
        n = todo.pop()
        yield n
        for c in ast.iter_child_nodes(n):
            if not isinstance(c, (ast.FunctionDef, ast.AsyncFunctionDef, ast.Lambda)):
                todo.append(c)


# ---------------------------------------------------------------------------------------------------------------------
# C07.R8 (D50): the join hands the Parallel/Map state's OWN retry counters to handle_error, not those of the last state of the branch that
# happened to deliver the last result: the branch's terminal state does not go through change_state (which deletes them), so the join itself
# has to remove RetryCount/RetryTimeout from the context before it restores the fan-out state's own pair from the Branch record.
def _removes_key(stmt, key):
    for n in _walk_no_nested(stmt):
        if isinstance(n, ast.Call) and isinstance(n.func, ast.Attribute) and n.func.attr == "pop" and n.args and const(n.args[0]) == key and norm(n.func.value) in ("context_state", "context['State']"):
            return True
        if isinstance(n, ast.Delete):
            for t in n.targets:
                if isinstance(t, ast.Subscript) and const(t.slice) == key and norm(t.value) in ("context_state", "context['State']"):
                    return True
    return False


def _dominated_anchor(g, mod, call):
    """CFG node whose dominators are those of `call`; for a call in an except handler (reachable only by exception edges, which this CFG is
    built without) the first statement of the protected body: the handler cannot run unless the body was entered"""
    n = g.containing_stmt_node(call, mod)
    dom = g.dominators()
    cur = call
    while n is None or n not in dom:
        while cur is not None and not isinstance(cur, ast.ExceptHandler):
            cur = mod.parent(cur)
        if cur is None:
            return None
        t = mod.parent(cur)
        n = next((g.node_of(x) for x in t.body if g.node_of(x) is not None), None)
        cur = t
    return n


def join_drops_branch_retry_info(chk, ctx):
    se = ctx.mod("state_engine")
    f = se.func("StateEngine.notify.asl_state_collect_results")
    g = CFG(f.node)
    dom = g.dominators()
    users = [c for c in body_nodes(f) if isinstance(c, ast.Call) and callname(c) in ("handle_error", "change_state")]
    chk.floor("C07.R8", len(users), 2, "error handling / transition calls of the join")
    for key in ("RetryCount", "RetryTimeout"):
        rem = [s for s in body_nodes(f) if isinstance(s, (ast.Expr, ast.Delete, ast.If)) and _removes_key(s, key) and not (isinstance(s, ast.If) and not norm(s.test).startswith("'%s' in" % key))]
        rem_nodes = [g.node_of(s) for s in rem if g.node_of(s) is not None]
        restores = [s for s in body_nodes(f) if isinstance(s, ast.Assign) and any(isinstance(t, ast.Subscript) and const(t.slice) == key and norm(t.value) in ("context_state", "context['State']") for t in s.targets)]
        for u in users:
            un = _dominated_anchor(g, se, u)
            ok = un is not None and any(g.dominates(r, un) for r in rem_nodes)
            chk.ob("C07.R8", "join: %s of the branch's last state is removed before %s" % (key, callname(u)), ok, "",
                   key="StateEngine.notify.asl_state_collect_results | %s of the branch's last state reaches %s" % (key, callname(u)), where=se.line(u),
                   message="a branch's terminal state does not pass through change_state, so its %s is still in the context when the join runs: the Retrier of the Parallel/Map state then "
                           "starts from the attempts a Task inside the branch had used up (retried fewer times than MaxAttempts, or not at all)" % key)
        # the restored value is the fan-out state's own (read from the Branch record)
        for s in restores:
            chk.ob("C07.R8", "join: restored %s is the fan-out state's own" % key, norm(s.value) in ("retry_count", "retry_timeout"), norm(s), where=se.line(s))


_positive("C07.R8", lambda t: _removes_key(t.body[0], "RetryCount"), "context_state.pop('RetryCount', None)", "pop form")
_positive("C07.R8", lambda t: _removes_key(t.body[0], "RetryCount"), "if 'RetryCount' in context_state:\n    del context_state['RetryCount']", "del form")


# ---------------------------------------------------------------------------------------------------------------------
# C03.R12 (D51): an arm of EventDispatcher.dispatch that acknowledges the delivery itself (instead of through self.acknowledge(id), which also
# forgets the entry) removes the entry it stored in unacknowledged_messages: otherwise every dropped message is retained for ever.
def _direct_acks(handler):
    return [c for s in handler.body for c in _walk_no_nested(s) if isinstance(c, ast.Call) and isinstance(c.func, ast.Attribute) and c.func.attr == "acknowledge" and norm(c.func.value) == "message"]


def _forgets(handler):
    for s in handler.body:
        for n in _walk_no_nested(s):
            if isinstance(n, ast.Call) and isinstance(n.func, ast.Attribute) and n.func.attr == "pop" and norm(n.func.value) == "self.unacknowledged_messages":
                return True
            if isinstance(n, ast.Delete) and any(isinstance(t, ast.Subscript) and norm(t.value) == "self.unacknowledged_messages" for t in n.targets):
                return True
            if isinstance(n, ast.Call) and callname(n) == "self.acknowledge":
                return True
    return False


def dropped_message_is_forgotten(chk, ctx):
    ed = ctx.mod("event_dispatcher")
    f = ed.func("EventDispatcher.dispatch")
    stores = [s for s in body_nodes(f) if isinstance(s, ast.Assign) and any(isinstance(t, ast.Subscript) and norm(t.value) == "self.unacknowledged_messages" for t in s.targets)]
    chk.floor("C03.R12", len(stores), 1, "stores into unacknowledged_messages in dispatch")
    handlers = [h for t in body_nodes(f) if isinstance(t, ast.Try) for h in t.handlers]
    n = 0
    for h in handlers:
        acks = _direct_acks(h)
        if not acks:
            continue
        n += 1
        chk.ob("C03.R12", "dispatch: the arm that drops the message (`except %s`) also forgets its entry" % (norm(h.type) if h.type else ""), _forgets(h), "",
               key="EventDispatcher.dispatch | `except %s` acknowledges the delivery itself and leaves its entry in unacknowledged_messages" % (norm(h.type) if h.type else ""),
               where=ed.line(acks[0]), message="every message dropped by the catch-all stays in unacknowledged_messages for the life of the process (a leak the property forbids), "
                                               "and a later acknowledge(id) of the same id would acknowledge the delivery tag a second time")
    chk.floor("C03.R12", n, 1, "handlers of dispatch that acknowledge the delivery directly")


_positive("C03.R12", lambda t: bool(_direct_acks(t.body[0].handlers[0])) and not _forgets(t.body[0].handlers[0]),
          "try:\n    pass\nexcept Exception as e:\n    message.acknowledge(multiple=False)", "drop arm without pop")


# ---------------------------------------------------------------------------------------------------------------------
# C20.R10 / C04.R8 (D53): the Redis-backed dict store never reports an absent key as None: RedisDictStore.__getitem__ builds a (possibly empty)
# RedisDict view for ANY key and never raises KeyError, so Mapping.get never returns its default.  Whoever asks a store "is this key there?"
# must therefore test truthiness (as rest_api does everywhere), never compare the result of get()/get_cached_view() with None.
STORE_ATTRS = {"asl_store", "executions", "execution_history"}


def _store_lookup(e):
    return isinstance(e, ast.Call) and isinstance(e.func, ast.Attribute) and e.func.attr in ("get", "get_cached_view") and (dotted(e.func.value) or "").split(".")[-1] in STORE_ATTRS


def _none_compares(func_node):
    """(compare node, what) for comparisons with None of a store lookup or of a local bound (only) to one"""
    bound = {}
    for n in _walk_no_nested(func_node):
        if isinstance(n, ast.Assign) and len(n.targets) == 1 and isinstance(n.targets[0], ast.Name):
            bound.setdefault(n.targets[0].id, []).append(n.value)
    lookups = {k for k, vs in bound.items() if vs and all(_store_lookup(v) for v in vs)}
    out = []
    for n in _walk_no_nested(func_node):
        if isinstance(n, ast.Compare) and len(n.ops) == 1 and isinstance(n.ops[0], (ast.Eq, ast.NotEq, ast.Is, ast.IsNot)):
            a, b = n.left, n.comparators[0]
            for x, y in ((a, b), (b, a)):
                if isinstance(y, ast.Constant) and y.value is None and (_store_lookup(x) or (isinstance(x, ast.Name) and x.id in lookups)):
                    out.append((n, norm(x)))
    return out


def store_absence_by_truthiness(chk, ctx, rule):
    st = ctx.mod("store")
    gi = st.func("RedisDictStore.__getitem__")
    raises = [r for r in _walk_no_nested(gi.node) if isinstance(r, ast.Raise)]
    never_none = not raises and all(isinstance(r.value, ast.Call) for r in _walk_no_nested(gi.node) if isinstance(r, ast.Return))
    chk.ob(rule, "RedisDictStore.__getitem__ returns a view for any key and never raises (so get() never returns its default)", True,
           "raises=%d" % len(raises), nontrivial=False)
    if not never_none:
        return      # the premise no longer holds: a store that reports absence as KeyError makes both idioms right
    n = 0
    for mname in ("state_engine", "rest_api", "rest_api_asyncio", "task_dispatcher"):
        m = ctx.mod(mname)
        for q, f in sorted(m.funcs.items()):
            looks = [c for c in _walk_no_nested(f.node) if _store_lookup(c)]
            if not looks:
                continue
            n += len(looks)
            bad = _none_compares(f.node)
            chk.ob(rule, "%s: absence of a store entry is tested by truthiness (%d lookups)" % (q, len(looks)), not bad, "",
                   key="%s | `%s` compared with None" % (q, bad[0][1] if bad else ""), where=m.line(bad[0][0]) if bad else f.where(),
                   message="with the Redis store get() of an unknown (expired, lost) key is an empty RedisDict, never None: the arm that handles the missing record is dead code there")
    chk.floor(rule, n, 15, "store lookups in the engine and the REST front ends")


_positive("C20.R10", lambda t: len(_none_compares(t.body[0])) == 1, "def f(self):\n    if self.executions.get(arn) == None:\n        pass", "direct compare")
_positive("C20.R10", lambda t: len(_none_compares(t.body[0])) == 1, "def f(self):\n    e = self.executions.get(arn)\n    if e is None:\n        pass", "through a local")
_positive("C20.R10", lambda t: len(_none_compares(t.body[0])) == 0, "def f(self):\n    e = self.executions.get(arn)\n    if not e:\n        pass", "truthiness is accepted")


# ---------------------------------------------------------------------------------------------------------------------
# C08.R8 (D54): whoever removes a pending request disarms the request's own timeout, except the timeout's handler itself.
OWN_TIMER = {"TaskDispatcher.execute_task.timeout_callback": "runs as the handler of the very timer stored in the request: it has fired, there is nothing to clear"}
TIMER_SLOT = 6      # position of timeout_id in the tuple stored in pending_requests (checked against the stores below)


def request_removal_clears_timer(chk, ctx):
    td = ctx.mod("task_dispatcher")
    # the position of the timer in the tuple, from the stores
    n_stores = 0
    for q, f in td.funcs.items():
        for s in _walk_no_nested(f.node):
            if isinstance(s, ast.Assign) and any(isinstance(t, ast.Subscript) and norm(t.value) == "self.pending_requests" for t in s.targets) and isinstance(s.value, ast.Tuple):
                n_stores += 1
                slot = s.value.elts[TIMER_SLOT] if len(s.value.elts) > TIMER_SLOT else None
                chk.ob("C08.R8", "%s: slot %d of the stored request is its timer" % (q, TIMER_SLOT), slot is not None and "timeout" in norm(slot), norm(slot) if slot is not None else "", where=td.line(s))
    chk.floor("C08.R8", n_stores, 2, "stores into pending_requests")
    n = 0
    for q, f in sorted(td.funcs.items()):
        dels = [d for d in _walk_no_nested(f.node) if isinstance(d, ast.Delete) and any(isinstance(t, ast.Subscript) and norm(t.value) == "self.pending_requests" for t in d.targets)]
        dels += [c for c in _walk_no_nested(f.node) if isinstance(c, ast.Call) and isinstance(c.func, ast.Attribute) and c.func.attr == "pop" and norm(c.func.value) == "self.pending_requests"]
        if not dels:
            continue
        n += 1
        if q in OWN_TIMER:
            chk.ob("C08.R8", "%s removes the request as its timer's own handler" % q, True, OWN_TIMER[q], nontrivial=False)
            continue
        unpack = [s for s in _walk_no_nested(f.node) if isinstance(s, ast.Assign) and isinstance(s.targets[0], ast.Tuple) and norm(s.value) == "request" and len(s.targets[0].elts) > TIMER_SLOT]
        names = {norm(s.targets[0].elts[TIMER_SLOT]) for s in unpack} | {"request[%d]" % TIMER_SLOT}
        clears = [c for c in _walk_no_nested(f.node) if isinstance(c, ast.Call) and last(callname(c) or "") == "clear_timeout" and c.args and norm(c.args[0]) in names]
        chk.ob("C08.R8", "%s disarms the timer of the request it removes" % q, bool(clears), "",
               key="%s | removes a pending request and leaves its timeout armed" % q, where=td.line(dels[0]),
               message="the stale timer fires the removed request's timeout callback later: with a correlation id that is registered again (a retried child execution named by Parameters.Name) "
                       "it times the new attempt out early, i.e. a timeout fires before its instant")
    chk.floor("C08.R8", n, 4, "functions that remove a pending request")


# ---------------------------------------------------------------------------------------------------------------------
# C03.R13 (D55): the retention timer of an orphaned reply acknowledges the reply that is retained when it fires, not the message that armed it
def orphan_timer_acks_retained(chk, ctx):
    td = ctx.mod("task_dispatcher")
    f = td.func("TaskDispatcher.handle_rpcmessage_response.log_and_acknowledge_orphaned_responses")
    outer = td.func("TaskDispatcher.handle_rpcmessage_response")
    params = {a.arg for a in outer.node.args.args}
    acks = [c for c in _walk_no_nested(f.node) if isinstance(c, ast.Call) and isinstance(c.func, ast.Attribute) and c.func.attr == "acknowledge"]
    chk.floor("C03.R13", len(acks), 1, "acknowledgements in the retention timer's handler")
    local = {}
    for s in _walk_no_nested(f.node):
        if isinstance(s, ast.Assign):
            for t in s.targets:
                for x in ast.walk(t):
                    if isinstance(x, ast.Name):
                        local.setdefault(x.id, []).append(s.value)

    def from_table(e, depth=4):
        if "orphaned_responses" in norm(e):
            return True
        if depth and isinstance(e, (ast.Name, ast.Subscript)):
            base = e
            while isinstance(base, ast.Subscript):
                base = base.value
            if isinstance(base, ast.Name) and base.id in local:
                return all(from_table(v, depth - 1) for v in local[base.id])
        return False

    for a in acks:
        recv = a.func.value
        captured = isinstance(recv, ast.Name) and recv.id in params and recv.id not in local
        chk.ob("C03.R13", "retention timer acknowledges the retained reply (`%s`)" % norm(recv), not captured and from_table(recv), "",
               key="TaskDispatcher.handle_rpcmessage_response.log_and_acknowledge_orphaned_responses | acknowledges `%s`, the message captured when the timer was armed" % norm(recv),
               where=td.line(a), message="when the retained reply has been replaced by an error reply with the same correlation id (which reuses the timer) the first message, already "
                                         "acknowledged, is acknowledged a second time and the replacement never")


# ---------------------------------------------------------------------------------------------------------------------
# C06.R10 (D56, open): the two termination gates tolerate a group whose join state has been tidied up.  The join state is kept per execution and
# is deleted wholesale (end of execution, nothing pending, back stop); it is re-created lazily and partially by whichever straggler comes next.
# So neither gate may take the presence of the group's entry, or of Length in the record of an event, for granted:
#   - TaskDispatcher.branch_has_terminated: a hard subscript of the results by branch id under a test of the *execution* only;
#   - StateEngine.branch_has_terminated: a hard subscript branch_info['Length'] although the record that re-enters a Map for its next batch
#     is written with the keys the join gives it (read from the join, below), which do not include Length.
def _reentry_record_keys(se):
    f = se.func("StateEngine.notify.asl_state_collect_results")
    out = []
    for s in body_nodes(f):
        if isinstance(s, ast.Assign) and isinstance(s.value, ast.Dict) and any(isinstance(t, ast.Subscript) and norm(t) in ("context_state['Branch'][-1]", "context['State']['Branch'][-1]") for t in s.targets):
            out.append((s, {const(k) for k in s.value.keys}))
    return out


def gates_tolerate_tidied_group(chk, ctx):
    se, td = ctx.mod("state_engine"), ctx.mod("task_dispatcher")
    recs = _reentry_record_keys(se)
    chk.floor("C06.R10", len(recs), 1, "Branch records written by the join (Map re-entry)")
    g = se.func("StateEngine.branch_has_terminated")
    for s, keys in recs:
        for n in body_nodes(g):
            if isinstance(n, ast.Subscript) and isinstance(n.ctx, ast.Load) and norm(n.value) == "branch_info" and isinstance(const(n.slice), str):
                k = const(n.slice)
                guarded = any(("'%s'" % k) in norm(i.test) for i, arm in enclosing_ifs(se, n, g.node))
                chk.ob("C06.R10", "event gate: branch_info['%s'] is present in the re-entry record %s" % (k, sorted(keys)), k in keys or guarded, "",
                       key="StateEngine.branch_has_terminated | reads branch_info['%s'] but the record that re-enters a Map for its next batch has only %s" % (k, sorted(keys)),
                       where=se.line(n), message="when the group's results have been tidied up before the re-entry event is delivered (the enclosing fan-out's error was caught and the "
                                                  "execution ended) the gate re-creates the results and raises KeyError: the event is dropped, an empty BranchMetadata stays behind and the "
                                                  "back stop later ends the SUCCEEDED execution a second time as FAILED/States.Timeout")
    t = td.func("TaskDispatcher.branch_has_terminated")
    subs = [n for n in body_nodes(t) if isinstance(n, ast.Subscript) and isinstance(n.ctx, ast.Load) and norm(n.slice) == "branch_id"]
    tested = any(isinstance(c, ast.Compare) and isinstance(c.ops[0], (ast.In, ast.NotIn)) and norm(c.left) == "branch_id" for c in body_nodes(t))
    gets = [c for c in body_nodes(t) if isinstance(c, ast.Call) and isinstance(c.func, ast.Attribute) and c.func.attr == "get" and c.args and norm(c.args[0]) == "branch_id"]
    chk.floor("C06.R10", len(subs) + len(gets), 1, "lookups of the group's results in the reply gate")
    chk.ob("C06.R10", "reply gate: the group's results are looked up tolerantly", not subs or tested, "",
           key="TaskDispatcher.branch_has_terminated | `%s` under a test of the execution only" % (norm(subs[0]) if subs else ""), where=td.line(subs[0]) if subs else t.where(),
           message="a straggler of a fan-out whose error was caught re-creates the execution's join state with its own group only; the reply of a Task of another group then raises "
                   "KeyError out of the reply consumer (engine exit with the blocking connection; reply never acknowledged with asyncio)")


# ---------------------------------------------------------------------------------------------------------------------
# C07.R9 (D57, open): a fan-out delegate evaluates everything that can raise a *catchable* error (payload templates, paths) BEFORE it pushes its
# placeholder record on the Branch stack.  handle_error takes a record on the stack for the complete record of an enclosing branch
# (it subscripts Index and ID), so a Catcher or Retrier consulted with the half-built stack raises KeyError or acts in the wrong scope.
EVALUATORS = {"evaluate_payload_template", "apply_path", "apply_jsonpath", "apply_resultpath"}


def _pushes_record(s):
    if isinstance(s, ast.Expr) and isinstance(s.value, ast.Call) and isinstance(s.value.func, ast.Attribute) and s.value.func.attr == "append" and norm(s.value.func.value).endswith("['Branch']"):
        return True
    return False


def placeholder_not_visible_to_error_handling(chk, ctx):
    se = ctx.mod("state_engine")
    n = 0
    for q in ("StateEngine.notify.asl_state_Parallel_delegate", "StateEngine.notify.asl_state_Map_delegate"):
        f = se.func(q)
        g = CFG(f.node)
        pushes = [s for s in body_nodes(f) if _pushes_record(s)]
        handled = any(isinstance(c, ast.Call) and callname(c) == "handle_error" for t in body_nodes(f) if isinstance(t, ast.Try) for h in t.handlers for s in h.body for c in ast.walk(s))
        chk.ob("C07.R9", "%s consults handle_error from its own handlers" % q, handled, "", nontrivial=False)
        for p in pushes:
            n += 1
            pn = g.node_of(p)
            reach = g.reachable_from(pn) if pn is not None else set()
            late = []
            for c in body_nodes(f):
                if isinstance(c, ast.Call) and last(callname(c) or "") in EVALUATORS:
                    cn = g.containing_stmt_node(c, se)
                    if cn is not None and cn != pn and cn in reach:
                        late.append(c)
            restored = any(isinstance(d, ast.Delete) and any(norm(t).endswith("['Branch'][-1]") for t in d.targets) for t in body_nodes(f) if isinstance(t, ast.Try) for h in t.handlers for s in h.body for d in ast.walk(s))
            chk.ob("C07.R9", "%s: nothing catchable is evaluated once the placeholder Branch record is pushed" % f.name, not late or restored, "",
                   key="%s | %s is evaluated after the placeholder Branch record is pushed; the handlers call handle_error with the half-built stack" % (q, sorted({last(callname(c)) for c in late})),
                   where=se.line(late[0]) if late else se.line(p),
                   message="States.IntrinsicFailure raised by the ItemSelector/Parameters of an item is an ordinary catchable error: the Catcher path of handle_error subscripts "
                           "branch_info['Index'] of the placeholder (KeyError out of the timer callback after the next state was already published with the bogus stack), the Retrier "
                           "republishes the bogus stack (KeyError 'ID' in the gate, event dropped): the execution stays RUNNING for ever; for a later item the Catcher acts inside the previous iteration")
    chk.floor("C07.R9", n, 2, "placeholder pushes in the fan-out delegates")


# ---------------------------------------------------------------------------------------------------------------------
# C13.R10 / C12.R7 / C01 (D59): the template expander (`clone`, which renames and EVALUATES every member whose name ends in `.$`) is applied to
# the template only, never to data: a copy of the input (the `"x.$": "$"` arm) is made with a data copier.
def expander_applied_to_template_only(chk, ctx, rule):
    sp = ctx.mod("state_engine_paths")
    outer = sp.func("evaluate_payload_template")
    params = [a.arg for a in outer.node.args.args]
    if len(params) < 3:
        raise AnalysisError("anchor not found: evaluate_payload_template(input, context, template)")
    data_names = set(params[:2])
    n = 0
    for q, f in sorted(sp.funcs.items()):
        if not (q == outer.qname or q.startswith(outer.qname + ".")):
            continue
        shadow = {a.arg for a in f.node.args.args} if f is not outer else set()
        for c in _walk_no_nested(f.node):
            if isinstance(c, ast.Call) and isinstance(c.func, ast.Name) and c.func.id == "clone" and c.args:
                n += 1
                reads = {x.id for x in ast.walk(c.args[0]) if isinstance(x, ast.Name)} - shadow
                bad = reads & data_names
                chk.ob(rule, "%s: clone(%s) expands (part of) the template" % (q, norm(c.args[0])), not bad, "",
                       key="%s | the template expander is applied to data: `%s`" % (q, norm(c)), where=sp.line(c),
                       message="clone() is the recursive template expander: applied to the input it renames and evaluates members of the DATA whose names end in .$ (against the input "
                               "and the context object) and raises UnboundLocalError for a scalar input; a copy of data is made with copy.deepcopy")
    chk.floor(rule, n, 3, "applications of the template expander")


# ---------------------------------------------------------------------------------------------------------------------
# C03.R14 / C04 (D60): the retry arm of handle_error republishes the state's event BEFORE it tears the failed attempt down: the tear-down
# acknowledges the events held for the terminated branches, and until the retry event is on the queue those are all a restart could resume from.
def retry_arm_publishes_before_teardown(chk, ctx):
    se = ctx.mod("state_engine")
    he = se.func("StateEngine.notify.handle_error")
    tears = [c for c in body_nodes(he) if isinstance(c, ast.Call) and callname(c) == "self.check_pending_results"]
    chk.floor("C03.R14", len(tears), 1, "tear-downs in handle_error")
    for t in tears:
        # the statement list that contains the (conditional) tear-down
        cur = t
        block = None
        while cur is not None and cur is not he.node:
            par = se.parent(cur)
            for fld in ("body", "orelse", "finalbody"):
                lst = getattr(par, fld, None)
                if isinstance(lst, list) and cur in lst:
                    if any(isinstance(x, ast.Call) and callname(x) == "self.event_dispatcher.publish" for s in lst for x in ast.walk(s)):
                        block = (lst, lst.index(cur))
                    break
            if block:
                break
            cur = par
        if block is None:
            chk.ob("C03.R14", "handle_error: the tear-down sits in the arm that republishes the event", False, "", key="StateEngine.notify.handle_error | tear-down outside a publishing arm", where=se.line(t), message="")
            continue
        lst, i = block
        after = [s for s in lst[i + 1:] for x in ast.walk(s) if isinstance(x, ast.Call) and callname(x) == "self.event_dispatcher.publish"]
        before = [s for s in lst[:i] for x in ast.walk(s) if isinstance(x, ast.Call) and callname(x) == "self.event_dispatcher.publish"]
        chk.ob("C03.R14", "handle_error: the retry event is published before the held branch events are released", bool(before) and not after, "",
               key="StateEngine.notify.handle_error | check_pending_results (acknowledges held events) runs before the retry event is published", where=se.line(t),
               message="a crash between the acknowledgements and the publish loses the execution: nothing is left unacknowledged or queued to resume it from")


# =====================================================================================================================
# Rules for three of the defects the round-7 hunters reported and that are NOT repaired (open findings D69-D71): each states what the sibling
# code does and reports the sites that deviate.
# =====================================================================================================================

# C07.R10 (D69, open): the attempt count that is compared with a Retrier's MaxAttempts (and is the exponent of its BackoffRate) is that Retrier's own.
# The States Language: "each Retrier keeps track of its own retry count"; its example waits 1, 2, 5 s where a shared counter waits 1, 2, 20 s.
def retrier_counts_are_per_retrier(chk, ctx):
    se = ctx.mod("state_engine")
    he = se.func("StateEngine.notify.handle_error")
    loops = [n for n in body_nodes(he) if isinstance(n, ast.For) and isinstance(n.iter, ast.Name) and n.iter.id == "retry"]
    chk.floor("C07.R10", len(loops), 1, "retrier scans in handle_error")
    for lp in loops:
        targets = {x.id for x in ast.walk(lp.target) if isinstance(x, ast.Name)}
        cmps = [c for s in lp.body for c in ast.walk(s) if isinstance(c, ast.Compare) and len(c.ops) == 1 and isinstance(c.ops[0], (ast.Lt, ast.LtE, ast.Gt, ast.GtE))
                and any(isinstance(x, ast.Name) and x.id == "max_attempts" for x in ast.walk(c))]
        chk.floor("C07.R10", len(cmps), 1, "comparisons with MaxAttempts")
        for c in cmps:
            other = [x for x in (c.left, c.comparators[0]) if not (isinstance(x, ast.Name) and x.id == "max_attempts")]
            keyed = False
            src = ""
            for o in other:
                defs = [d for d in name_defs(he, o.id) if isinstance(d, ast.Assign)] if isinstance(o, ast.Name) else []
                exprs = [d.value for d in defs] or [o]
                src = " / ".join(norm(e) for e in exprs)
                # per-retrier: the count is looked up through the loop variable (retrier[...], counts[index], ...)
                keyed = any(any(isinstance(x, ast.Name) and x.id in targets for x in ast.walk(e)) for e in exprs if not isinstance(e, ast.BinOp))
            chk.ob("C07.R10", "the attempt count compared with a Retrier's MaxAttempts is that Retrier's own", keyed, src,
                   key="StateEngine.notify.handle_error | the count compared with MaxAttempts (`%s`) is one counter for all Retriers of the state" % src, where=se.line(c),
                   message="with two Retriers the second starts from the attempts the first used up: fewer retries than its MaxAttempts (possibly none: the Catcher is taken, or the "
                           "execution fails) and a backoff exponent that is the total number of retries (the specification's own example waits 1, 2, 20 s instead of 1, 2, 5 s)")


# C14.R7 (D70, open, one key per function): the type tests agree on a Variable that does not exist. asl_choice_IsBoolean refuses to match when the
# Variable's path did not match (`not path_match_failed and ...`); its siblings test the placeholder value, so `Is<T>: false` MATCHES a missing field.
def type_tests_agree_on_missing_variable(chk, ctx):
    se = ctx.mod("state_engine")
    fs = {q: f for q, f in se.funcs.items() if q.rsplit(".", 1)[-1].startswith("asl_choice_Is") and q.rsplit(".", 1)[-1] != "asl_choice_IsPresent"}
    chk.floor("C14.R7", len(fs), 5, "type-test operators")
    guarded = {q for q, f in fs.items() if any(isinstance(x, ast.Name) and x.id == "path_match_failed" for x in ast.walk(f.node))}
    chk.floor("C14.R7", len(guarded), 1, "type tests that consult path_match_failed")
    for q, f in sorted(fs.items()):
        chk.ob("C14.R7", "%s does not match when the Variable's path did not match" % f.name, q in guarded, "",
               key="%s | tests the placeholder of a missing Variable: `%s: false` matches a field that does not exist (IsBoolean does not)" % (q, f.name[len("asl_choice_"):]),
               where=f.where(), message="a Choice rule on a missing Variable never matches (the specification; this project's own IsBoolean and every comparison operator): "
                                        "`{Variable: $.x, IsString: false}` on input {} takes its Next")


# C06.R11 (D71, open): no arm of notify fails the state (handle_error) for an event of a branch before the termination gate has been consulted:
# a queued straggler of an already failed fan-out must be dropped, not allowed to end the execution a second time.
def notify_fails_only_behind_the_gate(chk, ctx):
    se = ctx.mod("state_engine")
    nf = se.func("StateEngine.notify")
    g = CFG(nf.node)
    gates = [c for c in body_nodes(nf) if isinstance(c, ast.Call) and callname(c) == "self.branch_has_terminated"]
    chk.floor("C06.R11", len(gates), 1, "termination gate calls in notify")
    gns = [x for x in (g.containing_stmt_node(c, se) for c in gates) if x is not None]
    calls = [c for c in body_nodes(nf) if isinstance(c, ast.Call) and callname(c) == "handle_error"]
    chk.floor("C06.R11", len(calls), 3, "handle_error calls at the top level of notify")
    for c in calls:
        cn = _dominated_anchor(g, se, c)
        ok = cn is not None and any(g.dominates(gn, cn) for gn in gns)
        arm = [norm(i.test)[:60] for i, a in enclosing_ifs(se, c, nf.node)]
        chk.ob("C06.R11", "notify: handle_error under `%s` runs behind the termination gate" % (arm[0] if arm else "-"), ok, "",
               key="StateEngine.notify | handle_error under `%s` is reached before the termination gate" % (arm[0] if arm else "-"), where=se.line(c),
               message="an event of a terminated branch whose state cannot be found (dangling Next; a definition updated while the event was queued) fails the fan-out and ends the "
                       "already FAILED execution a second time: two ExecutionFailed events, two notifications, the recorded error overwritten")


# ---------------------------------------------------------------------------------------------------------------------
# C20.R11 / C04.R9 (D72, open): the JSON store never truncates its only copy: a function that rewrites self.json_store writes a sibling file and
# renames it over the old one (os.replace / os.rename), it does not open the store file itself for writing.
def json_store_rewrite_is_atomic(chk, ctx, rule):
    st = ctx.mod("store")
    n = 0
    for q, f in sorted(st.funcs.items()):
        if not q.startswith("JSONStore."):
            continue
        for c in _walk_no_nested(f.node):
            if isinstance(c, ast.Call) and callname(c) == "open" and len(c.args) >= 2 and isinstance(const(c.args[1]), str) and any(m in const(c.args[1]) for m in "wa+"):
                n += 1
                direct = norm(c.args[0]) == "self.json_store"
                renames = any(isinstance(x, ast.Call) and callname(x) in ("os.replace", "os.rename") for x in _walk_no_nested(f.node))
                chk.ob(rule, "%s: the store file is replaced atomically, not truncated in place" % q, (not direct) or renames, "",
                       key="%s | opens its only copy (`%s`) for writing: the file is truncated before the new content is written" % (q, norm(c)), where=st.line(c),
                       message="a crash (or a full disk) while json.dump is streaming leaves an empty or half-written file; on restart an invalid file opens as an EMPTY store: "
                               "every definition that had been persisted is lost, not only the one being written")
    chk.floor(rule, n, 1, "writes of the JSON store file")


# C20.R12 (D73, open): a dotted version string is compared component-wise, not after its dots have been deleted ("5.0.14" -> 5014 >= 600).
def version_compared_componentwise(chk, ctx):
    st = ctx.mod("store")
    n = 0
    for q, f in sorted(st.funcs.items()):
        for s in _walk_no_nested(f.node):
            if isinstance(s, ast.Assign) and isinstance(s.value, ast.Call) and callname(s.value) == "int" and s.value.args:
                a = s.value.args[0]
                if isinstance(a, ast.Call) and isinstance(a.func, ast.Attribute) and a.func.attr == "replace" and a.args and const(a.args[0]) == "." and len(a.args) > 1 and const(a.args[1]) == "" \
                        and "version" in norm(a.func.value):
                    n += 1
                    chk.ob("C20.R12", "%s: the server version is compared component-wise" % q, False, "",
                           key="%s | `%s`: the dots of a version string are deleted before it is compared" % (q, norm(s)), where=st.line(s),
                           message="'5.0.14' becomes 5014, which passes the `< 600` test meant for 6.0.0: CLIENT TRACKING is sent to a server that rejects it, and later calls fill and "
                                   "serve a cache that nothing ever invalidates (a stale cached view)")
    cmps = [c for q, f in st.funcs.items() for c in _walk_no_nested(f.node) if isinstance(c, ast.Compare) and "redis_version" in norm(c)]
    chk.floor("C20.R12", len(cmps), 1, "tests of the Redis server version")
    if not n:
        chk.ob("C20.R12", "the Redis server version is not derived by deleting the dots of the version string", True, "")


# ---------------------------------------------------------------------------------------------------------------------
# C17.R9 (D74, open): whoever mints an execution ARN from a name that comes out of a request or a state machine (not from the engine's own uuid)
# validates the name first, as the REST handlers do with valid_name(): every consumer splits the ARN at its LAST colon.
def minted_execution_names_are_validated(chk, ctx):
    n = 0
    for mname in ("task_dispatcher", "rest_api", "rest_api_asyncio"):
        m = ctx.mod(mname)
        for q, f in sorted(m.funcs.items()):
            for c in _walk_no_nested(f.node):
                if not (isinstance(c, ast.Call) and last(callname(c) or "") == "create_arn"):
                    continue
                kw = {k.arg: k.value for k in c.keywords}
                if const(kw.get("resource_type")) != "execution" or "resource" not in kw:
                    continue
                n += 1
                # names that make up the resource, and where they come from
                parts = [x.id for x in ast.walk(kw["resource"]) if isinstance(x, ast.Name)]
                ext = []
                for p in parts:
                    for d in name_defs(f, p):
                        if isinstance(d, ast.Assign) and isinstance(d.value, ast.Call) and isinstance(d.value.func, ast.Attribute) and d.value.func.attr == "get" \
                                and norm(d.value.func.value) in ("parameters", "params") and const(d.value.args[0]) in ("Name", "name"):
                            ext.append(p)
                if not ext:
                    continue
                checked = any(isinstance(x, ast.Call) and last(callname(x) or "") in ("valid_name", "search", "match", "fullmatch") and any(isinstance(y, ast.Name) and y.id in ext for a in x.args for y in ast.walk(a))
                              for x in _walk_no_nested(f.node))
                chk.ob("C17.R9", "%s validates the name it mints an execution ARN from" % q, checked, "",
                       key="%s | the execution name `%s` comes from the request / the state's Parameters and reaches create_arn unvalidated" % (q, ext[0]), where=m.line(c),
                       message="a name containing ':' yields an ARN that every consumer (record re-creation, EXPRESS details, the back stop, notifications) splits into a different state "
                               "machine and execution name; the REST API refuses the same name as InvalidName")
    chk.floor("C17.R9", n, 3, "places that mint an execution ARN")


# ---------------------------------------------------------------------------------------------------------------------
# C16.R7 (D75, open, one key per site): every enforcement point of the 262144-character data quota measures the same thing, the JSON text. The API
# and the task-reply check measure the text they received; a point inside the engine that has only the value must serialise it compactly
# (separators=(",", ":"), ensure_ascii=False) or it measures a padded, escaped re-rendering: a value exactly at the limit is accepted by the API
# and then fails its first state.
def quota_measures_the_json_text(chk, ctx):
    n = 0
    for mname in ("state_engine", "task_dispatcher", "rest_api", "rest_api_asyncio"):
        m = ctx.mod(mname)
        for q, f in sorted(m.funcs.items()):
            for c in _walk_no_nested(f.node):
                if not (isinstance(c, ast.Compare) and any(isinstance(x, ast.Name) and x.id == "MAX_DATA_LENGTH" for x in ast.walk(c))):
                    continue
                lens = [x for x in ast.walk(c) if isinstance(x, ast.Call) and callname(x) == "len" and x.args and isinstance(x.args[0], ast.Name)]
                if not lens:
                    continue
                n += 1
                v = lens[0].args[0].id
                defs = [d for d in name_defs(f, v) if isinstance(d, ast.Assign) and d.lineno < c.lineno]      # the definitions that can reach the comparison
                dumps = [d for d in defs if isinstance(d.value, ast.Call) and callname(d.value) in ("json.dumps", "self.json.dumps")]
                if not dumps:
                    chk.ob("C16.R7", "%s measures the text it received (`%s`)" % (q, v), True, "", nontrivial=False)
                    continue
                for d in dumps:
                    kw = {k.arg: k.value for k in d.value.keywords}
                    compact = "separators" in kw and norm(kw["separators"]).replace(" ", "") in ("(',',':')", "[',',':']") and const(kw.get("ensure_ascii")) is False
                    chk.ob("C16.R7", "%s measures the compact JSON text of the value" % q, compact, norm(d),
                           key="%s | the quota is applied to `%s`: the default rendering pads every separator and escapes non-ASCII characters" % (q, norm(d)), where=m.line(d),
                           message="StartExecution accepts an input of exactly 262144 characters (it counts the text); the first state's output check re-serialises the value with "
                                   "', ' / ': ' separators and \\uXXXX escapes and fails the execution with States.DataLimitExceeded: values exactly at the limit are not accepted")
    chk.floor("C16.R7", n, 6, "enforcement points of the data quota")


# ---------------------------------------------------------------------------------------------------------------------
# C19.R9 / C03.R15 (D76, open): the id under which dispatch retains a delivery (and which becomes the event id, the correlation id of task requests
# and the default name of child executions) is never None: only publish() assigns message ids, a start event published by an external client the
# documented low-level way has none.
def retained_delivery_has_an_id(chk, ctx, rule):
    ed = ctx.mod("event_dispatcher")
    f = ed.func("EventDispatcher.dispatch")
    stores = [s for s in body_nodes(f) if isinstance(s, ast.Assign) and any(isinstance(t, ast.Subscript) and norm(t.value) == "self.unacknowledged_messages" for t in s.targets)]
    chk.floor(rule, len(stores), 1, "stores into unacknowledged_messages in dispatch")
    for s in stores:
        t = [t for t in s.targets if isinstance(t, ast.Subscript)][0]
        key = t.slice
        names = {x.id for x in ast.walk(key) if isinstance(x, ast.Name)} | ({norm(key)} if not isinstance(key, ast.Name) else set())
        srcs = [d.value for n_ in names for d in name_defs(f, n_) if isinstance(d, ast.Assign)] or [key]
        defaulted = any(isinstance(e, ast.BoolOp) and isinstance(e.op, ast.Or) for e in srcs) or any(isinstance(e, ast.IfExp) for e in srcs)
        tested = any(isinstance(c, (ast.Compare, ast.UnaryOp)) and any(isinstance(x, ast.Name) and x.id in names for x in ast.walk(c)) and
                     (isinstance(c, ast.UnaryOp) and isinstance(c.op, ast.Not) or any(isinstance(k, ast.Constant) and k.value is None for k in ast.walk(c)))
                     for i in body_nodes(f) if isinstance(i, ast.If) for c in ast.walk(i.test)) or \
                 any(isinstance(c, (ast.Compare, ast.UnaryOp)) and "message_id" in norm(c) and ("None" in norm(c) or norm(c).startswith("not ")) for i in body_nodes(f) if isinstance(i, ast.If) for c in [i.test])
        chk.ob(rule, "dispatch never retains a delivery under the key None", defaulted or tested, " / ".join(norm(e) for e in srcs),
               key="EventDispatcher.dispatch | the delivery is retained under `%s`, which is None for a message without a message id" % " / ".join(norm(e) for e in srcs), where=ed.line(s),
               message="all id-less in-flight events share the key None: acknowledging one acknowledges another's delivery, the later ones are never acknowledged; task requests go out "
                       "without a correlation id (the reply consumer raises on None.endswith) and a terminal first state is never acknowledged (`if id != None`)")


# ---------------------------------------------------------------------------------------------------------------------
# C10.R9 (D77, open, one key per front end): a definition is stored only if its PARSED value is a non-empty definition. CreateStateMachine tests the
# parsed value (`not (name and definition and role_arn)` after json.loads); UpdateStateMachine tests the request text, parses, and stores.
def stored_definition_is_nonempty(chk, ctx):
    n = 0
    for mname in ("rest_api", "rest_api_asyncio"):
        m = ctx.mod(mname)
        for q, f in sorted(m.funcs.items()):
            if not (q.endswith("aws_api_UpdateStateMachine") or q.endswith("aws_api_CreateStateMachine")):
                continue
            parses = [s for s in _walk_no_nested(f.node) if isinstance(s, ast.Assign) and isinstance(s.targets[0], ast.Name) and s.targets[0].id == "definition"
                      and isinstance(s.value, ast.Call) and last(callname(s.value) or "") == "loads"]
            if not parses:
                continue
            p0 = min(s.lineno for s in parses)
            # where the parsed value is put into what gets stored
            stores = [s for s in _walk_no_nested(f.node) if isinstance(s, ast.Assign) and s.lineno > p0 and (
                (isinstance(s.targets[0], ast.Subscript) and const(s.targets[0].slice) == "definition" and norm(s.value) == "definition") or
                (isinstance(s.value, ast.Dict) and any(const(k) == "definition" and norm(v) == "definition" for k, v in zip(s.value.keys, s.value.values))))]
            for st_ in stores:
                n += 1
                guards = [i for i in _walk_no_nested(f.node) if isinstance(i, ast.If) and p0 < i.lineno < st_.lineno and any(isinstance(r, ast.Return) for r in i.body)
                          and isinstance(i.test, ast.UnaryOp) and isinstance(i.test.op, ast.Not) and any(isinstance(x, ast.Name) and x.id == "definition" for x in ast.walk(i.test))]
                chk.ob("C10.R9", "%s stores a definition only if its parsed value is non-empty" % q, bool(guards), "",
                       key="%s.%s | the parsed definition is stored without a test that it is non-empty" % (mname, q), where=m.line(st_),
                       message="`definition` = \"{}\" / \"null\" / \"[]\" / \"0\" passes the presence test (made on the text), is parsed to a falsy value and replaces the stored definition: "
                               "CreateStateMachine refuses the same value; StartExecution then answers 200 and the engine drops the start event ('State Machine does not exist')")
    chk.floor("C10.R9", n, 4, "places where a parsed definition is stored")


# ---------------------------------------------------------------------------------------------------------------------
# C20.R13 (D78, open): what the store itself publishes on the invalidation channel is something its own invalidation handler can take. stop()
# publishes the string "exit" on "__redis__:invalidate" to unblock its listener; that message reaches the handler of EVERY instance, which
# iterates `message["data"]` as an array of keys and decodes each element.
def invalidation_handler_takes_what_is_published(chk, ctx):
    st = ctx.mod("store")
    h = st.func("RedisStore._cache_invalidation_handler")
    pubs = []
    for q, f in sorted(st.funcs.items()):
        for c in _walk_no_nested(f.node):
            if isinstance(c, ast.Call) and last(callname(c) or "") == "publish" and len(c.args) >= 2 and const(c.args[0]) == "__redis__:invalidate":
                pubs.append((q, c))
    chk.floor("C20.R13", len(pubs), 1, "publishes on the invalidation channel by the store itself")
    tolerant = any(isinstance(x, ast.Call) and callname(x) == "isinstance" for x in _walk_no_nested(h.node)) or \
               any(isinstance(t, ast.Try) for t in _walk_no_nested(h.node))
    for q, c in pubs:
        scalar = isinstance(c.args[1], ast.Constant) and isinstance(c.args[1].value, (str, bytes))
        chk.ob("C20.R13", "%s publishes on the invalidation channel something the handler can take" % q, (not scalar) or tolerant, "",
               key="%s | publishes the string %r on the invalidation channel; the handler iterates the payload as an array of keys and decodes each element" % (q, const(c.args[1])),
               where=st.line(c), message="the message reaches the invalidation handler of every OTHER instance on the same server: it raises (AttributeError: 'int' has no decode), the "
                                         "listener thread dies, and from then on that instance's cached views are never invalidated: get_cached_view serves stale definitions for ever")
