"""C19 - work is routed to the right queue/instance; messages map faithfully to AMQP (structural clauses)."""
import ast
import json as _json

from ..core import AnalysisError, dotted, callname, last, const, short, norm, kwarg
from ..util import body_nodes, name_defs, enclosing_ifs, enclosing_stmt
from . import c03

EXPLANATION = (
    "Static analysis of the current /repo source (pika is not installed here, so the two AMQP bindings cannot even be imported: reading them is "
    "the only way to say anything). Decides: (R1) among all event publish sites only StartExecution and the asynchronous child launch use the "
    "shared queue, and publish maps the flag to the queue name as message subject and stamps a fresh id; (R2) the shared / per-instance / "
    "reply queue names are built as documented and the -qq rule agrees between the two dispatchers; (R3) the consumer address strings, folded "
    "for queue_type in {classic, quorum} and parsed as '<name>; <JSON>', declare durable queues, an exclusive subscription only on the "
    "instance queue, x-priority on the reply queue and x-queue-type for quorum, identically in start and start_asyncio; (R4) every option key "
    "those addresses use is read by parse_address unconditionally and reaches queue_declare / basic_consume, in both bindings; (R5) "
    "Producer.send feeds every BasicProperties field from the same-named message attribute and Consumer.message_listener does the inverse, "
    "the expiration clamp yields a non-negative integer string, and Message has no shared mutable state between instances; (R6) "
    "Message.acknowledge(multiple=False) acknowledges exactly the delivery tag taken from the delivery; (R7) the RPC request carries the "
    "reply queue, correlation id, function subject and mandatory flag; the two bindings agree on all of this. Not decided: affinity of actual "
    "deliveries with competing consumers; wire frames."
    ' (R9) the id under which dispatch retains a delivery is never None (a message without a message id is given one or refused); reported on the current tree as D76.')
RULE_TEXT = "obligation = one publish site / folded address x option / message field x direction x binding; non-trivial = distinct (rule, site)"

BINDINGS = ("amqp_0_9_1_messaging", "amqp_0_9_1_messaging_asyncio")
FIELDS = ["content_type", "content_encoding", "priority", "correlation_id", "reply_to", "message_id", "timestamp", "type", "user_id", "app_id", "cluster_id"]


def r1(chk, ctx):
    sites = []
    for mn in ("state_engine", "task_dispatcher", "rest_api", "rest_api_asyncio"):
        m = ctx.mod(mn)
        for q, f in m.funcs.items():
            for c in body_nodes(f):
                if isinstance(c, ast.Call) and last(callname(c)) == "publish" and "event_dispatcher" in callname(c):
                    sites.append((m, f, c))
    chk.floor("C19.R1", len(sites), 9, "event publish sites")
    for m, f, c in sites:
        us = kwarg(c, "use_shared_queue")
        v = norm(us) if us is not None else "False (default)"
        if f.name == "aws_api_StartExecution":
            ok = const(us) is True
            want = "shared"
        elif f.name == "asl_service_states_startExecution":
            ok = v == "async_child"
            want = "shared iff asynchronous"
        else:
            ok = us is None or const(us) is False
            want = "instance"
        chk.ob("C19.R1", "%s publishes to the %s queue" % (f.qname, want), ok, "use_shared_queue=%s" % v, key="%s | use_shared_queue=%s (expected: %s)" % (f.qname, v, want), where=m.line(c),
               message="start events go to the shared queue so any instance may take them; every later event of an execution must reach the instance that started it")
    ed = ctx.mod("event_dispatcher")
    pub = ed.func("EventDispatcher.publish")
    a = pub.node.args
    names = [x.arg for x in a.args]
    d = dict(zip(names[len(names) - len(a.defaults):], a.defaults))
    chk.ob("C19.R1", "publish defaults to the instance queue", const(d.get("use_shared_queue")) is False, "", key="%s | default of use_shared_queue" % pub.qname, where=pub.where(), message="")
    ifs = [i for i in body_nodes(pub) if isinstance(i, ast.If) and norm(i.test) == "use_shared_queue"]
    ok = len(ifs) == 1 and [norm(s) for s in ifs[0].body] == ["subject = self.queue_name"] and [norm(s) for s in ifs[0].orelse] == ["subject = self.instance_queue_name"]
    chk.ob("C19.R1", "publish: flag selects shared vs instance queue name as subject", ok, "", key="%s | subject selection" % pub.qname, where=pub.where(), message="")
    txt = [norm(s) for s in body_nodes(pub) if isinstance(s, ast.stmt)]
    ok = "message.subject = subject" in txt and "message.message_id = str(uuid.uuid4())" in txt and "self.event_queue_producer.send(message, threadsafe)" in txt
    chk.ob("C19.R1", "publish sets the subject, a fresh id, and sends through the event producer", ok, "", key="%s | message set-up" % pub.qname, where=pub.where(), message="")
    mk = [c for c in body_nodes(pub) if isinstance(c, ast.Call) and callname(c) == "Message"]
    ok = len(mk) == 1 and norm(mk[0].args[0]) == "json.dumps(item)" and kwarg(mk[0], "properties") is None
    chk.ob("C19.R1", "publish serialises the item as the body", ok, "", key="%s | body" % pub.qname, where=pub.where(), message="")


def r2(chk, ctx):
    ed = ctx.mod("event_dispatcher")
    td = ctx.mod("task_dispatcher")
    i1, i2 = ed.func("EventDispatcher.__init__"), td.func("TaskDispatcher.__init__")
    t1 = [norm(s) for s in body_nodes(i1) if isinstance(s, ast.stmt)]
    ok = "self.queue_name = self.queue_config.get('queue_name', 'asl_workflow_events')" in t1 and "self.queue_type = self.queue_config.get('queue_type', 'classic')" in t1 \
        and "self.queue_name += '-qq'" in t1 and "self.instance_queue_name = self.queue_name + '-' + instance_id" in t1 and "instance_id = self.queue_config.get('instance_id', '')" in t1
    chk.ob("C19.R2", "shared = queue_name[-qq]; instance = shared + '-' + instance_id", ok, "", key="%s | queue names" % i1.qname, where=i1.where(), message="")
    qq = [i for i in body_nodes(i1) if isinstance(i, ast.If) and any(norm(s) == "self.queue_name += '-qq'" for s in i.body)]
    ok = len(qq) == 1 and norm(qq[0].test) == "self.queue_type == 'quorum'"
    g = [s for s in body_nodes(i1) if isinstance(s, ast.Assign) and norm(s.targets[0]) == "self.instance_queue_name"]
    ok = ok and bool(g) and g[0].lineno > qq[0].lineno
    chk.ob("C19.R2", "the -qq suffix is applied (for quorum) before the instance name is derived", ok, "", key="%s | -qq ordering" % i1.qname, where=i1.where(), message="")
    t2 = [norm(s) for s in body_nodes(i2) if isinstance(s, ast.stmt)]
    ok = "suffix = '-qq' if self.queue_type == 'quorum' else ''" in t2 and "self.reply_to_queue_name = 'asl_workflow_reply_to' + suffix + '-' + instance_id" in t2 \
        and "self.queue_type = queue_config.get('queue_type', 'classic')" in t2 and "instance_id = queue_config.get('instance_id', '')" in t2
    chk.ob("C19.R2", "reply = asl_workflow_reply_to[-qq]-instance_id, same quorum rule and instance id source", ok, "", key="%s | reply queue name" % i2.qname, where=i2.where(), message="")


def fold(expr, env):
    """fold a string-concatenation expression; attribute reads become placeholders"""
    if isinstance(expr, ast.Constant) and isinstance(expr.value, str):
        return expr.value
    if isinstance(expr, ast.BinOp) and isinstance(expr.op, ast.Add):
        a, b = fold(expr.left, env), fold(expr.right, env)
        return None if a is None or b is None else a + b
    if isinstance(expr, ast.Name):
        return env.get(expr.id)
    if isinstance(expr, ast.Attribute):
        return "<%s>" % norm(expr)
    return None


def _addresses(f):
    """{var or 'reply': folded address for classic and quorum}"""
    out = {}
    xd = [x for x in name_defs(f, "x_declare") if isinstance(x, ast.Assign)]
    vals = sorted({x.value.value for x in xd if isinstance(x.value, ast.Constant)}, key=len)
    quorum_guard = any(norm(i.test) == "self.queue_type == 'quorum'" for x in xd for i, a in enclosing_ifs(f.module, x, f.node))
    for qt, xv in (("classic", ""), ("quorum", vals[-1] if vals else None)):
        env = {"x_declare": xv}
        for var in ("shared_queue", "instance_queue"):
            d = [x for x in name_defs(f, var) if isinstance(x, ast.Assign)]
            if d:
                out.setdefault(var, {})[qt] = fold(d[0].value, env)
        for c in body_nodes(f):
            if isinstance(c, ast.Call) and last(callname(c)) == "consumer" and c.args and not isinstance(c.args[0], ast.Name):
                out.setdefault("reply", {})[qt] = fold(c.args[0], env)
    return out, quorum_guard


def _opts(address):
    name, _, js = address.partition(";")
    return name.strip(), _json.loads(js)


def r3(chk, ctx):
    ed = ctx.mod("event_dispatcher")
    td = ctx.mod("task_dispatcher")
    folded = {}
    for m, fn in ((ed, "EventDispatcher.start"), (ed, "EventDispatcher.start_asyncio"), (td, "TaskDispatcher.start"), (td, "TaskDispatcher.start_asyncio")):
        f = m.func(fn)
        addrs, qg = _addresses(f)
        folded[fn] = addrs
        chk.ob("C19.R3", "%s: x-declare is added exactly for quorum queues" % fn, qg, "", key="%s | x-declare guard" % fn, where=f.where(), message="")
        for which, per in addrs.items():
            for qt, a in per.items():
                if a is None:
                    chk.ob("C19.R3", "%s: %s address (%s) folds to a constant string" % (fn, which, qt), False, "", key="%s | %s address not foldable" % (fn, which), where=f.where(), message="")
                    continue
                try:
                    name, o = _opts(a)
                except Exception as e:
                    chk.ob("C19.R3", "%s: %s address (%s) parses as '<name>; <JSON>'" % (fn, which, qt), False, str(e), key="%s | %s address (%s) is not '<name>; <JSON>': %s" % (fn, which, qt, a), where=f.where(),
                           message="the address string must describe the queue it declares")
                    continue
                node, link = o.get("node", {}), o.get("link", {})
                sub = link.get("x-subscribe", {}) if isinstance(link, dict) else {}
                facts = {
                    "durable": node.get("durable") is True,
                    "exclusive": sub.get("exclusive") is True,
                    "x-priority": isinstance(sub.get("arguments"), dict) and "x-priority" in sub.get("arguments", {}),
                    "quorum": node.get("x-declare", {}).get("arguments", {}).get("x-queue-type") == "quorum",
                }
                want = {"durable": True, "exclusive": which == "instance_queue", "x-priority": which == "reply", "quorum": qt == "quorum"}
                for k in want:
                    chk.ob("C19.R3", "%s %s (%s): %s = %s" % (fn, which, qt, k, want[k]), facts[k] == want[k], a,
                           key="%s | %s address (%s): %s is %s, expected %s" % (fn, which, qt, k, facts[k], want[k]), where=f.where(),
                           message="shared: durable, non-exclusive; instance: durable + exclusive consumer; reply: durable + x-priority; quorum adds x-queue-type")
                exp_name = {"shared_queue": "<self.queue_name>", "instance_queue": "<self.instance_queue_name>", "reply": "<self.reply_to_queue_name>"}[which]
                chk.ob("C19.R3", "%s %s (%s): queue name is %s" % (fn, which, qt, exp_name), name == exp_name, name, key="%s | %s address names %s" % (fn, which, name), where=f.where(), message="")
    for a, b in (("EventDispatcher.start", "EventDispatcher.start_asyncio"), ("TaskDispatcher.start", "TaskDispatcher.start_asyncio")):
        chk.ob("C19.R3", "%s and %s fold to the same addresses" % (a, b), folded[a] == folded[b] and bool(folded[a]), "", key="%s vs %s | addresses differ" % (a, b), where="", message="the asyncio and blocking transports behave alike")
    n = sum(len(per) for v in folded.values() for per in v.values())
    chk.floor("C19.R3", n, 12, "folded addresses")
    # consumers get the dispatch listener and the configured prefetch
    for fn in ("EventDispatcher.start", "EventDispatcher.start_asyncio"):
        f = ed.func(fn)
        txt = norm(f.node)
        ok = txt.count("set_message_listener(self.dispatch)") == 2 and "shared_event_consumer.capacity = self.shared_event_consumer_capacity" in txt and "instance_event_consumer.capacity = self.instance_event_consumer_capacity" in txt
        chk.ob("C19.R3", "%s: both consumers dispatch to the engine with their prefetch" % fn, ok, "", key="%s | consumer set-up" % fn, where=f.where(), message="")
        ok = "self.event_queue_producer = " in txt and "producer(self.queue_name)" in txt
        chk.ob("C19.R3", "%s: event producer targets the shared queue name (subject selects the queue)" % fn, ok, "", key="%s | event producer" % fn, where=f.where(), message="")


def r4(chk, ctx):
    for mn in BINDINGS:
        m = ctx.mod(mn)
        pa = m.func("Destination.parse_address")
        # shortcuts are unconditional within `if node:`
        for opt, tgt in (("durable", "self.declare['durable'] = True"), ("auto-delete", "self.declare['auto-delete'] = True")):
            st = [s for s in body_nodes(pa) if isinstance(s, ast.Assign) and norm(s) == tgt]
            ok = len(st) == 1
            gi = [(norm(i.test), a) for i, a in enclosing_ifs(m, st[0], pa.node)] if ok else []
            ok = ok and gi == [("node.get('%s')" % opt, "body"), ("node", "body")]
            chk.ob("C19.R4", "%s: node.%s is honoured whatever else the node declares" % (mn, opt), ok, str(gi),
                   key="%s.Destination.parse_address | node.%s only honoured under %s" % (mn, opt, gi), where=pa.where(),
                   message="the engine's quorum addresses combine node.durable with node.x-declare: all three engine queues would be declared non-durable")
        txt = [norm(s) for s in ast.walk(pa.node) if isinstance(s, ast.stmt)]
        ok = "x_declare = node.get('x-declare')" in txt and "self.declare.update(x_declare)" in txt
        chk.ob("C19.R4", "%s: node.x-declare is merged into the queue declaration" % mn, ok, "", key="%s.Destination.parse_address | x-declare" % mn, where=pa.where(), message="")
        ok = "x_subscribe = link.get('x-subscribe')" in txt and "self.link_subscribe.update(x_subscribe)" in txt and "link = options.get('link')" in txt and "node = options.get('node')" in txt
        chk.ob("C19.R4", "%s: link.x-subscribe is merged into the subscription options" % mn, ok, "", key="%s.Destination.parse_address | x-subscribe" % mn, where=pa.where(), message="")
        ok = "kv = address.split(';')" in txt and "options = json.loads(options_string)" in txt and "self.name = kv[0].strip()" in txt
        chk.ob("C19.R4", "%s: address = '<name>[/subject]; <JSON options>'" % mn, ok, "", key="%s.Destination.parse_address | grammar" % mn, where=pa.where(), message="")
        cands = [f for q, f in m.funcs.items() if q in ("Consumer.open", "Consumer.__init__") and "queue_declare" in norm(f.node)]
        if not cands:
            raise AnalysisError("anchor not found: the Consumer method that declares the queue in " + mn)
        co = cands[0]
        qd = [c for c in ast.walk(co.node) if isinstance(c, (ast.Call,)) and ("queue_declare" in norm(c.func) or any("queue_declare" in norm(a) for a in c.args[:1]))]
        ok = False
        for c in qd:
            kws = {k.arg: norm(k.value) for k in c.keywords}
            if kws.get("durable") == "declare['durable']" and kws.get("arguments") == "declare['arguments']" and kws.get("exclusive") == "declare['exclusive']" and kws.get("queue") == "self.name":
                ok = True
        chk.ob("C19.R4", "%s: queue_declare receives name, durable, exclusive, arguments of the parsed declaration" % mn, ok, "", key="%s.Consumer.open | queue_declare arguments" % mn, where=co.where(), message="")
        dd = [norm(x.value) for x in name_defs(co, "declare") if isinstance(x, ast.Assign)]
        chk.ob("C19.R4", "%s: the declaration used is the parsed one" % mn, "self.declare" in dd, str(dd), key="%s.Consumer.open | declaration source" % mn, where=co.where(), message="")
        sl = m.func("Consumer.set_message_listener")
        txt = norm(sl.node)
        ok = "ex = self.link_subscribe.get('exclusive', False)" in txt and "args = self.link_subscribe.get('arguments', None)" in txt and "exclusive=ex" in txt and "arguments=args" in txt and "queue=self.name" in txt
        chk.ob("C19.R4", "%s: basic_consume receives exclusive and arguments of the parsed subscription" % mn, ok, "", key="%s.Consumer.set_message_listener | basic_consume arguments" % mn, where=sl.where(), message="")
        di = m.func("Destination.__init__")
        txt = norm(di.node)
        ok = "'durable': False" in txt and "'exclusive': False" in txt
        chk.sample({"rule": "C19.R4", "binding": mn, "defaults": "durable False, exclusive False unless the address says otherwise"})


def r5(chk, ctx):
    for mn in BINDINGS:
        m = ctx.mod(mn)
        send = m.func("Producer.send")
        bp = [c for c in ast.walk(send.node) if isinstance(c, ast.Call) and callname(c) == "pika.BasicProperties"]
        chk.ob("C19.R5", "%s: send builds one BasicProperties" % mn, len(bp) == 1, "", key="%s.Producer.send | BasicProperties" % mn, where=send.where(), message="")
        if bp:
            kws = {k.arg: norm(k.value) for k in bp[0].keywords}
            for fld in FIELDS:
                chk.ob("C19.R5", "%s send: %s <- message.%s" % (mn, fld, fld), kws.get(fld) == "message." + fld, kws.get(fld), key="%s.Producer.send | %s fed from %s" % (mn, fld, kws.get(fld)), where=send.where(),
                       message="a sent message must arrive with its fields intact")
            chk.ob("C19.R5", "%s send: headers <- message.properties" % mn, kws.get("headers") == "message.properties", "", key="%s.Producer.send | headers" % mn, where=send.where(), message="")
            chk.ob("C19.R5", "%s send: delivery_mode 2 iff durable" % mn, kws.get("delivery_mode") == "2 if message.durable else 1", "", key="%s.Producer.send | delivery_mode" % mn, where=send.where(), message="")
            chk.ob("C19.R5", "%s send: expiration <- the clamped value" % mn, kws.get("expiration") == "clamped_expiration", "", key="%s.Producer.send | expiration" % mn, where=send.where(), message="")
        bpub = [c for c in ast.walk(send.node) if isinstance(c, ast.Call) and last(callname(c)) == "basic_publish"]
        ok = len(bpub) == 1
        if ok:
            kws = {k.arg: norm(k.value) for k in bpub[0].keywords}
            ok = kws == {"exchange": "self.name", "routing_key": "routing_key", "body": "message.body", "properties": "properties", "mandatory": "message.mandatory"}
        chk.ob("C19.R5", "%s send: basic_publish(exchange, routing_key, body, properties, mandatory)" % mn, ok, "", key="%s.Producer.send | basic_publish arguments" % mn, where=send.where(), message="")
        txt = [norm(s) for s in ast.walk(send.node) if isinstance(s, ast.stmt)]
        ok = "subject = message.subject" in txt and "routing_key = subject if subject else self.subject" in txt
        chk.ob("C19.R5", "%s send: routing key = message subject (else the producer's)" % mn, ok, "", key="%s.Producer.send | routing key" % mn, where=send.where(), message="")
        ok = "clamped_expiration = None" in txt and "clamped_expiration = str(int(float(message.expiration)))" in txt and txt.count("clamped_expiration = '0'") == 2 and any(t.startswith("if clamped_expiration.startswith('-')") for t in txt)
        chk.ob("C19.R5", "%s send: expiration clamp = str(int(float(x))), '0' for negatives and non-numerics" % mn, ok, "", key="%s.Producer.send | expiration clamp" % mn, where=send.where(),
               message="expiration must arrive as a non-negative integer")
        ml = m.func("Consumer.message_listener")
        mk = [c for c in ast.walk(ml.node) if isinstance(c, ast.Call) and callname(c) == "Message"]
        chk.ob("C19.R5", "%s: message_listener builds one Message" % mn, len(mk) == 1, "", key="%s.Consumer.message_listener | Message" % mn, where=ml.where(), message="")
        if mk:
            kws = {k.arg: norm(k.value) for k in mk[0].keywords}
            for fld in FIELDS + ["expiration"]:
                chk.ob("C19.R5", "%s receive: %s <- properties.%s" % (mn, fld, fld), kws.get(fld) == "properties." + fld, kws.get(fld), key="%s.Consumer.message_listener | %s fed from %s" % (mn, fld, kws.get(fld)), where=ml.where(), message="")
            ok = kws.get("properties") == "properties.headers" and kws.get("redelivered") == "method.redelivered" and kws.get("durable") == "properties.delivery_mode == 2" and norm(mk[0].args[0]) == "body"
            chk.ob("C19.R5", "%s receive: body, headers, redelivered, durable" % mn, ok, "", key="%s.Consumer.message_listener | body/headers/redelivered/durable" % mn, where=ml.where(), message="")
        # Message: no shared mutable state
        init = m.func("Message.__init__")
        bad = [norm(d) for d in init.node.args.defaults + [d for d in init.node.args.kw_defaults if d is not None] if isinstance(d, (ast.Dict, ast.List, ast.Set, ast.Call))]
        chk.ob("C19.R5", "%s: Message.__init__ has no mutable default argument" % mn, not bad, str(bad), key="%s.Message.__init__ | mutable default argument %s" % (mn, bad), where=init.where(),
               message="the subject is stored inside properties: with a shared default dict every message without properties shares one headers dict and the last subject written wins")
        txt = [norm(s) for s in ast.walk(init.node) if isinstance(s, ast.stmt)]
        ok = "self.properties = properties" in txt and any(t.startswith("if self.properties == None") or t.startswith("if self.properties is None") for t in txt) and "self.properties = {}" in txt and "self.subject = subject" in txt
        chk.ob("C19.R5", "%s: Message gets a fresh properties dict when none is given, then the subject" % mn, ok, "", key="%s.Message.__init__ | properties initialisation" % mn, where=init.where(), message="")
        params = [a.arg for a in init.node.args.args if a.arg != "self"]
        for fld in FIELDS + ["body", "expiration", "mandatory", "durable", "redelivered"]:
            ok = fld in params and "self.%s = %s" % (fld, fld) in txt
            chk.ob("C19.R5", "%s: Message keeps %s as given" % (mn, fld), ok, "", key="%s.Message.__init__ | field %s" % (mn, fld), where=init.where(), message="")
        sg = [f for q, f in m.funcs.items() if q == "Message.subject"]
        txt2 = norm(m.classes["Message"])
        ok = "return self.properties.get('x-amqp-0-9-1.subject')" in txt2 and "self.properties['x-amqp-0-9-1.subject'] = subject" in txt2
        chk.ob("C19.R5", "%s: subject travels in the x-amqp-0-9-1.subject header" % mn, ok, "", key="%s.Message.subject | header" % mn, where=m.rel, message="")
    a, b = ctx.mod(BINDINGS[0]), ctx.mod(BINDINGS[1])
    for q in ("Destination.parse_address", "Message.__init__"):
        chk.ob("C19.R5", "%s identical in both bindings" % q, ast.dump(a.func(q).node) == ast.dump(b.func(q).node), "", key="%s | bindings disagree" % q, where=a.func(q).where(), message="the asyncio and blocking transports behave alike")


def r6(chk, ctx):
    for mn in BINDINGS:
        m = ctx.mod(mn)
        ack = m.func("Message.acknowledge")
        calls = [c for c in ast.walk(ack.node) if isinstance(c, ast.Call) and last(callname(c)) == "basic_ack"]
        single = [c for c in calls if {k.arg: norm(k.value) for k in c.keywords} == {"delivery_tag": "self._delivery_tag"}]
        multi = [c for c in calls if {k.arg: norm(k.value) for k in c.keywords}.get("multiple") == "True"]
        ok = len(single) == 1 and len(calls) == 2 and len(multi) == 1
        chk.ob("C19.R6", "%s: acknowledge has exactly the single-delivery and the all-deliveries forms" % mn, ok, "", key="%s.Message.acknowledge | basic_ack calls" % mn, where=ack.where(), message="")
        if single:
            gi = [(norm(i.test), a) for i, a in enclosing_ifs(m, single[0], ack.node)]
            ok = ("multiple", "orelse") in gi and all(t != "multiple" or a == "orelse" for t, a in gi)
            chk.ob("C19.R6", "%s: multiple=False acknowledges that delivery and no other" % mn, ok, str(gi), key="%s.Message.acknowledge | single-delivery arm guard" % mn, where=ack.where(), message="")
        ml = m.func("Consumer.message_listener")
        txt = [norm(s) for s in ast.walk(ml.node) if isinstance(s, ast.stmt)]
        ok = "message._delivery_tag = method.delivery_tag" in txt and "message._channel = channel" in txt
        chk.ob("C19.R6", "%s: delivery tag and channel are taken from the delivery" % mn, ok, "", key="%s.Consumer.message_listener | delivery tag" % mn, where=ml.where(), message="")
    c03.r4(chk, ctx)


def r7(chk, ctx):
    td = ctx.mod("task_dispatcher")
    ext = td.func("TaskDispatcher.execute_task")
    rpc = ext.children.get("asl_service_rpcmessage")
    mk = [c for c in body_nodes(rpc) if isinstance(c, ast.Call) and callname(c) == "Message"]
    ok = len(mk) == 1
    if ok:
        kws = {k.arg: norm(k.value) for k in mk[0].keywords}
        ok = kws.get("reply_to") == "self.reply_to.name" and kws.get("correlation_id") == "correlation_id" and kws.get("subject") == "function_name" and kws.get("mandatory") == "True" \
            and kws.get("expiration") == "timeout" and norm(mk[0].args[0]) == "payload_as_string"
    chk.ob("C19.R7", "RPC request: body, subject = function, reply_to = this instance's reply queue, correlation id, mandatory, expiration", ok, "", key="%s | request message" % rpc.qname, where=rpc.where(),
           message="task requests go to the queue named by the function and replies come back to the requesting instance")
    snd = [c for c in body_nodes(rpc) if isinstance(c, ast.Call) and norm(c) == "self.producer.send(message)"]
    chk.ob("C19.R7", "request is sent through the default-exchange producer", len(snd) == 1, "", key="%s | send" % rpc.qname, where=rpc.where(), message="")
    fn = [norm(x.value) for x in name_defs(rpc, "function_name") if isinstance(x, ast.Assign)]
    chk.ob("C19.R7", "function name comes from the resource ARN / Parameters.FunctionName", sorted(fn) == ["arn['resource']", "resource"], str(fn), key="%s | function name sources" % rpc.qname, where=rpc.where(), message="")
    for f_ in ("TaskDispatcher.start", "TaskDispatcher.start_asyncio"):
        f = td.func(f_)
        txt = norm(f.node)
        ok = "set_message_listener(self.handle_rpcmessage_response)" in txt and "set_return_callback(self.handle_unroutable_rpcmessage)" in txt and "self.reply_to.capacity = self.reply_to_capacity" in txt
        chk.ob("C19.R7", "%s: replies and unroutable requests come back to the dispatcher" % f_, ok, "", key="%s | listener set-up" % f_, where=f.where(), message="")


def run(chk, ctx):
    from . import round5
    round5.retained_delivery_has_an_id(chk, ctx, "C19.R9")   # the correlation id of a task request is the id of the event that asked for it
    from . import generic
    generic.definite_assignment(chk, ctx, ['amqp_0_9_1_messaging', 'amqp_0_9_1_messaging_asyncio'], "C19.DA")   # no local is read before it is bound (UnboundLocalError = an arbitrary exception)
    r1(chk, ctx)
    r2(chk, ctx)
    r3(chk, ctx)
    r4(chk, ctx)
    r5(chk, ctx)
    r6(chk, ctx)
    r7(chk, ctx)
    from . import round3
    round3.rest_no_instance_identity(chk, ctx)
    chk.assume("pika.BasicProperties / basic_publish / basic_consume / queue_declare / basic_ack behave as documented; the broker honours exclusive consumers")
