"""C18 - validator-accepted machines run; uninterpretable ones hurt only themselves (structural clauses)."""
import ast

from ..core import AnalysisError, dotted, callname, last, const, short, norm
from ..cfg import CFG
from ..j2119 import Schema
from ..util import body_nodes, name_defs, enclosing_ifs, in_try_with_handler, enclosing_stmt
from .shared import proto_findings
from . import c03

EXPLANATION = (
    "Static analysis of the current /repo source and of the J2119 schema text. Decides: (R1) every state Type the schema allows has an "
    "engine handler behind the asl_state_ prefix dispatch, and an unknown Type falls into the catch-all that fails the execution; (R2) "
    "the validator's early returns are silent only for JSON null - never for an object (not even the empty one) and never for a "
    "non-object where an object is required (kind evaluation of the guard over the 13 JSON kinds); (R3) fields the engine uses as fan-out "
    "loop bounds are bounded by the schema (Branches non-empty, MaxConcurrency non-negative); (R4) every deferred engine callback has a "
    "catch-all arm that fails the execution (typestate exception edges), every statement of notify that may raise on a malformed "
    "definition after the execution was announced RUNNING is covered by a handler that fails the execution, and dispatch acknowledges "
    "poison messages without touching names bound only inside its try; (R5) the semantic checker never calls a method on a JSON value "
    "whose kind it has not tested. Not decided: agreement of validator and engine on all mutated machines.")
RULE_TEXT = "obligation = one Type / guard x JSON kind / schema field / may-raise sink / attribute call; non-trivial = distinct (rule, site)"

KINDS = ["null", "false", "true", "int0", "int", "float", "str0", "str", "list0", "list", "dict0", "dict"]
FALSY = {"null", "false", "int0", "str0", "list0", "dict0"}
PYTYPE = {"dict": {"dict0", "dict"}, "list": {"list0", "list"}, "str": {"str0", "str"}, "bool": {"false", "true"},
          "int": {"int0", "int", "false", "true"}, "float": {"float"}}


def kind_truth(test, var, kind):
    """three-valued truth of a guard expression over `var` when var has JSON kind `kind`"""
    if isinstance(test, ast.UnaryOp) and isinstance(test.op, ast.Not):
        r = kind_truth(test.operand, var, kind)
        return None if r is None else not r
    if isinstance(test, ast.BoolOp):
        rs = [kind_truth(v, var, kind) for v in test.values]
        if isinstance(test.op, ast.And):
            if any(r is False for r in rs):
                return False
            return True if all(r is True for r in rs) else None
        if any(r is True for r in rs):
            return True
        return False if all(r is False for r in rs) else None
    if isinstance(test, ast.Name) and test.id == var:
        return kind not in FALSY
    if isinstance(test, ast.Call) and isinstance(test.func, ast.Name) and test.func.id == "isinstance" and len(test.args) == 2 and norm(test.args[0]) == var:
        t = test.args[1]
        names = [e.id for e in (t.elts if isinstance(t, ast.Tuple) else [t]) if isinstance(e, ast.Name)]
        ks = set()
        for n in names:
            ks |= PYTYPE.get(n, set())
        return kind in ks
    if isinstance(test, ast.Compare) and len(test.ops) == 1 and norm(test.left) == var and isinstance(test.comparators[0], ast.Constant) and test.comparators[0].value is None:
        isnone = kind == "null"
        return isnone if isinstance(test.ops[0], (ast.Is, ast.Eq)) else not isnone
    return None


def r1(chk, ctx):
    sc = Schema(ctx.repo)
    p = ctx.protocol()
    chk.floor("C18.R1", len(sc.types), 8, "state Types in the schema")
    for t in sc.types:
        chk.ob("C18.R1", "Type %s -> asl_state_%s" % (t, t), t in p.handlers, "", key="state Type %s has no handler asl_state_%s" % (t, t), where=p.notify.where(),
               message="the validator accepts this Type but the engine would fail every execution that reaches such a state")
    # unknown type -> default raises inside the try whose handler fails the execution
    site = p.dispatch_site
    se = p.mod
    inner = site.func
    default = inner.args[1] if len(inner.args) > 1 else None
    ok = isinstance(default, ast.Lambda) and isinstance(default.body, ast.Call) and callname(default.body) == "raise_exception"
    chk.ob("C18.R1", "unknown Type dispatches to a raising default", ok, "", key="%s | dispatch default does not raise" % p.notify.qname, where=se.line(site), message="")
    ok = in_try_with_handler(se, site, p.notify.node, ("Exception",))
    chk.ob("C18.R1", "handler dispatch inside try/except Exception", ok, "", key="%s | handler dispatch outside the catch-all" % p.notify.qname, where=se.line(site), message="")
    tr = None
    n = site
    while n is not None:
        n = se.parent(n)
        if isinstance(n, ast.Try):
            tr = n
            break
    if tr is not None:
        for h in tr.handlers:
            calls = [callname(c) for c in ast.walk(h) if isinstance(c, ast.Call)]
            ok = "handle_error" in calls and any(last(c) == "acknowledge" for c in calls)
            chk.ob("C18.R1", "catch-all of the dispatch fails the execution and acknowledges", ok, "", key="%s | dispatch catch-all shape" % p.notify.qname, where=se.line(h),
                   message="a poison event must fail its own execution and be acknowledged")


def r2(chk, ctx):
    jm = ctx.mod("j2119")
    vn = jm.func("NodeValidator.validate_node")
    first = [s for s in vn.node.body if not (isinstance(s, ast.Expr) and isinstance(s.value, ast.Constant))][0]
    ok = isinstance(first, ast.If) and any(isinstance(s, ast.Return) for s in ast.walk(first))
    chk.ob("C18.R2", "validate_node starts with its kind guard", ok, "", key="NodeValidator.validate_node | kind guard not found", where=vn.where(), message="")
    if not ok:
        return
    var = vn.node.args.args[1].arg

    def is_report(s):
        return any(isinstance(c, ast.Call) and isinstance(c.func, ast.Attribute) and c.func.attr == "append" and "problems" in norm(c.func.value) for c in ast.walk(s))

    def run_block(stmts, k, reported):
        """-> (set of 'reported' flags at returns reached, set of 'reported' flags falling through)"""
        rets, flows = set(), {reported}
        for s in stmts:
            if not flows:
                break
            nxt = set()
            for rep in flows:
                if isinstance(s, ast.If):
                    t = kind_truth(s.test, var, k)
                    for arm, take in ((s.body, t is not False), (s.orelse, t is not True)):
                        if take:
                            r2, f2 = run_block(arm, k, rep)
                            rets |= r2
                            nxt |= f2
                elif isinstance(s, ast.Return):
                    rets.add(rep)
                else:
                    nxt.add(rep or is_report(s))
            flows = nxt
        return rets, flows

    def silent_kinds(ifnode):
        out = set()
        for k in KINDS:
            rets, _ = run_block([ifnode], k, False)
            if False in rets:
                out.add(k)
        return out

    silent = silent_kinds(first)
    bad = sorted(silent - {"null"})
    chk.ob("C18.R2", "validate_node is silent for JSON null only (12 kinds evaluated)", not bad, "silent for %s" % sorted(silent),
           key="NodeValidator.validate_node | returns without recording a problem for a value that is not an object, or for the empty object", where=jm.line(first),
           message="kinds accepted silently: %s - a definition [1] / 'x' / 5 has no problems, and a State {} or ItemProcessor {} skips every MUST constraint" % bad)
    chk.sample({"rule": "C18.R2", "guard": norm(first.test), "silent_kinds": sorted(silent)})
    # the validator entry passes the document and the root role
    v = jm.func("Validator.validate")
    calls = [c for c in body_nodes(v) if isinstance(c, ast.Call) and last(callname(c)) == "validate_node"]
    ok = len(calls) == 1 and norm(calls[0].args[0]) == v.node.args.args[1].arg
    chk.ob("C18.R2", "Validator.validate validates the document it was given", ok, "", key="Validator.validate | entry call", where=v.where(), message="")
    sl = ctx.mod("statelint")
    sv = sl.func("StateLint.validate")
    txt = " ".join(norm(s) for s in sv.node.body)
    ok = "problems = self.validator.validate(json)" in txt and "checker.check(json, self.validator.root, problems)" in txt and "return problems" in txt
    chk.ob("C18.R2", "StateLint.validate = structural pass + semantic pass over the same problems list", ok, "", key="StateLint.validate | composition", where=sv.where(), message="")


def r3(chk, ctx):
    sc = Schema(ctx.repo)
    want = {("Parallel State", "Branches"): ("nonempty", "Parallel_delegate iterates Branches; zero iterations publish nothing (D3)"),
            ("Map State", "MaxConcurrency"): ("nonnegative", "Map_delegate slices items[start:min(start+MaxConcurrency, length)]; a negative bound launches nothing (D4)")}
    for (role, field), (need, why) in want.items():
        rules = [r for r in sc.field_rules(role) if r[2] == field]
        chk.ob("C18.R3", "schema declares %s.%s" % (role, field), bool(rules), "", key="schema | %s.%s not declared" % (role, field), where="StateMachine.j2119", message="")
        for modal, typ, name, tail in rules:
            ok = typ is not None and need in typ or ("MUST be greater than or equal to 0" in tail) or ("whose value MUST be greater than" in tail and need == "nonnegative")
            chk.ob("C18.R3", "%s.%s is %s in the schema" % (role, field, need), ok, "declared as %s%s" % (typ, tail),
                   key="schema | %s.%s is declared `%s` (not %s)" % (role, field, typ, need), where="StateMachine.j2119",
                   message="the validator accepts a value the engine cannot run: " + why)


def _key_tested(g, se, notify, sub):
    """X['K'] is safe when a top-level `if ... or 'K' not in X: ...; return` (every path of its body leaves notify) dominates it"""
    if not isinstance(sub, ast.Subscript):
        return False
    base, key = norm(sub.value), sub.slice.value
    want = "'%s' not in %s" % (key, base)
    st = sub
    while st is not None and not isinstance(st, ast.stmt):
        st = se.parent(st)
    for s in notify.node.body:
        if s.lineno >= st.lineno:
            break
        if isinstance(s, ast.If) and not s.orelse and s.body and isinstance(s.body[-1], ast.Return):
            disj = [norm(v) for v in (s.test.values if isinstance(s.test, ast.BoolOp) and isinstance(s.test.op, ast.Or) else [s.test])]
            if want in disj and g.dominates(g.node_of(s), g.node_of(st)):
                # and the base is not rebound in between
                rebinds = [d for d in name_defs(notify, base) if s.lineno < d.lineno < st.lineno] if base.isidentifier() else [1]
                if not rebinds:
                    return True
    return False


def r4(chk, ctx):
    p = ctx.protocol()
    proto_findings(chk, p, {"C18.R4"})
    se = p.mod
    notify = p.notify
    g = p.eng.cfg(notify)
    starts = [n for n in body_nodes(notify) if isinstance(n, ast.Call) and last(callname(n)) == "start_execution"]
    if not starts:
        raise AnalysisError("anchor not found: start_execution call in notify")
    sn = g.containing_stmt_node(starts[0], se)
    after = g.reachable_from(sn)
    JSONISH = {"ASL", "state", "context", "event", "ctx_state_machine", "state_machine", "data"}
    sinks = {}
    for nid in after:
        node = g.nodes[nid]
        if node.kind not in ("stmt", "test", "with") or node.ast is None:
            continue
        exprs = [node.ast.test] if node.kind == "test" else ([i.context_expr for i in node.ast.items] if node.kind == "with" else [node.ast])
        for e in exprs:
            for x in ast.walk(e):
                if isinstance(x, (ast.FunctionDef, ast.Lambda)):
                    continue
                sink = None
                if isinstance(x, ast.Subscript) and isinstance(x.ctx, ast.Load) and isinstance(x.slice, ast.Constant) and isinstance(x.slice.value, str):
                    b = x.value
                    while isinstance(b, ast.Subscript):
                        b = b.value
                    if isinstance(b, ast.Name) and b.id in JSONISH:
                        sink = norm(x)
                elif isinstance(x, ast.Call) and callname(x) == "find_state":
                    sink = "find_state(...)"
                if sink is None:
                    continue
                if se.enclosing_func(x) is not notify:
                    continue
                covered = in_try_with_handler(se, x, notify.node, ("Exception",)) or _key_tested(g, se, notify, x)
                # context["State"]/context["Execution"]["Id"] were just (re)written by notify/start_execution on this path
                sinks.setdefault(sink, []).append((x, covered))
    guaranteed = {"context['State']", "context['Execution']", "context['Execution']['Id']"}
    n = 0
    for sink, occ in sorted(sinks.items()):
        if sink in guaranteed:
            continue
        n += 1
        bad = [x for x, c in occ if not c]
        chk.ob("C18.R4", "notify: `%s` is covered by the handler that fails the execution" % sink, not bad, "",
               key="%s | may-raise `%s` after RUNNING was announced, outside the catch-all" % (notify.qname, sink), where=se.line(bad[0]) if bad else notify.where(),
               message="a definition the engine cannot interpret raises here: the exception escapes to the dispatcher, the event is dropped and the execution stays RUNNING")
    chk.floor("C18.R4", n, 2, "may-raise sinks of notify after start_execution")
    # dispatch: poison arms acknowledge (C03.R3) and use only names bound before the try
    c03.r3(chk, ctx)
    c03.r3b(chk, ctx)


def r5(chk, ctx):
    sl = ctx.mod("statelint")
    NEED = {"get": "dict", "items": "dict", "keys": "dict", "values": "dict", "endswith": "str", "startswith": "str"}
    total = 0
    for q, f in sorted(sl.funcs.items()):
        if not q.startswith("StateNode."):
            continue
        params = {a.arg for a in f.node.args.args} - {"self", "path", "problems", "field", "field_name"}
        for n in body_nodes(f):
            if not (isinstance(n, ast.Call) and isinstance(n.func, ast.Attribute) and n.func.attr in NEED and isinstance(n.func.value, ast.Name)):
                continue
            v = n.func.value.id
            if v in ("self", "problems", "path"):
                continue
            total += 1
            need = NEED[n.func.attr]
            ok = _guarded(sl, f, n, v, need)
            chk.ob("C18.R5", "%s: %s.%s guarded by isinstance(%s, %s)" % (q, v, n.func.attr, v, need), ok, "",
                   key="%s | `%s.%s(...)` on a JSON value whose kind is not tested" % (q, v, n.func.attr), where=sl.line(n),
                   message="the validator must report problems rather than raise, for any JSON value")
        # membership tests and subscripts on a document value need the same guard
        docvars = set(params)
        for n in body_nodes(f):
            if isinstance(n, ast.For) and norm(n.iter).endswith((".items()", ".values()")):
                tg = n.target.elts[-1] if isinstance(n.target, ast.Tuple) else n.target
                if isinstance(tg, ast.Name):
                    docvars.add(tg.id)
        for n in body_nodes(f):
            v = None
            if isinstance(n, ast.Compare) and len(n.ops) == 1 and isinstance(n.ops[0], (ast.In, ast.NotIn)) and isinstance(n.comparators[0], ast.Name) and n.comparators[0].id in docvars:
                v, what = n.comparators[0].id, "`%s`" % norm(n)
            elif isinstance(n, ast.Subscript) and isinstance(n.ctx, ast.Load) and isinstance(n.value, ast.Name) and n.value.id in docvars and not isinstance(n.slice, ast.Slice):
                v, what = n.value.id, "`%s`" % norm(n)
            if v is None:
                continue
            total += 1
            ok = _guarded(sl, f, n, v, "dict") or _guarded(sl, f, n, v, "list") or _guarded(sl, f, n, v, "str")
            chk.ob("C18.R5", "%s: %s guarded by a kind test of %s" % (q, what, v), ok, "",
                   key="%s | %s on a JSON value whose kind is not tested" % (q, what), where=sl.line(n),
                   message="`x in 5` / `5['k']` raise TypeError: the validator must report problems rather than raise, for any JSON value")
    chk.floor("C18.R5", total, 10, "attribute calls on JSON values in StateNode")


_depth = [0]


def _guarded(m, f, call, v, need):
    # (a) enclosing if / conditional expression / and-chain that tests isinstance(v, need)
    n = call
    while n is not None and n is not f.node:
        p = m.parent(n)
        if isinstance(p, ast.If) and any(n is s for s in p.body) and _has_isinstance(p.test, v, need):
            return True
        if isinstance(p, ast.BoolOp) and isinstance(p.op, ast.And):
            idx = [i for i, x in enumerate(p.values) if any(y is call for y in ast.walk(x))]
            if idx and any(_has_isinstance(x, v, need) for x in p.values[:idx[0]]):
                return True
        n = p
    # (b) early return: `if not isinstance(v, need): return` (possibly or-ed) before the call
    for s in f.node.body:
        if s.lineno >= call.lineno:
            break
        if isinstance(s, ast.If) and any(isinstance(r, ast.Return) for r in s.body):
            for k in ("str0", "int", "list", "null", "str", "float", "true"):
                pass
            bad_kinds = [k for k in KINDS if k not in PYTYPE[need]]
            if all(kind_truth(s.test, v, k) is True for k in bad_kinds):
                return True
    # (e) v is a parameter of a private helper: every call site in the class passes a value guarded in the caller
    params = [a.arg for a in f.node.args.args]
    if v in params and f.cls:
        idx = params.index(v) - 1
        sites = []
        for q2, f2 in m.funcs.items():
            if f2.cls != f.cls or f2 is f:
                continue
            for c in body_nodes(f2):
                if isinstance(c, ast.Call) and callname(c) == "self." + f.name and len(c.args) > idx:
                    sites.append((f2, c))
        if sites and _depth[0] < 3:
            _depth[0] += 1
            try:
                if all(isinstance(c.args[idx], ast.Name) and _guarded(m, f2, c, c.args[idx].id, need) for f2, c in sites):
                    return True
            finally:
                _depth[0] -= 1
    # (c) v is a loop key over X.items() (dict keys are strings in JSON)
    for n in body_nodes(f):
        if isinstance(n, ast.For) and isinstance(n.target, ast.Tuple) and n.target.elts and isinstance(n.target.elts[0], ast.Name) and n.target.elts[0].id == v and norm(n.iter).endswith(".items()") and need == "str":
            return True
    # (d) v bound from a guarded source: `states = node["States"]` under is_machine_top etc.
    for d in name_defs(f, v):
        if not isinstance(d, ast.Assign):
            continue            # loop targets are not covered by a guard on the iterable
        for i, arm in enclosing_ifs(m, d, f.node):
            if arm == "body" and isinstance(i.test, ast.Name):
                td = [x for x in name_defs(f, i.test.id) if isinstance(x, ast.Assign)]
                if td and ("isinstance(%s, %s)" % (norm(d.value), need)) in norm(td[0].value):
                    return True
    return False


def _has_isinstance(test, v, need):
    for c in ast.walk(test):
        if isinstance(c, ast.Call) and isinstance(c.func, ast.Name) and c.func.id == "isinstance" and len(c.args) == 2 and norm(c.args[0]) == v:
            t = c.args[1]
            names = [e.id for e in (t.elts if isinstance(t, ast.Tuple) else [t]) if isinstance(e, ast.Name)]
            if names == [need]:
                # must not be negated
                neg = False
                for u in ast.walk(test):
                    if isinstance(u, ast.UnaryOp) and isinstance(u.op, ast.Not) and any(y is c for y in ast.walk(u.operand)):
                        neg = True
                if not neg:
                    return True
    return False


def r6(chk, ctx):
    """state-name uniqueness: names of a States object are registered before its children are descended into"""
    sl = ctx.mod("statelint")
    f = sl.func("StateNode.check")
    g = CFG(f.node)
    regs = [n for n in body_nodes(f) if isinstance(n, ast.Assign) and any(isinstance(t, ast.Subscript) and norm(t.value) == "self.all_state_names" for t in n.targets)]
    tests = [n for n in body_nodes(f) if isinstance(n, ast.Compare) and len(n.ops) == 1 and isinstance(n.ops[0], ast.In) and norm(n.comparators[0]) == "self.all_state_names"]
    recs = [n for n in body_nodes(f) if isinstance(n, ast.Call) and callname(n) == "self.check"]
    chk.ob("C18.R6", "StateNode.check registers state names and tests them for duplicates", bool(regs) and bool(tests) and bool(recs), "",
           key="StateNode.check | uniqueness bookkeeping incomplete", where=f.where(), message="state names must be unique across the whole machine, nested machines included")
    for r in regs:
        rn = g.node_of(r)
        for c in recs:
            cn = g.containing_stmt_node(c, sl)
            ok = cn in g.reachable_from(rn) and rn not in g.reachable_from(cn)
            chk.ob("C18.R6", "registration of a level's state names precedes the descent into its children", ok, "",
                   key="StateNode.check | state names registered after (or not before) the recursive descent", where=sl.line(r),
                   message="a nested state that reuses the name of an enclosing-level state is then not reported, and the engine fails such an execution as an illegal (non-unique) state machine")
    for r in regs:
        gi = enclosing_ifs(sl, r, f.node)
        ok = any(arm == "orelse" and any(x is t for t in tests for x in ast.walk(i.test)) for i, arm in gi)
        chk.ob("C18.R6", "a name is registered exactly when it was not already known", ok, "", key="StateNode.check | registration not in the else-arm of the duplicate test", where=sl.line(r), message="")


def r7(chk, ctx):
    """the semantic walk descends into every member; the engine resolves a nested state in its innermost States object"""
    sl = ctx.mod("statelint")
    f = sl.func("StateNode.check")
    loops = [l for l in body_nodes(f) if isinstance(l, ast.For) and norm(l.iter) == "node.items()" and any(isinstance(c, ast.Call) and callname(c) == "self.check" for c in ast.walk(l))]
    chk.ob("C18.R7", "StateNode.check recurses over node.items()", len(loops) == 1, "", key="StateNode.check | recursion loop", where=f.where(), message="")
    if loops:
        lp = loops[0]
        keyvar = lp.target.elts[0].id if isinstance(lp.target, ast.Tuple) else None
        filt = [i for i in ast.walk(lp) if isinstance(i, (ast.If, ast.IfExp)) and any(isinstance(x, ast.Name) and x.id == keyvar for x in ast.walk(i.test))]
        skips = [x for x in ast.walk(lp) if isinstance(x, ast.Continue)]
        chk.ob("C18.R7", "no member is skipped by its NAME", not filt and not skips, [norm(i.test) for i in filt],
               key="StateNode.check | members are skipped by name (%s)" % [norm(i.test) for i in filt], where=sl.line(filt[0]) if filt else f.where(),
               message="the same loop walks the States object, whose member names are state names chosen by the user: a state called Result / Parameters / ... would never be checked")
    se = ctx.mod("state_engine")
    fs = se.func("find_state")
    sp_ = [x for x in name_defs(fs, "states_path") if isinstance(x, ast.Assign)]
    ok = len(sp_) == 1 and norm(sp_[0].value) == "path[0].rpartition(\"['States']\")[0]".replace('\\"', '"')
    ok = ok or (len(sp_) == 1 and "rpartition(" in norm(sp_[0].value) and "['States']" in norm(sp_[0].value) and norm(sp_[0].value).endswith("[0]"))
    chk.ob("C18.R7", "find_state takes the owning States object at the LAST ['States'] segment of the match", ok, norm(sp_[0].value) if sp_ else "",
           key="find_state | owning States object derived by `%s`" % (norm(sp_[0].value) if sp_ else "?"), where=fs.where(),
           message="with two or more levels of Parallel/Map nesting the first segment is an outer machine: a validator-clean machine fails as 'non-existent state ... Illegal State Machine'")
    txt = [norm(s) for s in ast.walk(fs.node) if isinstance(s, ast.stmt)]
    ok = "state = current_state_machine.get(current_state)" in txt and "branch = apply_jsonpath(current_state_machine, states_path)" in txt and "current_state_machine = branch['States']" in txt
    chk.ob("C18.R7", "find_state: direct lookup first, then the recursive-descent lookup", ok, "", key="find_state | lookup steps", where=fs.where(), message="")


def run(chk, ctx):
    from . import generic
    generic.definite_assignment(chk, ctx, ['statelint', 'j2119'], "C18.DA")   # no local is read before it is bound (UnboundLocalError = an arbitrary exception)
    r7(chk, ctx)
    r6(chk, ctx)
    r1(chk, ctx)
    r2(chk, ctx)
    r3(chk, ctx)
    r4(chk, ctx)
    r5(chk, ctx)
    from . import round3
    round3.validator_stateless(chk, ctx)
    round3.drop_arm_acks_directly(chk, ctx)
    round3.validator_hashless(chk, ctx)
    from . import round4
    round4.regex_on_strings_only(chk, ctx)
    chk.assume("JSON object keys are strings; the 12 JSON kinds enumerate every value json.loads can produce")
