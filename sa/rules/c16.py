"""C16 - service quotas are enforced at the exact boundary (structural clauses)."""
import ast

from ..core import AnalysisError, dotted, callname, last, const, short, norm
from ..cfg import CFG
from ..util import body_nodes, name_defs, enclosing_stmt
from .shared import proto_findings

EXPLANATION = (
    "Static analysis of the current /repo source. Decides: (R1) the limit constants have the documented values (262144, 1048576, "
    "25000; names 1..80) in every module that defines or imports them and are never rebound; (R2) every comparison against a "
    "limit in the package is the strict form len(text) > LIMIT (definitions: len == 0 or len > LIMIT; names: len > 0 and len < 81), "
    "sits in a test whose true arm rejects, and all enforcement points confirmed by hand are still present; (R3) what is measured "
    "is text, not bytes; (R4) every hand-over of a state's output passes through the size test, and an error returned by "
    "change_state is never discarded (C02.R5). Given len() semantics the boundary clause IS the operator and the constant."
    " (R7) every enforcement point of the data quota measures the JSON text: a point that has only the value serialises it compactly (separators=(',', ':'), ensure_ascii=False) instead of measuring a padded, escaped rendering; reported on the current tree as D75 (change_state, end_execution).")
RULE_TEXT = "obligation = one constant definition / comparison site / hand-over function; non-trivial = distinct (rule, site)"

LIMITS = {"MAX_DATA_LENGTH": 262144, "MAX_STATE_MACHINE_LENGTH": 1048576, "MAX_EXECUTION_HISTORY_LENGTH": 25000}
MODS = ("state_engine", "task_dispatcher", "rest_api", "rest_api_asyncio", "event_dispatcher", "state_engine_paths")


def r1(chk, ctx):
    defs = 0
    for name in MODS:
        m = ctx.mod(name)
        for n in ast.walk(m.tree):
            targets = []
            if isinstance(n, ast.Assign):
                targets = [t for t in n.targets if isinstance(t, ast.Name)]
            elif isinstance(n, (ast.AugAssign, ast.AnnAssign)) and isinstance(n.target, ast.Name):
                targets = [n.target]
            for t in targets:
                if t.id in LIMITS:
                    defs += 1
                    top = m.parent(n) is m.tree
                    v = getattr(n, "value", None)
                    ok = top and isinstance(n, ast.Assign) and isinstance(v, ast.Constant) and v.value == LIMITS[t.id] and type(v.value) is int
                    chk.ob("C16.R1", "%s: %s = %s" % (name, t.id, norm(v) if v is not None else "?"), ok, "",
                           key="%s | %s is not the documented constant %d" % (name, t.id, LIMITS[t.id]), where=m.line(n),
                           message="the quota must be exactly %d" % LIMITS[t.id])
        # imports must come from a module that defines them
        for n in m.tree.body:
            if isinstance(n, ast.ImportFrom):
                for a in n.names:
                    if a.name in LIMITS:
                        src = (n.module or "").rsplit(".", 1)[-1]
                        sm = ctx.repo.modules.get(src)
                        ok = sm is not None and any(isinstance(x, ast.Assign) and any(isinstance(t, ast.Name) and t.id == a.name for t in x.targets) for x in sm.tree.body) and (a.asname in (None, a.name))
                        chk.ob("C16.R1", "%s imports %s from %s" % (name, a.name, src), ok, "", key="%s | import of %s" % (name, a.name), where=m.line(n), message="")
    chk.floor("C16.R1", defs, 4, "limit constant definitions")
    # names: 1..80
    for name in ("rest_api", "rest_api_asyncio"):
        m = ctx.mod(name)
        f = m.func("valid_name")
        cmps = [norm(c) for c in ast.walk(f.node) if isinstance(c, ast.Compare) and "len(" in norm(c)]
        ok = sorted(cmps) == ["len(name) < 81", "len(name) > 0"]
        chk.ob("C16.R1", "%s.valid_name: 0 < len(name) < 81" % name, ok, str(cmps), key="%s.valid_name | name length bounds %s" % (name, sorted(cmps)), where=f.where(),
               message="names are accepted iff 1..80 characters")
        ret = [s for s in f.node.body if isinstance(s, ast.Return)]
        ok = len(ret) == 1 and isinstance(ret[0].value, ast.BoolOp) and isinstance(ret[0].value.op, ast.And) and norm(ret[0].value.values[0]) == "isinstance(name, str)"
        chk.ob("C16.R1", "%s.valid_name: conjunction guarded by isinstance(name, str)" % name, ok, "", key="%s.valid_name | shape" % name, where=f.where(), message="")


def _limit_of(node):
    if isinstance(node, ast.Name) and node.id in LIMITS:
        return node.id
    if isinstance(node, ast.Constant) and type(node.value) is int and node.value in LIMITS.values():
        return [k for k, v in LIMITS.items() if v == node.value][0]
    if isinstance(node, ast.BinOp):
        # LIMIT + 1 style expressions are never the exact boundary
        for x in ast.walk(node):
            if isinstance(x, ast.Name) and x.id in LIMITS:
                return "expr:" + x.id
    return None


def comparisons(ctx):
    out = []
    for name in MODS:
        m = ctx.mod(name)
        for q, f in m.funcs.items():
            for n in body_nodes(f):
                if isinstance(n, ast.Compare):
                    sides = [n.left] + list(n.comparators)
                    lim = [(_limit_of(s), i) for i, s in enumerate(sides) if _limit_of(s)]
                    if lim:
                        out.append((m, f, n, lim))
    return out


def _rejects(body):
    """true arm rejects: returns an error / assigns an error result / calls handle_error"""
    for s in body:
        for x in ast.walk(s):
            if isinstance(x, ast.Return):
                return True
            if isinstance(x, ast.Call) and last(callname(x)) in ("handle_error",):
                return True
            if isinstance(x, ast.Dict) and any(const(k) == "errorType" for k in x.keys):
                return True
            if isinstance(x, ast.Dict) and any(const(k) == "Error" and const(v) == "States.DataLimitExceeded" for k, v in zip(x.keys, x.values)):
                return True     # end_execution: the output is replaced by the in-band error object and the execution fails
    return False


def r2_r3(chk, ctx):
    cmps = comparisons(ctx)
    chk.floor("C16.R2", len(cmps), 11, "comparisons against a limit constant")
    points = {}
    for m, f, n, lim in cmps:
        limname = lim[0][0]
        site = "%s: %s" % (f.qname, short(n, 70))
        ok = len(n.ops) == 1 and not limname.startswith("expr:")
        measured = None
        if ok:
            op, l, r = n.ops[0], n.left, n.comparators[0]
            if _limit_of(r) and isinstance(op, ast.Gt):
                measured = l
            elif _limit_of(l) and isinstance(op, ast.Lt):
                measured = r
            else:
                ok = False
        chk.ob("C16.R2", site, ok, "", key="%s | limit comparison `%s` is not the strict `len(x) > LIMIT`" % (f.qname, norm(n)), where=m.line(n),
               message="values exactly at a limit are accepted and values one over are refused: the test must be strictly-greater against the bare constant")
        if not ok:
            continue
        # measured quantity is a length
        is_len = isinstance(measured, ast.Call) and isinstance(measured.func, ast.Name) and measured.func.id == "len"
        lenarg = measured.args[0] if is_len else None
        if not is_len and isinstance(measured, ast.Name):
            d = [x for x in name_defs(f, measured.id) if isinstance(x, ast.Assign)]
            if len(d) == 1 and isinstance(d[0].value, ast.Call) and isinstance(d[0].value.func, ast.Name) and d[0].value.func.id == "len":
                is_len, lenarg = True, d[0].value.args[0]
        chk.ob("C16.R2", site + " measures a length", is_len, "", key="%s | `%s` compares something that is not a length" % (f.qname, norm(n)), where=m.line(n), message="")
        # the comparison decides a rejecting arm, un-negated
        st = enclosing_stmt(m, n)
        rej = isinstance(st, ast.If) and _rejects(st.body) and not _under_not(st.test, n)
        chk.ob("C16.R2", site + " selects a rejecting arm", rej, "", key="%s | `%s` does not guard a rejection" % (f.qname, norm(n)), where=m.line(n),
               message="exceeding the limit must refuse the value")
        if limname == "MAX_STATE_MACHINE_LENGTH" and isinstance(st, ast.If):
            t = norm(st.test)
            ok2 = isinstance(st.test, ast.BoolOp) and isinstance(st.test.op, ast.Or) and any(norm(v) == "len(%s) == 0" % norm(lenarg) for v in st.test.values)
            chk.ob("C16.R2", site + " also refuses the empty definition", ok2, t, key="%s | definition test lacks `len == 0`" % f.qname, where=m.line(n), message="a definition is accepted iff non-empty and at most 1048576 characters")
        points.setdefault(limname, []).append(f.qname)
        # API handlers must measure the text they received, not a re-serialisation of it
        if f.name.startswith("aws_api_") and lenarg is not None:
            src_ok = False
            if isinstance(lenarg, ast.Name):
                ds = [x for x in name_defs(f, lenarg.id) if isinstance(x, ast.Assign) and x.lineno < n.lineno]
                src_ok = bool(ds) and all(isinstance(x.value, ast.Call) and norm(x.value.func) == "params.get" for x in ds)
            chk.ob("C16.R3", "%s measures the received text `%s`" % (f.qname, norm(lenarg)), src_ok, "",
                   key="%s | limit applied to `%s`, which is not the received request text" % (f.qname, norm(lenarg)), where=m.line(n),
                   message="the quota is on the JSON text as sent; a re-serialised value has a different length (separators, escapes, whitespace)")
        if limname == "MAX_EXECUTION_HISTORY_LENGTH":
            from ..util import enclosing_ifs
            gl = enclosing_ifs(m, st, f.node)
            guards = [norm(i.test) for i, arm in gl]
            okg = len(gl) <= 1 and all(arm == "body" and isinstance(i.test, ast.Compare) and len(i.test.ops) == 1 and isinstance(i.test.ops[0], ast.Eq)
                                       and const(i.test.comparators[0]) == "STANDARD" for i, arm in gl)
            chk.ob("C16.R2", "history limit test is guarded only by the STANDARD test", okg, str(guards),
                   key="%s | history limit test under extra guard(s) %s" % (f.qname, guards), where=m.line(n),
                   message="every event handling of a STANDARD execution must pass the history limit test, whatever made the history grow")
        # R3: text, not bytes
        if lenarg is not None and limname == "MAX_DATA_LENGTH":
            src = norm(lenarg)
            bytesy = False
            why = ""
            if isinstance(lenarg, ast.Name):
                for d in name_defs(f, lenarg.id):
                    v = getattr(d, "value", None)
                    if v is not None and (norm(v).endswith(".body") or ".encode(" in norm(v)):
                        bytesy, why = True, "bound from %s" % norm(v)
                for x in body_nodes(f):
                    if isinstance(x, ast.Call) and isinstance(x.func, ast.Attribute) and x.func.attr == "decode" and norm(x.func.value) == lenarg.id:
                        bytesy, why = True, "%s is .decode()d afterwards, so it is a bytes object" % lenarg.id
            chk.ob("C16.R3", "%s measures text in `%s`" % (f.qname, src), not bytesy, why,
                   key="%s | limit applied to a bytes object (%s)" % (f.qname, src), where=m.line(n),
                   message="the quota is in characters of JSON text; the UTF-8 byte count is larger for non-ASCII text, so a legal result is refused")
    # enforcement points confirmed by hand
    expected = {
        "MAX_DATA_LENGTH": ["StateEngine.change_state", "StateEngine.end_execution", "TaskDispatcher.handle_rpcmessage_response", "aws_api_StartExecution", "aws_api_StartExecution",
                            "aws_api_StartSyncExecution", "aws_api_SendTaskSuccess"],
        "MAX_STATE_MACHINE_LENGTH": ["aws_api_CreateStateMachine", "aws_api_CreateStateMachine", "aws_api_UpdateStateMachine", "aws_api_UpdateStateMachine"],
        "MAX_EXECUTION_HISTORY_LENGTH": ["StateEngine.notify"],
    }
    for lim, want in expected.items():
        have = [q.rsplit(".", 1)[-1] if "aws_api_" in q else q for q in points.get(lim, [])]
        for w in sorted(set(want)):
            need = want.count(w)
            got = sum(1 for h in have if h == w or h.endswith("." + w))
            chk.ob("C16.R2", "enforcement point %s x%d for %s" % (w, need, lim), got >= need, "found %d" % got,
                   key="enforcement point missing: %s no longer compares against %s" % (w, lim), where=w,
                   message="an input/output/definition path without its size test accepts values over the quota")


def _under_not(test, n):
    for x in ast.walk(test):
        if isinstance(x, ast.UnaryOp) and isinstance(x.op, ast.Not) and any(y is n for y in ast.walk(x.operand)):
            return True
    return False


def r4(chk, ctx):
    se = ctx.mod("state_engine")
    cs = se.func("StateEngine.change_state")
    g = CFG(cs.node)
    tests = [n for n in body_nodes(cs) if isinstance(n, ast.If) and any(_limit_of(x) == "MAX_DATA_LENGTH" for c in ast.walk(n.test) if isinstance(c, ast.Compare) for x in [c.left] + c.comparators)]
    pubs = [n for n in body_nodes(cs) if isinstance(n, ast.Call) and last(callname(n)) == "publish"]
    chk.ob("C16.R4", "change_state has the size test and publishes", len(tests) == 1 and len(pubs) == 1, "", key="StateEngine.change_state | size test / publish missing", where=cs.where(), message="")
    if len(tests) == 1 and len(pubs) == 1:
        t = tests[0]
        tn, pn = g.node_of(t), g.containing_stmt_node(pubs[0], se)
        ret = [s for s in t.body if isinstance(s, ast.Return)]
        ok = g.dominates(tn, pn) and bool(ret)
        chk.ob("C16.R4", "publish is dominated by the size test whose true arm returns", ok, "", key="StateEngine.change_state | publish not dominated by the size test", where=se.line(pubs[0]),
               message="an oversized output must not be handed to the next state")
        if ret:
            rv = ret[0].value
            ok = isinstance(rv, ast.Tuple) and const(rv.elts[0]) == "States.DataLimitExceeded"
            chk.ob("C16.R4", "size test fails with States.DataLimitExceeded", ok, "", key="StateEngine.change_state | error name of the size test", where=se.line(ret[0]), message="")
        # what is measured is the JSON text of the event data
        lenarg = None
        for c in ast.walk(t.test):
            if isinstance(c, ast.Call) and isinstance(c.func, ast.Name) and c.func.id == "len":
                lenarg = c.args[0]
        d = name_defs(cs, lenarg.id) if isinstance(lenarg, ast.Name) else []
        ok = len(d) == 1 and norm(d[0].value) == "json.dumps(data)"
        dd = name_defs(cs, "data")
        ok = ok and len(dd) == 1 and norm(dd[0].value) == "event['data']"
        chk.ob("C16.R4", "measured text is json.dumps(event['data'])", ok, "", key="StateEngine.change_state | measured text", where=cs.where(), message="")
    # the terminal hand-over: handle_terminal_state -> end_execution
    p = ctx.protocol()
    for f in (p.ht, se.func("StateEngine.end_execution")):
        has = any(isinstance(c, ast.Compare) and any(_limit_of(x) == "MAX_DATA_LENGTH" for x in [c.left] + c.comparators) for c in body_nodes(f))
        if f is p.ht:
            ht_has = has
            continue
        chk.ob("C16.R4", "terminal hand-over (handle_terminal_state -> end_execution) passes the size test", has or ht_has, "",
               key="terminal path | no size test between the state's output and end_execution", where=f.where(),
               message="a terminal state's output becomes the execution output without the 262144-character check")
    # a discarded change_state error is C02.R5's finding; include the protocol's verdict for this clause
    proto_findings(chk, p, {"C02.R5"}, func_filter=lambda r: "discarded" in r.get("key", "") or "key" not in r)


def run(chk, ctx):
    from . import round5
    round5.quota_measures_the_json_text(chk, ctx)
    from . import c17
    c17.r1(chk, ctx)      # 'names iff 1..80 characters without the forbidden characters'
    r1(chk, ctx)
    r2_r3(chk, ctx)
    r4(chk, ctx)
    from . import round3
    round3.reply_size_on_received_text(chk, ctx)
    from . import round4
    round4.measured_is_forwarded(chk, ctx)
    round4.frontends_read_alike(chk, ctx)    # an empty name is refused by both front ends
    chk.assume("len() of a str counts characters (code points), which is what the service quota counts")
