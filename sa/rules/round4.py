"""Rules written while the fourth blind round was running (not tuned to it: they were written before its changes were seen)."""
import ast

from ..core import AnalysisError, dotted, callname, last, const, short, norm, strip_await
from ..util import body_nodes, name_defs, enclosing_stmt, enclosing_ifs


# ---------------------------------------------------------------------------------------------------------------------
# C15.R10 / C02: every path through a Task's service launcher produces exactly one outcome for the waiting Task:
#   REG  - the request is registered in pending_requests (a reply, a child's end or the timer will complete it), or
#   ERR  - send_error_callback(...) (the Task fails now), or
#   CB   - callback(result) (the Task completes now: fire-and-forget child).
# No outcome: the Task's event was consumed and nothing will ever complete it (execution RUNNING for ever).
# Two outcomes: the Task completes twice (two continuations).
def task_outcome_once(chk, ctx):
    from ..flow import FlowEngine, State
    td = ctx.mod("task_dispatcher")
    ext = td.func("TaskDispatcher.execute_task")
    eng = FlowEngine(ctx.repo, ctx.res, depth=3)
    sec = ext.children.get("send_error_callback")
    if sec is None:
        raise AnalysisError("anchor not found: execute_task.send_error_callback")
    eng.effects = {sec.qname: "ERR"}
    eng.effects_by_name = {"callback": "CB"}

    def on_effect(e, func, call, st, tag, node):
        if tag in ("ERR", "CB"):
            return [(st._replace(conts=st.conts + 1, flags=st.flags | {tag}), None)]
        return None

    def stmt_hook(e, func, node, st):
        a = node.ast
        if isinstance(a, ast.Assign) and any(isinstance(t, ast.Subscript) and norm(t.value) == "self.pending_requests" for t in a.targets):
            return st._replace(conts=st.conts + 1, flags=st.flags | {"REG"})
        return st

    role = {"on_effect": on_effect, "stmt_hook": stmt_hook}
    entries = [f for n, f in sorted(ext.children.items()) if n.startswith("asl_service_")]
    chk.floor("C15.R10", len(entries), 4, "service launchers of execute_task")
    total = 0
    for f in entries:
        exits = eng.run(f, State(False, 0, False, frozenset(), frozenset()), role)
        seen = set()
        n_exits = 0
        for kind, st, rv, key in exits:
            if kind != "normal":
                continue
            n_exits += 1
            g = eng._last_cfg
            last_stmt = g.nodes[key[0]].ast if key and key[0] in g.nodes else None
            gi = [norm(i.test)[:70] + ("" if arm == "body" else " [else]") for i, arm in enclosing_ifs(td, last_stmt, f.node)] if last_stmt is not None and td.enclosing_func(last_stmt) in (f, f.node) else []
            sig = " / ".join(reversed(gi)) or "end of function"
            if st.conts == 1:
                continue
            what = "no outcome" if st.conts == 0 else "%d outcomes (%s)" % (st.conts, "+".join(sorted(st.flags)))
            if (what, sig) in seen:
                continue
            seen.add((what, sig))
            chk.ob("C15.R10", "%s: exactly one outcome on every path" % f.name, False, "%s on the path ending under: %s" % (what, sig),
                   key="%s | %s on the path ending under: %s" % (f.qname, what, sig), where=f.where(last_stmt) if last_stmt is not None else f.where(), path=eng.trail(key, limit=30),
                   message="a Task whose launcher neither registers the request, nor fails, nor completes it is never completed by anything: the execution stays RUNNING for ever; two outcomes complete it twice")
        total += n_exits
        if not seen:
            chk.ob("C15.R10", "%s: exactly one outcome (registered / failed / completed) on each of its %d exit paths" % (f.name, n_exits), True, "")
    chk.floor("C15.R10", total, 8, "exit paths of the service launchers")
    # the prelude of execute_task itself: a return before the dispatch must have failed the Task
    sites = [n for n in ast.walk(ext.node) if isinstance(n, ast.Call) and isinstance(n.func, ast.Call) and "locals" in norm(n.func)]
    disp = [n for n in sites if td.enclosing_func(n) in (ext, ext.node)]
    chk.ob("C15.R10", "execute_task ends with the prefix dispatch on the service name", len(disp) == 1 and enclosing_stmt(td, disp[0]) is ext.node.body[-1], "",
           key="%s | service dispatch is not the last statement" % ext.qname, where=ext.where(), message="")
    for r in [s for s in ext.node.body if isinstance(s, ast.If)]:
        rets = [x for x in r.body if isinstance(x, ast.Return)]
        if rets:
            ok = any(isinstance(x, ast.Expr) and isinstance(x.value, ast.Call) and callname(x.value) == "send_error_callback" for x in r.body)
            chk.ob("C15.R10", "execute_task: early return under `%s` fails the Task first" % short(r.test, 50), ok, "", key="%s | early return under `%s` without an outcome" % (ext.qname, norm(r.test)), where=td.line(r), message="")
