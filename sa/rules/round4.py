"""Rules written while the fourth blind round was running (not tuned to it: they were written before its changes were seen)."""
import ast

from ..core import AnalysisError, dotted, callname, last, const, short, norm, strip_await
from ..util import body_nodes, name_defs, enclosing_stmt, enclosing_ifs


# ---------------------------------------------------------------------------------------------------------------------
# C15.R10 / C02: every path through a Task's service launcher produces exactly one outcome for the waiting Task:
#   REG  - the request is registered in pending_requests (a reply, a child's end or the timer will complete it), or
#   ERR  - send_error_callback(...) (the Task fails now), or
#   CB   - callback(result) (the Task completes now: fire-and-forget child).
# No outcome: the Task's event was consumed and nothing will ever complete it (execution RUNNING for ever).
# Two outcomes: the Task completes twice (two continuations).
def task_outcome_once(chk, ctx):
    from ..flow import FlowEngine, State
    td = ctx.mod("task_dispatcher")
    ext = td.func("TaskDispatcher.execute_task")
    eng = FlowEngine(ctx.repo, ctx.res, depth=3)
    sec = ext.children.get("send_error_callback")
    if sec is None:
        raise AnalysisError("anchor not found: execute_task.send_error_callback")
    eng.effects = {sec.qname: "ERR"}
    eng.effects_by_name = {"callback": "CB"}

    def on_effect(e, func, call, st, tag, node):
        if tag in ("ERR", "CB"):
            return [(st._replace(conts=st.conts + 1, flags=st.flags | {tag}), None)]
        return None

    def stmt_hook(e, func, node, st):
        a = node.ast
        if isinstance(a, ast.Assign) and any(isinstance(t, ast.Subscript) and norm(t.value) == "self.pending_requests" for t in a.targets):
            return st._replace(conts=st.conts + 1, flags=st.flags | {"REG"})
        return st

    role = {"on_effect": on_effect, "stmt_hook": stmt_hook}
    entries = [f for n, f in sorted(ext.children.items()) if n.startswith("asl_service_")]
    chk.floor("C15.R10", len(entries), 4, "service launchers of execute_task")
    total = 0
    for f in entries:
        exits = eng.run(f, State(False, 0, False, frozenset(), frozenset()), role)
        seen = set()
        n_exits = 0
        for kind, st, rv, key in exits:
            if kind != "normal":
                continue
            n_exits += 1
            g = eng._last_cfg
            last_stmt = g.nodes[key[0]].ast if key and key[0] in g.nodes else None
            gi = [norm(i.test)[:70] + ("" if arm == "body" else " [else]") for i, arm in enclosing_ifs(td, last_stmt, f.node)] if last_stmt is not None and td.enclosing_func(last_stmt) in (f, f.node) else []
            sig = " / ".join(reversed(gi)) or "end of function"
            if st.conts == 1:
                continue
            what = "no outcome" if st.conts == 0 else "%d outcomes (%s)" % (st.conts, "+".join(sorted(st.flags)))
            if (what, sig) in seen:
                continue
            seen.add((what, sig))
            chk.ob("C15.R10", "%s: exactly one outcome on every path" % f.name, False, "%s on the path ending under: %s" % (what, sig),
                   key="%s | %s on the path ending under: %s" % (f.qname, what, sig), where=f.where(last_stmt) if last_stmt is not None else f.where(), path=eng.trail(key, limit=30),
                   message="a Task whose launcher neither registers the request, nor fails, nor completes it is never completed by anything: the execution stays RUNNING for ever; two outcomes complete it twice")
        total += n_exits
        if not seen:
            chk.ob("C15.R10", "%s: exactly one outcome (registered / failed / completed) on each of its %d exit paths" % (f.name, n_exits), True, "")
    chk.floor("C15.R10", total, 8, "exit paths of the service launchers")
    # the prelude of execute_task itself: a return before the dispatch must have failed the Task
    sites = [n for n in ast.walk(ext.node) if isinstance(n, ast.Call) and isinstance(n.func, ast.Call) and "locals" in norm(n.func)]
    disp = [n for n in sites if td.enclosing_func(n) in (ext, ext.node)]
    chk.ob("C15.R10", "execute_task ends with the prefix dispatch on the service name", len(disp) == 1 and enclosing_stmt(td, disp[0]) is ext.node.body[-1], "",
           key="%s | service dispatch is not the last statement" % ext.qname, where=ext.where(), message="")
    for r in [s for s in ext.node.body if isinstance(s, ast.If)]:
        rets = [x for x in r.body if isinstance(x, ast.Return)]
        if rets:
            ok = any(isinstance(x, ast.Expr) and isinstance(x.value, ast.Call) and callname(x.value) == "send_error_callback" for x in r.body)
            chk.ob("C15.R10", "execute_task: early return under `%s` fails the Task first" % short(r.test, 50), ok, "", key="%s | early return under `%s` without an outcome" % (ext.qname, norm(r.test)), where=td.line(r), message="")


# =====================================================================================================================
# Rules added after the fourth blind round had been measured (DESIGN 8.6)
# =====================================================================================================================
from ..cfg import CFG


class _F:
    def __init__(self, node):
        self.node = node


def _positive(rule, matcher, src, what):
    if not matcher(ast.parse(src)):
        raise AnalysisError("%s: the matcher no longer recognises its own positive example (%s)" % (rule, what))


# C03.R10: an entry of orphaned_responses is removed only together with its retention timer (or by that timer's own handler)
def orphan_entry_timer_paired(chk, ctx):
    td = ctx.mod("task_dispatcher")
    n = 0
    for q, f in sorted(td.funcs.items()):
        rem = [s for s in body_nodes(f) if isinstance(s, ast.Delete) and any(isinstance(t, ast.Subscript) and norm(t.value) == "self.orphaned_responses" for t in s.targets)]
        rem += [enclosing_stmt(td, c) for c in body_nodes(f) if isinstance(c, ast.Call) and norm(c.func) == "self.orphaned_responses.pop"]
        for r in rem:
            n += 1
            if f.name == "log_and_acknowledge_orphaned_responses":
                chk.ob("C03.R10", "%s: expiry handler removes its own entry" % f.name, True, "")
                continue
            clears = [c for c in body_nodes(f) if isinstance(c, ast.Call) and last(callname(c)) == "clear_timeout" and norm(c.args[0]) == "timeout_id"]
            # the cleared id must be the one unpacked from the entry being removed, in the same block
            blk = getattr(td.parent(r), "body", []) + getattr(td.parent(r), "orelse", [])
            same = [c for c in clears if any(enclosing_stmt(td, c) is s for s in blk)]
            unp = [s for s in blk if isinstance(s, ast.Assign) and isinstance(s.targets[0], ast.Tuple) and "timeout_id" in [norm(e) for e in s.targets[0].elts] and "orphaned_response" in norm(s.value)]
            ok = bool(same) and bool(unp)
            chk.ob("C03.R10", "%s: removing a retained reply also clears its retention timer" % f.name, ok, "",
                   key="%s | a retained reply is removed from orphaned_responses without clearing its retention timer" % q, where=td.line(r),
                   message="the retention timer's handler acknowledges whatever is stored under that correlation id when it fires: if the entry is removed but the timer stays armed, it later "
                           "removes and acknowledges a different (duplicate) reply's entry, or acknowledges the first reply a second time")
    chk.floor("C03.R10", n, 2, "removals from orphaned_responses")


# C04.R7: a stored instant is only compared with readings of the clock it was taken from
def clock_domains(chk, ctx):
    def clock(e):
        for x in ast.walk(e):
            if isinstance(x, ast.Call) and norm(x.func) in ("time.time", "time.monotonic", "time.perf_counter"):
                return norm(x.func)
        return None
    n = 0
    for mn in ("task_dispatcher", "state_engine", "event_dispatcher"):
        m = ctx.mod(mn)
        stored = {}
        for q, f in m.funcs.items():
            for s in body_nodes(f):
                if isinstance(s, ast.Assign) and len(s.targets) == 1 and isinstance(s.targets[0], ast.Attribute) and norm(s.targets[0].value) == "self" and clock(s.value):
                    stored.setdefault(s.targets[0].attr, set()).add(clock(s.value))
        for q, f in sorted(m.funcs.items()):
            for b in body_nodes(f):
                if isinstance(b, ast.BinOp) and isinstance(b.op, ast.Sub):
                    for side, other in ((b.left, b.right), (b.right, b.left)):
                        if isinstance(other, ast.Attribute) and norm(other.value) == "self" and other.attr in stored and clock(side):
                            n += 1
                            ok = stored[other.attr] == {clock(side)}
                            chk.ob("C04.R7", "%s: `%s` subtracts readings of one clock" % (q, short(b, 50)), ok, "self.%s is taken from %s" % (other.attr, sorted(stored[other.attr])),
                                   key="%s | `%s` mixes %s with self.%s taken from %s" % (q, norm(b), clock(side), other.attr, sorted(stored[other.attr])), where=m.line(b),
                                   message="the uptime that decides whether an unmatched reply is retained for a restarting Task is the difference of two readings: taken from different "
                                           "clocks it is meaningless (about 1.7e12 ms), the engine never believes it has just restarted and drops the reply")
    chk.floor("C04.R7", n, 1, "differences between a clock reading and a stored instant")
    # the request tuple's scheduling time and the duration computed from it
    td = ctx.mod("task_dispatcher")
    sched, durs = set(), set()
    for q, f in td.funcs.items():
        for s in body_nodes(f):
            if isinstance(s, ast.Assign) and any(isinstance(t, ast.Subscript) and norm(t.value) == "self.pending_requests" for t in s.targets) and isinstance(s.value, ast.Tuple) and len(s.value.elts) == 8:
                sched.add(clock(s.value.elts[5]))
            if isinstance(s, ast.Assign) and norm(s.targets[0]) == "duration" and "sched_time" in norm(s.value):
                durs.add(clock(s.value))
    chk.ob("C04.R7", "request scheduling time and reply duration use one clock (%s)" % sorted(x for x in sched | durs if x), len(sched | durs) == 1, "",
           key="TaskDispatcher | sched_time stored from %s but durations computed with %s" % (sorted(str(x) for x in sched), sorted(str(x) for x in durs)), where="task_dispatcher", message="")


# C05.R10: the input handed to each iteration/branch is computed in that iteration
def fresh_iteration_input(chk, ctx):
    se = ctx.mod("state_engine")
    p = ctx.protocol()
    n = 0
    for name in ("asl_state_Map_delegate", "asl_state_Parallel_delegate"):
        f = p.notify.children.get(name)
        if f is None:
            raise AnalysisError("anchor not found: " + name)
        g = CFG(f.node)
        loops = [l for l in body_nodes(f) if isinstance(l, ast.For) and any(isinstance(c, ast.Call) and last(callname(c)) == "publish" for c in ast.walk(l))]
        for l in loops:
            inside = {id(x) for x in ast.walk(l)}
            uses = [s for s in ast.walk(l) if isinstance(s, ast.Assign) and norm(s.targets[0]) == "event['data']" and isinstance(s.value, ast.Name)]
            for u in uses:
                n += 1
                v = u.value.id
                defs = [d for d in name_defs(f, v) if id(d) in inside and isinstance(d, ast.Assign)]
                if not defs:
                    chk.ob("C05.R10", "%s: `%s` is loop-invariant (bound before the fan-out loop)" % (name, v), True, "")
                    continue
                ln = g.node_of(l)
                avoid = g.paths_avoiding(ln, g.node_of(u), {g.node_of(d) for d in defs})
                chk.ob("C05.R10", "%s: `%s` is (re)computed on every path of an iteration before it becomes the iteration's input" % (name, v), not avoid, "",
                       key="%s | an iteration can be launched with the `%s` computed for an earlier iteration" % (f.qname, v), where=se.line(u),
                       message="a path through the loop body that skips every assignment of the value hands the previous iteration's input to this one: items are processed with the wrong input "
                               "(item 0 processed N times, the others never)")
    chk.floor("C05.R10", n, 2, "iteration inputs in the fan-out loops")


# C06.R5: a cancelled Wait reports the canceller's error, whatever the timers say
def cancelled_wait_reports_canceller(chk, ctx):
    se = ctx.mod("state_engine")
    p = ctx.protocol()
    w = p.handlers.get("Wait")
    ot = w.children.get("on_timeout") if w else None
    if ot is None:
        raise AnalysisError("anchor not found: asl_state_Wait.on_timeout")
    params = [a.arg for a in ot.node.args.args]
    chk.ob("C06.R5", "Wait.on_timeout takes the cancellation error as its parameter", params == ["error"], str(params), key="%s | parameters %s" % (ot.qname, params), where=ot.where(), message="")
    reb = [s for s in body_nodes(ot) if isinstance(s, (ast.Assign, ast.AugAssign)) and any(isinstance(x, ast.Name) and x.id == "error" and isinstance(x.ctx, ast.Store) for x in ast.walk(s))]
    chk.ob("C06.R5", "the cancellation error is never overwritten", not reb, "", key="%s | the `error` handed in by cancel_task is overwritten (`%s`)" % (ot.qname, short(reb[0], 60) if reb else ""), where=se.line(reb[0]) if reb else ot.where(),
           message="cancel_task fires the Wait's callback with Task.Terminated; if the callback reports something else (an execution timeout, because the Wait is longer than the remaining "
                   "TimeoutSeconds) the terminated join does not absorb it and the execution is ended a second time")
    lits = [x for x in body_nodes(ot) if isinstance(x, ast.Constant) and x.value == "States.ExecutionTimeout"]
    ok = bool(lits) and all(any(arm == "orelse" and norm(i.test) == "error" for i, arm in enclosing_ifs(se, x, ot.node)) for x in lits)
    chk.ob("C06.R5", "the execution-timeout arm is only taken when no cancellation error was handed in", ok, "", key="%s | States.ExecutionTimeout is not in the else-arm of `if error`" % ot.qname, where=ot.where(), message="")


# C13.R9: intrinsic functions never modify their arguments
MUTATORS = {"update", "append", "extend", "insert", "remove", "pop", "clear", "sort", "reverse", "setdefault", "popitem"}


def _arg_mutations(f):
    alias = {"args"}
    for s in body_nodes(f):
        if isinstance(s, ast.Assign) and len(s.targets) == 1 and isinstance(s.targets[0], ast.Name):
            v = s.value
            if (isinstance(v, ast.Subscript) and isinstance(v.value, ast.Name) and v.value.id in alias and not isinstance(v.slice, ast.Slice)) or (isinstance(v, ast.Name) and v.id in alias):
                alias.add(s.targets[0].id)
    out = []
    for s in body_nodes(f):
        if isinstance(s, ast.Call) and isinstance(s.func, ast.Attribute) and s.func.attr in MUTATORS:
            b = s.func.value
            root = b
            while isinstance(root, ast.Subscript):
                root = root.value
            if isinstance(root, ast.Name) and root.id in alias and not (isinstance(b, ast.Name) and b.id == "args" and False):
                # args itself is the freshly built argument list: only its elements (and aliases of them) are shared with the caller's data
                if isinstance(b, ast.Name) and b.id == "args":
                    continue
                out.append(s)
        if isinstance(s, (ast.Assign, ast.AugAssign, ast.Delete)):
            tgs = s.targets if isinstance(s, (ast.Assign, ast.Delete)) else [s.target]
            for t in tgs:
                if isinstance(t, ast.Subscript):
                    root = t.value
                    depth = 0
                    while isinstance(root, ast.Subscript):
                        root, depth = root.value, depth + 1
                    if isinstance(root, ast.Name) and root.id in alias and (root.id != "args" or depth >= 1):
                        out.append(s)
                if isinstance(s, ast.AugAssign) and isinstance(t, ast.Name) and t.id in alias and t.id != "args" and isinstance(s.op, ast.Add):
                    out.append(s)
    return out


def intrinsics_pure(chk, ctx):
    sp = ctx.mod("state_engine_paths")
    _positive("C13.R9", lambda t: _arg_mutations(_F(t.body[0])), "def asl_intrinsic_X(args):\n    merged = args[0]\n    merged.update(args[1])\n    return merged\n", "update through an alias of an argument")
    n = 0
    for q, f in sorted(sp.funcs.items()):
        if not f.name.startswith("asl_intrinsic_"):
            continue
        n += 1
        muts = _arg_mutations(f)
        chk.ob("C13.R9", "%s does not modify its arguments" % f.name, not muts, "", key="%s | modifies an argument in place (`%s`)" % (q, short(muts[0], 60) if muts else ""), where=sp.line(muts[0]) if muts else f.where(),
               message="arguments selected by a Path are the live nodes of the input or of the Context Object: an intrinsic that updates one in place changes the state's input / $$ for "
                       "everything evaluated afterwards (the template, input and context must be left unmodified)")
    chk.floor("C13.R9", n, 15, "intrinsic functions")


# C13.R10: path members and intrinsic arguments are resolved against the same Context Object; randomness sources stay separate
def template_context_single(chk, ctx):
    sp = ctx.mod("state_engine_paths")
    ept = sp.func("evaluate_payload_template")
    calls = [c for c in ast.walk(ept.node) if isinstance(c, ast.Call) and callname(c) == "apply_path" and len(c.args) >= 2]
    ctxs = sorted({norm(c.args[1]) for c in calls})
    chk.floor("C13.R10", len(calls), 2, "apply_path calls in evaluate_payload_template")
    chk.ob("C13.R10", "every path in a template (member or intrinsic argument) is resolved against the `context` parameter", ctxs == ["context"], str(ctxs),
           key="evaluate_payload_template | paths are resolved against different context objects %s" % ctxs, where=ept.where(),
           message="a `$$.` path must mean the same thing as a template member and as an argument of an intrinsic function")
    ins = sorted({norm(c.args[0]) for c in calls})
    chk.ob("C13.R10", "every path in a template is applied to the `input` parameter", ins == ["input"], str(ins), key="evaluate_payload_template | paths are applied to %s" % ins, where=ept.where(), message="")
    users = sorted({f.name for q, f in sp.funcs.items() for x in body_nodes(f) if isinstance(x, ast.Attribute) and isinstance(x.value, ast.Name) and x.value.id == "random"})
    chk.ob("C13.R10", "only States.MathRandom uses the (seedable) random module", users == ["asl_intrinsic_MathRandom"], str(users),
           key="state_engine_paths | the seedable random module is used by %s" % users, where=sp.rel,
           message="States.MathRandom seeds the global generator when given a seed: anything else drawn from it (for example UUIDs) becomes a deterministic function of that seed")
    u = sp.funcs.get("evaluate_payload_template.evaluate_intrinsic_function.asl_intrinsic_UUID")
    rets = [norm(r.value) for r in body_nodes(u) if isinstance(r, ast.Return)] if u else []
    chk.ob("C13.R10", "States.UUID returns str(uuid.uuid4())", rets == ["str(uuid.uuid4())"], str(rets), key="asl_intrinsic_UUID | value %s" % rets, where=u.where() if u else sp.rel, message="")


# C15.R11: cancellers are removed by the handler of their own event only
def canceller_removal_callers(chk, ctx):
    n = 0
    allowed = {"StateEngine.notify.asl_state_Task_delegate.on_response": "id", "StateEngine.notify.asl_state_Wait.on_timeout": "id", "TaskDispatcher.cancel_task": "event_id"}
    for mn in ("state_engine", "task_dispatcher", "rest_api", "rest_api_asyncio", "event_dispatcher"):
        m = ctx.mod(mn)
        for q, f in sorted(m.funcs.items()):
            for c in body_nodes(f):
                direct = isinstance(c, ast.Call) and last(callname(c)) == "remove_canceller"
                raw = isinstance(c, (ast.Delete,)) and any(isinstance(t, ast.Subscript) and norm(t.value) == "self.cancellers" for t in c.targets)
                rawpop = isinstance(c, ast.Call) and norm(c.func) in ("self.cancellers.pop", "self.cancellers.clear")
                if not (direct or raw or rawpop):
                    continue
                n += 1
                if q == "TaskDispatcher.remove_canceller":
                    continue
                ok = q in allowed and (not direct or (c.args and norm(c.args[0]) == allowed[q]))
                chk.ob("C15.R11", "%s removes only the canceller of its own event" % q, ok, "",
                       key="%s | removes cancellers of other events (`%s`)" % (q, short(c, 60)), where=m.line(c),
                       message="a canceller is the only handle through which a failing parent can reach the Tasks and Waits its synchronous child is blocked on: removed wholesale (e.g. for "
                               "every state of an execution that ends) before cancel_task has used it, the child keeps running after its parent has failed")
    chk.floor("C15.R11", n, 3, "removals of cancellers")
    # the failing Task cancels what it is blocked on before its error is handled
    se = ctx.mod("state_engine")
    orr = se.funcs.get("StateEngine.notify.asl_state_Task_delegate.on_response")
    g = CFG(orr.node)
    cts = [c for c in body_nodes(orr) if isinstance(c, ast.Call) and last(callname(c)) == "cancel_task"]
    ok = len(cts) == 1
    if ok:
        cn = g.containing_stmt_node(cts[0], se)
        st0 = enclosing_stmt(se, cts[0])
        blk = se.parent(st0)
        arm = [lst for lst in (getattr(blk, "body", []), getattr(blk, "orelse", [])) if any(st0 is x for x in lst)][0]
        hes = [c for s in arm for c in ast.walk(s) if isinstance(c, ast.Call) and callname(c) == "handle_error"]
        ok = bool(hes) and all(g.dominates(cn, g.containing_stmt_node(h, se)) for h in hes)
    chk.ob("C15.R11", "a failed Task cancels what it is blocked on before its error is handled", ok, "", key="%s | cancel_task does not precede handle_error in the error arm" % orr.qname, where=orr.where(),
           message="handle_error may end the execution; what the Task was blocked on (a synchronous child) must be cancelled through the Task's canceller while that still exists")


# C16.R6: the text whose length was tested is the text that is forwarded
def measured_is_forwarded(chk, ctx):
    m = ctx.mod("rest_api_asyncio")
    f = [f for q, f in m.funcs.items() if f.name == "aws_api_SendTaskSuccess"][0]
    defs = [d for d in name_defs(f, "output") if isinstance(d, ast.Assign)]
    ok = len(defs) == 1 and isinstance(strip_await(defs[0].value), ast.Call) and norm(strip_await(defs[0].value).func) == "params.get"
    chk.ob("C16.R6", "SendTaskSuccess: `output` is bound once, from the request", ok, str([norm(d.value) for d in defs]),
           key="aws_api_SendTaskSuccess | `output` is rebound after it was measured (%s)" % [norm(d.value) for d in defs[1:]], where=m.line(defs[-1]) if defs else f.where(),
           message="the API accepts an output by the length of the text it received; forwarding a re-serialisation hands the dispatcher a text of a different length, which it measures again")
    msgs = [c for c in body_nodes(f) if isinstance(c, ast.Call) and callname(c) == "Message"]
    ok = len(msgs) == 1 and norm(msgs[0].args[0]) == "output"
    chk.ob("C16.R6", "SendTaskSuccess publishes `output` itself", ok, "", key="aws_api_SendTaskSuccess | published body", where=f.where(), message="")


# C10.R7: both front ends read the shared request parameters in the same way
def frontends_read_alike(chk, ctx):
    from .c10 import handlers
    a, b = ctx.mod("rest_api"), ctx.mod("rest_api_asyncio")
    ha, hb = handlers(a), handlers(b)

    def reads(f):
        out = {}
        for s in body_nodes(f):
            if isinstance(s, ast.Assign) and len(s.targets) == 1 and isinstance(s.targets[0], ast.Name):
                v = strip_await(s.value)
                head = strip_await(v.values[0]) if isinstance(v, ast.BoolOp) else v
                if isinstance(head, ast.Call) and norm(head.func) == "params.get" and head.args:
                    out.setdefault(const(head.args[0]), []).append(norm(v))
        return out
    n = 0
    for name in sorted(set(ha) & set(hb)):
        ra, rb = reads(ha[name]), reads(hb[name])
        for k in sorted(set(ra) & set(rb)):
            n += 1
            chk.ob("C10.R7", "%s: both front ends read `%s` alike (%s)" % (name, k, ra[k][0]), ra[k] == rb[k], "flask %s / quart %s" % (ra[k], rb[k]),
                   key="aws_api_%s | the front ends read request parameter `%s` differently: %s vs %s" % (name, k, ra[k], rb[k]), where=ha[name].where(),
                   message="defaults decide what an absent, null or empty parameter means: the asyncio and blocking front ends must answer alike")
    chk.floor("C10.R7", n, 15, "request parameters read by both front ends")


# C17.R6: parse_arn hands every caller its own dictionary
def parse_arn_fresh(chk, ctx):
    m = ctx.mod("arn")
    f = m.func("parse_arn")
    chk.ob("C17.R6", "parse_arn is not memoised", not f.node.decorator_list, str([norm(d) for d in f.node.decorator_list]),
           key="parse_arn | decorated with %s" % [norm(d) for d in f.node.decorator_list], where=f.where(),
           message="callers edit the dictionary they get back (resource_type = 'stateMachine', resource = ...) and build another ARN from it: a shared, cached dictionary makes the next parse of "
                   "the same ARN return the edited parts")
    rets = [r for r in body_nodes(f) if isinstance(r, ast.Return)]
    ok = len(rets) == 1 and isinstance(rets[0].value, ast.Name) and any(isinstance(d, ast.Assign) and isinstance(d.value, ast.Dict) for d in name_defs(f, rets[0].value.id))
    chk.ob("C17.R6", "parse_arn builds and returns a new dict", ok, "", key="parse_arn | returned object", where=f.where(), message="")
    # callers that edit the result exist (that is why freshness matters): count them so the rule's premise stays visible
    edits = 0
    for mn in ("state_engine", "task_dispatcher", "rest_api", "rest_api_asyncio"):
        mm = ctx.mod(mn)
        for q, g in mm.funcs.items():
            names = {s.targets[0].id for s in body_nodes(g) if isinstance(s, ast.Assign) and len(s.targets) == 1 and isinstance(s.targets[0], ast.Name) and isinstance(s.value, ast.Call) and callname(s.value) == "parse_arn"}
            edits += sum(1 for s in body_nodes(g) if isinstance(s, ast.Assign) and any(isinstance(t, ast.Subscript) and isinstance(t.value, ast.Name) and t.value.id in names for t in s.targets))
    chk.sample({"rule": "C17.R6", "callers_that_edit_the_parse_result": edits})


# C18.R11: the validator applies regular expressions to strings only
def regex_on_strings_only(chk, ctx):
    from .c18 import _has_isinstance
    n = 0
    for mn in ("statelint", "j2119"):
        m = ctx.mod(mn)
        for q, f in sorted(m.funcs.items()):
            # only code that sees document values: the JSONPath checker, the constraint classes and the semantic checker
            # (the grammar parser - Matcher, Oxford, deduce - matches the lines of the bundled schema text)
            if not (f.cls and (f.cls in ("JSONPathChecker", "StateNode") or f.cls.endswith("Constraint"))):
                continue
            params = {a.arg for a in f.node.args.args} - {"self"}
            for c in body_nodes(f):
                if not (isinstance(c, ast.Call) and isinstance(c.func, ast.Attribute) and c.func.attr in ("match", "search", "fullmatch", "findall") and c.args):
                    continue
                arg = c.args[-1] if norm(c.func.value) == "re" else c.args[0]
                if not (isinstance(arg, ast.Name) and arg.id in params):
                    continue
                n += 1
                ok = False
                x = c
                while x is not None and x is not f.node and not ok:
                    par = m.parent(x)
                    if isinstance(par, ast.BoolOp) and isinstance(par.op, ast.And):
                        idx = [i for i, v in enumerate(par.values) if any(y is c for y in ast.walk(v))]
                        if idx and any(_has_isinstance(v, arg.id, "str") for v in par.values[:idx[0]]):
                            ok = True
                    if isinstance(par, ast.If) and any(x is s for s in par.body) and _has_isinstance(par.test, arg.id, "str"):
                        ok = True
                    x = par
                if not ok:
                    # early return for non-strings at the top of the function
                    for s in f.node.body:
                        if s.lineno >= c.lineno:
                            break
                        if isinstance(s, ast.If) and any(isinstance(r, ast.Return) for r in s.body) and "not isinstance(%s, str)" % arg.id in norm(s.test):
                            ok = True
                chk.ob("C18.R11", "%s: `%s` is applied to a string" % (q, short(c, 50)), ok, "",
                       key="%s | regular expression applied to `%s` without testing that it is a string" % (q, arg.id), where=m.line(c),
                       message="a number, boolean, array or object in that position raises TypeError out of validate(): the validator must report problems rather than raise, for any JSON value")
    chk.floor("C18.R11", n, 2, "regular-expression matches on parameters in the validator")


# C07.R7: the event that re-enters a Map for its next MaxConcurrency batch carries the Map's own retry counters
def batch_reentry_keeps_retry(chk, ctx):
    se = ctx.mod("state_engine")
    p = ctx.protocol()
    j = p.join
    pubs = [c for c in body_nodes(j) if isinstance(c, ast.Call) and last(callname(c)) == "publish" and any("max_concurrency" in norm(i.test) for i, a in enclosing_ifs(se, c, j.node))]
    chk.floor("C07.R7", len(pubs), 1, "batch re-entry publish in the join")
    for pub in pubs:
        st = enclosing_stmt(se, pub)
        blk = se.parent(st)
        arm = [lst for lst in (getattr(blk, "body", []), getattr(blk, "orelse", [])) if any(st is x for x in lst)][0]
        txt = [norm(s) for s in arm if s.lineno < st.lineno]
        for nm, var in (("RetryCount", "retry_count"), ("RetryTimeout", "retry_timeout")):
            ok = any(t.startswith("if %s:" % var) and "context_state['%s'] = %s" % (nm, var) in t for t in txt)
            chk.ob("C07.R7", "batch re-entry restores %s when the Map is being retried" % nm, ok, "", key="%s | the batch re-entry event does not carry the Map's %s" % (j.qname, nm), where=se.line(st),
                   message="a Map that is on its k-th retry must still be on its k-th retry when it re-enters for the next batch: without the counter every failure in a later batch is "
                           "seen with RetryCount 0, MaxAttempts is never reached and the catcher never runs")
        defs = {var: [norm(d.value) for d in name_defs(j, var) if isinstance(d, ast.Assign)] for var in ("retry_count", "retry_timeout")}
        ok = all(any("RetryCount" in v or "RetryTimeout" in v for v in vs) for vs in defs.values())
        chk.ob("C07.R7", "the counters restored are the ones saved in the branch record", ok, str(defs), key="%s | source of the restored retry counters %s" % (j.qname, defs), where=j.where(), message="")


# C11.R6: the input recorded in the Context Object is not the live event data
def execution_input_is_a_copy(chk, ctx):
    se = ctx.mod("state_engine")
    st = se.func("StateEngine.start_execution")
    sets = [s for s in body_nodes(st) if isinstance(s, ast.Assign) and norm(s.targets[0]) == "execution['Input']"]
    chk.floor("C11.R6", len(sets), 1, "assignments of Execution.Input in start_execution")
    for s in sets:
        v = norm(s.value)
        ok = v in ("copy.deepcopy(data)", "deepcopy(data)", "json.loads(json.dumps(data))")
        chk.ob("C11.R6", "start_execution: Execution.Input = %s (a copy of the event data)" % v, ok, "",
               key="StateEngine.start_execution | $$.Execution.Input is `%s`, the live event data" % v, where=se.line(s),
               message="states place their results into the event data in place (ResultPath): if the context holds the same object, $$.Execution.Input and the input reported when an EXPRESS "
                       "execution ends show the first state's result as well - the views of one execution disagree about its input")
    # and nobody writes it afterwards
    n = 0
    for q, f in sorted(se.funcs.items()):
        for s in body_nodes(f):
            if isinstance(s, ast.Assign) and any(isinstance(t, ast.Subscript) and const(t.slice) == "Input" and "xecution" in norm(t.value) for t in s.targets) and q != st.qname:
                n += 1
                chk.ob("C11.R6", "%s does not rewrite Execution.Input" % q, False, "", key="%s | rewrites Execution.Input" % q, where=se.line(s), message="")


# ---------------------------------------------------------------------------------------------------------------------
# C06.R6 (round 5): every way handle_error disposes of a failed Parallel/Map tears the failed attempt's siblings down
def failed_fanout_torn_down(chk, ctx):
    """When a Parallel/Map state fails, handle_error has three outcomes: retry the state, transfer to a Catcher's Next, or fail the
    execution.  The property demands that the siblings of the failing branch make no further progress in *each* of them: their pending
    tasks / waits are cancelled and their held events released.  Decided here: each of the three arms reaches the tear-down
    (check_pending_results, directly under the Parallel/Map test, or through handle_terminal_state -> end_execution's failure path)."""
    se = ctx.mod("state_engine")
    he = se.func("StateEngine.notify.handle_error")
    loops = [n for n in body_nodes(he) if isinstance(n, ast.For)]
    arms = {}
    for lp in loops:
        it = norm(lp.iter)
        if it in ("retry", "catch"):
            arms[it] = lp
    chk.floor("C06.R6", len(arms), 2, "retrier / catcher scans in handle_error")
    for name, lp in sorted(arms.items()):
        calls = [c for c in ast.walk(lp) if isinstance(c, ast.Call) and callname(c) == "self.check_pending_results"]
        guarded = False
        for c in calls:
            for i, arm in enclosing_ifs(se, c, he.node):
                if arm == "body" and "('Parallel', 'Map')" in norm(i.test):
                    guarded = True
        what = "retried" if name == "retry" else "caught (transfer to the Catcher's Next)"
        chk.ob("C06.R6", "handle_error: a failed Parallel/Map that is %s has its siblings torn down" % what, guarded, "",
               key="StateEngine.notify.handle_error | %s arm leaves the failed fan-out's siblings running and their held events unacknowledged" % name, where=se.line(lp),
               message="when a Parallel/Map failure is %s nothing cancels the pending tasks / waits of the sibling branches or acknowledges the events they hold: a sibling's late reply is "
                       "processed after the state (or the execution) has moved on, and held events stay unacknowledged for ever" % what)
    # the third outcome: no retrier / catcher applies -> handle_terminal_state -> end_execution(failed) -> check_pending_results (C05.R8 confirms that caller)
    term = [c for c in body_nodes(he) if isinstance(c, ast.Call) and callname(c) == "handle_terminal_state"]
    chk.ob("C06.R6", "handle_error: an unhandled failure ends the execution through handle_terminal_state", bool(term), "", key="StateEngine.notify.handle_error | no terminal arm", where=he.where(),
           message="")


# ---------------------------------------------------------------------------------------------------------------------
# C06.R7 / R8 / R9 (round 5): three structural causes of "a sibling makes further progress after the fan-out failed", each reported with a
# reproduction by an independent sub-agent on the reviewed tree (design-notes/repro/agents-r5/)
def deferred_delegates_cancellable(chk, ctx):
    """C06.R7: a state whose work is deferred by a timer (the RetryTimeout delay of Task / Parallel / Map) can be stopped when its fan-out
    fails: the timer is registered with a canceller, or the delegate re-checks the termination gate when it finally runs."""
    se = ctx.mod("state_engine")
    nf = se.func("StateEngine.notify")
    n = 0
    for name in ("asl_state_Task", "asl_state_Parallel", "asl_state_Map"):
        f = nf.children.get(name)
        if f is None:
            raise AnalysisError("anchor not found: %s" % name)
        for c in body_nodes(f):
            if not (isinstance(c, ast.Call) and callname(c) == "self.event_dispatcher.set_timeout" and c.args and isinstance(c.args[0], ast.Name)):
                continue
            n += 1
            deleg = nf.children.get(c.args[0].id)
            st = enclosing_stmt(se, c)
            bound = isinstance(st, ast.Assign)      # the timer id is kept
            cancellable = bound and any(isinstance(x, ast.Call) and last(callname(x)).startswith("set_") and last(callname(x)).endswith("_canceller") for x in body_nodes(f))
            rechecks = deleg is not None and any(isinstance(x, ast.Call) and last(callname(x)) == "branch_has_terminated" for x in body_nodes(deleg))
            chk.ob("C06.R7", "%s: the deferred %s can be stopped when its fan-out fails" % (name, c.args[0].id), cancellable or rechecks, "",
                   key="StateEngine.notify.%s | %s is armed with set_timeout, the timer id is dropped, no canceller is registered and the delegate does not re-check termination" % (name, c.args[0].id),
                   where=se.line(c),
                   message="while the state waits out its RetryTimeout a sibling's failure cannot stop it: after the Parallel/Map (or the execution) has failed the timer fires, the delegate "
                           "sends its request / fans out and appends history")
    chk.floor("C06.R7", n, 3, "deferred state delegates")


def gate_walks_whole_stack(chk, ctx):
    """C06.R8: an event of a branch nested at any depth below a failed fan-out is dropped: the termination gate consults every level of the
    Branch stack, not only the innermost two"""
    se = ctx.mod("state_engine")
    g = se.func("StateEngine.branch_has_terminated")
    stack_names = {t.id for s in body_nodes(g) if isinstance(s, ast.Assign) and "['Branch']" in norm(s.value) for t in s.targets if isinstance(t, ast.Name)}
    loops = [l for l in body_nodes(g) if isinstance(l, (ast.For, ast.While)) and any(isinstance(x, ast.Name) and x.id in stack_names for x in ast.walk(l.iter if isinstance(l, ast.For) else l.test))]
    fixed = sorted({norm(x) for x in body_nodes(g) if isinstance(x, ast.Subscript) and isinstance(x.value, ast.Name) and x.value.id in stack_names
                    and isinstance(x.slice, ast.UnaryOp) and isinstance(x.slice.operand, ast.Constant)})
    chk.ob("C06.R8", "the termination gate consults every level of the Branch stack", bool(loops), "levels consulted: %s" % fixed,
           key="StateEngine.branch_has_terminated | only the levels %s of the Branch stack are consulted" % fixed, where=g.where(),
           message="a queued event of a branch nested two or more levels below the failed Parallel/Map is not recognised as terminated (intermediate levels are only marked lazily, by the "
                   "first straggler of that level): it runs on, appends history after the terminal event and issues requests")


def gate_index_default(chk, ctx):
    """C05.R11 / C03: the gate never marks a slot for an event that has no slot: a Map re-entry record carries no Index, and defaulting it to 0
    overwrites iteration 0's result and marks a range of iterations that were never started"""
    se = ctx.mod("state_engine")
    g = se.func("StateEngine.branch_has_terminated")
    dflt = [c for c in body_nodes(g) if isinstance(c, ast.Call) and isinstance(c.func, ast.Attribute) and c.func.attr == "get" and c.args and const(c.args[0]) == "Index" and len(c.args) == 2]
    guarded = any(isinstance(i, ast.If) and "'Index'" in norm(i.test) for i in body_nodes(g))
    chk.ob("C05.R11", "the termination gate marks a slot only for events that carry an Index", not dflt or guarded, "",
           key="StateEngine.branch_has_terminated | a missing Index is defaulted (`%s`) and slot 0 is marked" % (norm(dflt[0]) if dflt else ""), where=se.line(dflt[0]) if dflt else g.where(),
           message="the event that re-enters a Map with MaxConcurrency for its next batch has a Branch record {ID, Range} without Index; when it is dropped by the gate slot 0 is overwritten with "
                   "__TERMINATED__ and the terminated range is set to a batch that was never launched: check_pending_results then waits for ever for results that cannot arrive and the join "
                   "state is never released")


def teardown_scoped_to_terminated_groups(chk, ctx):
    """C06.R9: the tear-down cancels the outstanding tasks of the fan-out that failed (and of what is nested in it), not of every fan-out of the
    execution: a group without a terminated range is not scanned merely because some other group of the execution is terminated"""
    se = ctx.mod("state_engine")
    f = se.func("StateEngine.check_pending_results")
    hit = None
    for i in body_nodes(f):
        if isinstance(i, ast.If) and norm(i.test) == "terminated" and i.orelse:
            txt = [norm(s) for s in i.orelse]
            if any(t.startswith("start = 0") for t in txt) and any("len(result)" in t for t in txt):
                hit = i
    chk.ob("C06.R9", "check_pending_results cancels only within groups that are (nested in) the failed fan-out", hit is None, "",
           key="StateEngine.check_pending_results | a group without a terminated range is scanned whole (start = 0, end = len(result)) once any group of the execution is terminated",
           where=se.line(hit) if hit is not None else f.where(),
           message="when a nested Parallel/Map is retried (its own group is terminated) the scan also cancels the pending tasks of the *enclosing* fan-out's healthy branches: their "
                   "Task.Terminated marks the outer group terminated, the outer join never completes and the execution never ends")


def teardown_after_terminal_notification(chk, ctx):
    """C03.R11: end_execution releases (acknowledges) the events held for the terminated branches only after every consequence of the
    terminal event has been issued: the record, the terminal history event, the completion of a waiting parent, the notification"""
    se = ctx.mod("state_engine")
    f = se.func("StateEngine.end_execution")
    g = CFG(f.node)
    tears = [c for c in body_nodes(f) if isinstance(c, ast.Call) and callname(c) == "self.check_pending_results"]
    cons = [c for c in body_nodes(f) if isinstance(c, ast.Call) and callname(c) in ("self.broadcast_notification", "self.task_dispatcher.handle_sfn_response", "self.update_execution_history")]
    chk.floor("C03.R11", len(cons), 3, "consequences of the terminal event in end_execution")
    for t in tears:
        tn = g.containing_stmt_node(t, se)
        late = []
        for c in cons:
            cn = g.containing_stmt_node(c, se)
            if tn is not None and cn is not None and cn != tn and cn in g.reachable_from(tn):
                late.append(last(callname(c)))
        chk.ob("C03.R11", "end_execution: the held branch events are released after the terminal consequences", not late, "",
               key="StateEngine.end_execution | check_pending_results (acknowledges held events) runs before %s" % sorted(set(late)), where=se.line(t),
               message="the events of finished sibling branches are acknowledged before the terminal notification (and the completion of a waiting parent) has been handed over: "
                       "a crash in between loses the execution's end although nothing is left to redeliver")
    if not tears:
        chk.ob("C03.R11", "end_execution tears the join state down", False, "", key="StateEngine.end_execution | no tear-down", where=f.where(), message="")
