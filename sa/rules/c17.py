"""C17 - names and ARNs round-trip and link executions to their state machine (structural clauses)."""
import ast
import re

from ..core import AnalysisError, dotted, callname, last, const, short, norm, kwarg
from ..cfg import CFG
from ..util import body_nodes, name_defs, derives_from, enclosing_ifs, dict_keys

try:
    import re._parser as sre_parse
    import re._constants as sre_c
except ImportError:  # pragma: no cover
    import sre_parse
    import sre_constants as sre_c

EXPLANATION = (
    "Static analysis of the current /repo source. Decides: (R1) every separator the ARN code splits on (':' and '/', and the ':' of the "
    "three rpartition derivations) is in the character class valid_name forbids, and the validator's regex + matching function reject a "
    "name containing a forbidden character at ANY position (regex AST); (R2) every site that mints an execution ARN builds it from the "
    "parsed state machine ARN (service 'states', region and account of that ARN, resource_type 'execution', resource = machine name + ':' + "
    "NAME) and every site that derives the machine ARN back uses rpartition(':') -> parse_arn -> resource_type 'stateMachine' -> create_arn; "
    "(R3) every NAME at a mint site is validated by valid_name on a dominating path or generated (uuid / event id); (R4) create_arn's format "
    "and parse_arn's split agree on six ':'-separated fields in the same order. Not decided: enumeration of all strings."
    " (R9) every place that mints an execution ARN from a name taken from a request or from a state's Parameters validates the name first (the REST handlers do, with valid_name); reported on the current tree as D74 (the states:startExecution launcher).")
RULE_TEXT = "obligation = one validator / mint site / split site / structural fact; non-trivial = distinct (rule, site)"


def forbidden_class(pattern):
    """-> (set of forbidden chars, anywhere: bool) from the regex AST of a valid_name pattern"""
    tree = sre_parse.parse(pattern)
    items = list(tree)
    cls = None
    lead_any = trail_any = False
    anchored_start = False
    seen_class = False
    for op, av in items:
        if op == sre_c.AT:
            if av == sre_c.AT_BEGINNING and not seen_class:
                anchored_start = True
            continue
        if op in (sre_c.MAX_REPEAT, sre_c.MIN_REPEAT):
            lo, hi, sub = av
            if lo == 0 and hi == sre_c.MAXREPEAT and len(sub) == 1 and sub[0][0] == sre_c.ANY:
                if seen_class:
                    trail_any = True
                else:
                    lead_any = True
                continue
            return None, False, False
        if op == sre_c.IN and not seen_class:
            chars = set()
            for o2, a2 in av:
                if o2 == sre_c.LITERAL:
                    chars.add(chr(a2))
                elif o2 == sre_c.RANGE:
                    chars |= {chr(c) for c in range(a2[0], a2[1] + 1)}
                elif o2 == sre_c.NEGATE:
                    return None, False, False
            cls = chars
            seen_class = True
            continue
        return None, False, False
    return cls, lead_any, anchored_start


def r1(chk, ctx):
    seps = {":", "/"}
    arn = ctx.mod("arn")
    pa = arn.func("parse_arn")
    used = set()
    for n in body_nodes(pa):
        if isinstance(n, ast.Call) and isinstance(n.func, ast.Attribute) and n.func.attr in ("split", "rpartition", "partition") and n.args and isinstance(n.args[0], ast.Constant):
            used.add(n.args[0].value)
    chk.ob("C17.R1", "parse_arn splits on ':' and '/'", used == seps, str(used), key="parse_arn | separators %s" % sorted(used), where=pa.where(), message="")
    for name in ("rest_api", "rest_api_asyncio"):
        m = ctx.mod(name)
        f = m.func("valid_name")
        calls = [n for n in body_nodes(f) if isinstance(n, ast.Call) and (callname(n).startswith("re.") or (isinstance(n.func, ast.Attribute) and n.func.attr in ("search", "match", "fullmatch")))]
        calls = [c for c in calls if last(callname(c)) in ("search", "match", "fullmatch")]
        chk.ob("C17.R1", "%s.valid_name applies one regex" % name, len(calls) == 1, "", key="%s.valid_name | regex applications: %d" % (name, len(calls)), where=f.where(), message="")
        if len(calls) != 1:
            continue
        c = calls[0]
        fn = last(callname(c))
        pat = None
        subject = None
        if callname(c).startswith("re."):
            pat = const(c.args[0]) if c.args else None
            subject = c.args[1] if len(c.args) > 1 else None
        else:
            # compiled pattern object: find its definition at module level
            recv = c.func.value
            subject = c.args[0] if c.args else None
            if isinstance(recv, ast.Name):
                for x in m.tree.body:
                    if isinstance(x, ast.Assign) and any(isinstance(t, ast.Name) and t.id == recv.id for t in x.targets) and isinstance(x.value, ast.Call) and callname(x.value) == "re.compile":
                        pat = const(x.value.args[0])
        if not isinstance(pat, str):
            chk.ob("C17.R1", "%s.valid_name pattern is a literal" % name, False, "", key="%s.valid_name | pattern not a literal" % name, where=f.where(), message="")
            continue
        cls, lead_any, anchored = forbidden_class(pat)
        ok = cls is not None
        chk.ob("C17.R1", "%s.valid_name pattern has the shape [^.*][forbidden class][.*$]" % name, ok, pat, key="%s.valid_name | pattern shape `%s`" % (name, pat), where=f.where(), message="")
        if not ok:
            continue
        anywhere = (fn == "search" and (lead_any or not anchored)) or (fn in ("match", "fullmatch") and lead_any)
        chk.ob("C17.R1", "%s.valid_name rejects a forbidden character at any position" % name, anywhere, "%s with %s" % (fn, pat),
               key="%s.valid_name | forbidden characters only detected at the start of the name (%s)" % (name, fn), where=f.where(),
               message="a ':' or '/' later in the name mints an ARN that splits back into different parts")
        chk.ob("C17.R1", "%s.valid_name tests the name itself" % name, subject is not None and norm(subject) == "name", "", key="%s.valid_name | regex subject" % name, where=f.where(), message="")
        # the regex result is negated
        par = m.parent(c)
        chk.ob("C17.R1", "%s.valid_name: a regex hit rejects" % name, isinstance(par, ast.UnaryOp) and isinstance(par.op, ast.Not), "", key="%s.valid_name | regex result not negated" % name, where=f.where(), message="")
        documented = set(" <>{}[]?*\"#%\\^|~`$&,;:/")
        missing = sorted(documented - cls)
        chk.ob("C17.R1", "%s.valid_name forbids every character the API documents as forbidden" % name, not missing, "missing: %s" % missing,
               key="%s.valid_name | documented forbidden characters allowed in names: %s" % (name, missing), where=f.where(),
               message="names are accepted iff 1..80 characters without the forbidden characters (whitespace < > { } [ ] ? * \" # % \\ ^ | ~ ` $ & , ; : /)")
        for s in sorted(seps):
            chk.ob("C17.R1", "%s.valid_name forbids separator %r" % (name, s), s in cls, "", key="%s.valid_name | separator %s is allowed in names" % (name, s), where=f.where(),
                   message="parse_arn / rpartition split on this character")
        chk.sample({"rule": "C17.R1", "module": name, "forbidden": "".join(sorted(cls)), "function": fn})
    # the two validators agree
    a, b = ctx.mod("rest_api").func("valid_name"), ctx.mod("rest_api_asyncio").func("valid_name")
    chk.ob("C17.R1", "valid_name identical in both front ends", ast.dump(a.node) == ast.dump(b.node), "", key="valid_name | front ends disagree", where=a.where(), message="")


def mint_sites(ctx):
    out = []
    for name in ("rest_api", "rest_api_asyncio", "state_engine", "task_dispatcher"):
        m = ctx.mod(name)
        for q, f in m.funcs.items():
            for n in body_nodes(f):
                if isinstance(n, ast.Call) and callname(n) == "create_arn" and const(kwarg(n, "resource_type")) == "execution":
                    out.append((m, f, n))
    return out


def r2_r3(chk, ctx):
    sites = mint_sites(ctx)
    chk.floor("C17.R2", len(sites), 5, "execution-ARN mint sites")
    for m, f, n in sites:
        site = "%s mint" % f.qname
        ok = const(kwarg(n, "service")) == "states"
        chk.ob("C17.R2", site + ": service 'states'", ok, "", key="%s | mint service" % f.qname, where=m.line(n), message="")
        acc = kwarg(n, "account")
        res = kwarg(n, "resource")
        reg = kwarg(n, "region")
        parsed = acc.value.id if isinstance(acc, ast.Subscript) and isinstance(acc.value, ast.Name) and const(acc.slice) == "account" else None
        chk.ob("C17.R2", site + ": account from a parsed ARN", parsed is not None, norm(acc) if acc is not None else "", key="%s | mint account source" % f.qname, where=m.line(n), message="")
        if parsed is None:
            continue
        # the parsed ARN is parse_arn(<state machine arn>)
        d = [x for x in name_defs(f, parsed) if isinstance(x, ast.Assign)]
        src = d[-1].value if d else None
        for x in d:
            if x.lineno < n.lineno:
                src = x.value
        ok = isinstance(src, ast.Call) and callname(src) == "parse_arn" and src.args and "state_machine_arn" in norm(src.args[0])
        chk.ob("C17.R2", site + ": parsed ARN is the state machine's", ok, norm(src) if src is not None else "", key="%s | mint parses `%s`" % (f.qname, norm(src) if src is not None else "?"), where=m.line(n),
               message="the execution ARN must be built from the ARN of the machine that runs it")
        ok = isinstance(res, ast.BinOp) and isinstance(res.op, ast.Add) and isinstance(res.left, ast.BinOp) and norm(res.left.left) in ("%s['resource']" % parsed,) and const(res.left.right) == ":"
        alt = isinstance(res, ast.BinOp) and isinstance(res.left, ast.BinOp) and const(res.left.right) == ":" and isinstance(res.left.left, ast.Name)
        if not ok and alt:
            dd = [x for x in name_defs(f, res.left.left.id) if isinstance(x, ast.Assign)]
            ok = len(dd) == 1 and norm(dd[0].value) == "%s['resource']" % parsed
        chk.ob("C17.R2", site + ": resource = machine name + ':' + NAME", ok, norm(res) if res is not None else "", key="%s | mint resource shape `%s`" % (f.qname, norm(res) if res is not None else "?"), where=m.line(n), message="")
        okr = False
        if reg is not None:
            rs = norm(reg)
            okr = rs.startswith("%s.get('region'" % parsed) or rs == "%s['region']" % parsed
            if isinstance(reg, ast.Name):
                dd = [x for x in name_defs(f, reg.id) if isinstance(x, ast.Assign)]
                okr = len(dd) == 1 and (norm(dd[0].value).startswith("%s.get('region'" % parsed) or norm(dd[0].value) == "%s['region']" % parsed)
        chk.ob("C17.R2", site + ": region from the same parsed ARN", okr, norm(reg) if reg is not None else "",
               key="%s | mint region `%s` is not the state machine ARN's region" % (f.qname, norm(reg) if reg is not None else "?"), where=m.line(n),
               message="rpartition(':') + parse_arn derive the machine ARN with the execution ARN's region: it must be the machine's own region")
        # R3: NAME provenance
        name_expr = res.right if isinstance(res, ast.BinOp) else None
        if name_expr is None:
            continue
        ok3, how = _name_ok(m, f, n, name_expr)
        chk.ob("C17.R3", site + ": NAME `%s` is validated or generated" % norm(name_expr), ok3, how,
               key="%s | execution name `%s` reaches the ARN unvalidated" % (f.qname, norm(name_expr)), where=m.line(n),
               message="a name containing ':' or '/' mints an ARN that splits back to a different state machine")
    # split sites
    splits = []
    se = ctx.mod("state_engine")
    for q, f in se.funcs.items():
        for x in body_nodes(f):
            if isinstance(x, ast.Assign) and isinstance(x.value, ast.Call) and isinstance(x.value.func, ast.Attribute) and x.value.func.attr == "rpartition" and "execution_arn" in norm(x.value.func.value):
                splits.append((f, x))
    chk.floor("C17.R2", len(splits), 3, "execution-ARN split sites")
    for f, x in splits:
        var = x.targets[0].id if isinstance(x.targets[0], ast.Name) else "?"
        ok = const(x.value.args[0]) == ":"
        after = []
        par = se.parent(x)
        for fld in ("body", "orelse", "finalbody"):
            blk = getattr(par, fld, None)
            if isinstance(blk, list) and any(y is x for y in blk):
                after = blk[[i for i, y in enumerate(blk) if y is x][0] + 1:][:6]
        stmts = [norm(s) for s in after if isinstance(s, ast.Assign)]
        ok = ok and "arn = parse_arn(%s[0])" % var in stmts and "arn['resource_type'] = 'stateMachine'" in stmts and "state_machine_arn = create_arn(arn)" in stmts and "name = %s[2]" % var in stmts
        chk.ob("C17.R2", "%s split: rpartition(':') -> parse_arn -> stateMachine -> create_arn; name = last part" % f.qname, ok, "; ".join(stmts)[:200],
               key="%s | split template" % f.qname, where=f.where(x), message="every derivation of the machine ARN from the execution ARN must agree")


def _name_ok(m, f, mint, e):
    if isinstance(e, ast.Subscript) and norm(e) == "execution['Name']":
        return True, "carried in the context (set by the API after validation, or a uuid)"
    if isinstance(e, ast.Name):
        ds = [x for x in name_defs(f, e.id) if isinstance(x, ast.Assign) and x.lineno < mint.lineno]
        if not ds:
            return False, "no definition"
        g = CFG(f.node)
        mn = g.containing_stmt_node(mint, m)
        # validated: an `if not valid_name(NAME): return` dominates the mint
        for n in body_nodes(f):
            if isinstance(n, ast.If) and norm(n.test) == "not valid_name(%s)" % e.id and any(isinstance(s, ast.Return) for s in n.body):
                if g.dominates(g.node_of(n), mn) and all(d.lineno < n.lineno for d in ds):
                    return True, "guarded by valid_name"
        v = ds[-1].value
        s = norm(v)
        if s in ("str(uuid.uuid4())", "event_id"):
            return True, "generated"
        return False, "bound from %s" % s
    return False, "expression"


def r4(chk, ctx):
    arn = ctx.mod("arn")
    ca, pa = arn.func("create_arn"), arn.func("parse_arn")
    fmt = None
    for n in body_nodes(ca):
        if isinstance(n, ast.Call) and isinstance(n.func, ast.Attribute) and n.func.attr == "format" and isinstance(n.func.value, ast.Constant):
            fmt = n
    ok = fmt is not None and fmt.func.value.value == "{}:{}:{}:{}:{}:{}" and [norm(a) for a in fmt.args] == ["arn", "partition", "service", "region", "account", "resource"]
    chk.ob("C17.R4", "create_arn joins arn:partition:service:region:account:resource", ok, "", key="create_arn | format", where=ca.where(), message="")
    sp = [n for n in body_nodes(pa) if isinstance(n, ast.Call) and isinstance(n.func, ast.Attribute) and n.func.attr == "split" and norm(n.func.value) == "arn"]
    ok = len(sp) == 1 and const(sp[0].args[0]) == ":" and len(sp[0].args) == 2 and const(sp[0].args[1]) == 5
    chk.ob("C17.R4", "parse_arn splits on ':' at most 5 times", ok, "", key="parse_arn | split", where=pa.where(), message="the resource part may itself contain ':'")
    d = [n for n in body_nodes(pa) if isinstance(n, ast.Dict) and "resource" in dict_keys(n)]
    ok = False
    if d:
        want = {"arn": 0, "partition": 1, "service": 2, "region": 3, "account": 4, "resource": 5}
        ok = all(norm(v) == "elements[%d]" % want[k.value] for k, v in zip(d[0].keys, d[0].values) if k.value in want)
    chk.ob("C17.R4", "parse_arn maps the six fields in create_arn's order", ok, "", key="parse_arn | field order", where=pa.where(), message="")
    txt = " ".join(norm(s) for s in ca.node.body)
    chk.ob("C17.R4", "create_arn joins resource_type with ':'", "resource = resource_type + ':' + resource" in txt, "", key="create_arn | resource_type join", where=ca.where(), message="")
    chk.ob("C17.R4", "create_arn(dict) expands the dict", "return create_arn(**resource)" in txt, "", key="create_arn | dict form", where=ca.where(), message="")
    txt = " ".join(norm(s) for s in pa.node.body)
    ok = ".split('/', 1)" in txt and ".split(':', 1)" in txt and txt.index(".split('/', 1)") < txt.index(".split(':', 1)")
    chk.ob("C17.R4", "parse_arn separates the resource type once, '/' before ':'", ok, "", key="parse_arn | resource type split", where=pa.where(), message="")


def r5(chk, ctx):
    """the machine <-> execution relation is never derived by string prefix matching"""
    n = 0
    for mn in ("rest_api", "rest_api_asyncio"):
        m = ctx.mod(mn)
        for q, f in m.funcs.items():
            if not f.name.startswith("aws_api_"):
                continue
            for c in ast.walk(f.node):
                if isinstance(c, ast.Call) and isinstance(c.func, ast.Attribute) and c.func.attr in ("startswith", "endswith", "find", "index") and any("arn" in norm(a).lower() for a in c.args):
                    chk.ob("C17.R5", "%s.%s relates ARNs by %s" % (mn, f.name, c.func.attr), False, norm(c),
                           key="%s.%s | ARN relation decided by string %s (`%s`)" % (mn, f.name, c.func.attr, short(c, 50)), where=m.line(c),
                           message="one machine name can be a prefix of another (orders / orders-v2): the relation must be read from the record's stateMachineArn or derived by parse_arn")
            if f.name == "aws_api_ListExecutions":
                n += 1
                comps = [x for x in body_nodes(f) if isinstance(x, ast.ListComp)]
                conds = [norm(v) for x in comps for g in x.generators for c in g.ifs for v in (c.values if isinstance(c, ast.BoolOp) else [c])]
                ok = "v['stateMachineArn'] == state_machine_arn" in conds
                chk.ob("C17.R5", "%s ListExecutions selects by the record's stateMachineArn" % mn, ok, str(conds), key="%s.aws_api_ListExecutions | selection %s" % (mn, conds), where=f.where(), message="")
    chk.floor("C17.R5", n, 2, "ListExecutions handlers")


def run(chk, ctx):
    from . import round5
    round5.minted_execution_names_are_validated(chk, ctx)
    from . import generic
    generic.definite_assignment(chk, ctx, ['arn'], "C17.DA")   # no local is read before it is bound (UnboundLocalError = an arbitrary exception)
    r5(chk, ctx)
    r1(chk, ctx)
    r2_r3(chk, ctx)
    r4(chk, ctx)
    from . import round4
    round4.parse_arn_fresh(chk, ctx)
    chk.assume("names carried in context['Execution']['Name'] were validated by the API or generated by uuid4")
