"""C06 - a failing branch fails its Parallel/Map once; siblings cannot disturb the result (structural clauses)."""
import ast

from ..core import AnalysisError, dotted, callname, last, const, short, norm
from ..cfg import CFG
from ..util import body_nodes, name_defs, enclosing_ifs, enclosing_stmt
from .shared import proto_findings
from . import c03, c05, c07, c09

EXPLANATION = (
    "Static analysis of the current /repo source. Decides: (R1) States.Runtime / States.ExecutionTimeout / Task.Terminated bypass Retry and "
    "Catch; (R2) the three reply paths (RPC reply, child-execution completion, task timeout) agree: each consults the termination state of the "
    "task's branch before invoking the callback, replaces the result by Task.Terminated, and adds no history for it; no history update "
    "anywhere sits in an arm selected by Task.Terminated; (R3) in notify the handler dispatch, the StateEntered update and the history-limit "
    "check are dominated by the termination gate, whose truthy result acknowledges the dropped event on every path (typestate); (R4) "
    "check_pending_results cancels the task of every pending slot that has a canceller, marks every other pending slot as pending, releases "
    "held events, deletes the join state only when nothing is pending, agrees with the join on what 'pending' means, and cancel_task finds "
    "the pending request under the key it was registered with, removes it before the callback, clears a Wait's timer and reports "
    "Task.Terminated. Not decided: everything that depends on the arrival order of sibling events, replies and timers."
    ' (R10) the keys the event gate subscripts exist in every Branch record the join writes (or the read is guarded), and the reply gate looks the group up tolerantly: stragglers of a tidied-up group are dropped like any terminated branch instead of raising KeyError.'
    " (R11) every handle_error call at the top level of notify is dominated by a call of the termination gate; reported on the current tree as D71 (the 'non-existent state' arm).")
RULE_TEXT = "obligation = one reply path x fact, one dominated site, one bookkeeping fact; non-trivial = distinct (rule, site)"


def r2(chk, ctx):
    td = ctx.mod("task_dispatcher")
    ext = td.func("TaskDispatcher.execute_task")
    paths = [td.func("TaskDispatcher.handle_rpcmessage_response"), td.func("TaskDispatcher.handle_sfn_response"), ext.children.get("timeout_callback")]
    if paths[2] is None:
        raise AnalysisError("anchor not found: timeout_callback")
    facts = {}
    for f in paths:
        g = CFG(f.node)
        gates = [c for c in body_nodes(f) if isinstance(c, ast.Call) and callname(c) == "self.branch_has_terminated"]
        ok = len(gates) == 1 and [norm(a) for a in gates[0].args] == ["execution_arn", "branch_id"]
        chk.ob("C06.R2", "%s consults branch_has_terminated(execution_arn, branch_id)" % f.name, ok, "", key="%s | termination of the branch not consulted" % f.qname, where=f.where(),
               message="a late reply/timeout of a terminated sibling must be converted to Task.Terminated")
        if not ok:
            continue
        st = enclosing_stmt(td, gates[0])
        conv = isinstance(st, ast.If) and st.test is gates[0] and any("'Task.Terminated'" in norm(s) for s in st.body)
        chk.ob("C06.R2", "%s replaces the outcome by Task.Terminated when the branch has terminated" % f.name, conv, "", key="%s | no Task.Terminated conversion" % f.qname, where=f.where(st), message="")
        invs = [c for c in body_nodes(f) if isinstance(c, ast.Call) and isinstance(c.func, ast.Name) and c.func.id in ("callback", "send_error_callback")]
        later = [c for c in invs if c.lineno > gates[0].lineno]
        ok = bool(later) and all(g.dominates(g.node_of(st), g.containing_stmt_node(c, td)) for c in later)
        # invocations before the gate are only allowed on the StartSyncExecution shortcut (no branch, no task state)
        early = [c for c in invs if c.lineno < gates[0].lineno]
        ok_early = all(any("aws_api_StartSyncExecution" in norm(i.test) for i, arm in enclosing_ifs(td, c, f.node)) for c in early)
        chk.ob("C06.R2", "%s: the gate dominates the callback" % f.name, ok and ok_early, "", key="%s | callback not dominated by the termination gate" % f.qname, where=f.where(), message="")
        # execution_arn / branch_id are the request's own fields
        unp = [s for s in body_nodes(f) if isinstance(s, ast.Assign) and isinstance(s.targets[0], ast.Tuple) and norm(s.value) == "request"]
        ok = bool(unp) and norm(unp[0].targets[0].elts[1]) == "execution_arn" and norm(unp[0].targets[0].elts[4]) == "branch_id"
        chk.ob("C06.R2", "%s: execution_arn and branch_id come from the pending request" % f.name, ok, "", key="%s | gate arguments source" % f.qname, where=f.where(), message="")
        facts[f.name] = (conv, ok)
    chk.floor("C06.R2", len(facts), 3, "reply paths")
    # registration side: branch_id is the ID at the top of the task's Branch stack
    bd = [norm(x.value) for x in name_defs(ext, "branch_id") if isinstance(x, ast.Assign)]
    ok = bd == ["None", "context_state['Branch'][-1]['ID']"]
    chk.ob("C06.R2", "branch_id registered with a task is the ID of its innermost fan-out", ok, str(bd), key="%s | branch_id definitions %s" % (ext.qname, bd), where=ext.where(), message="")
    bh = td.func("TaskDispatcher.branch_has_terminated")
    txt = [norm(s) for s in ast.walk(bh.node) if isinstance(s, ast.stmt)]
    # the group's entry is looked up by the request's own branch id (hard or tolerant lookup: C06.R10 decides which is required), a truthy
    # 'terminated' mark of THAT entry answers True, everything else False
    look = [x for x in name_defs(bh, "branch_results") if isinstance(x, ast.Assign) and norm(x.value) in ("all_branch_results[branch_id]", "all_branch_results.get(branch_id)")]
    marks = [i for i in body_nodes(bh) if isinstance(i, ast.If) and "branch_results.get('terminated')" in norm(i.test) and any(isinstance(r, ast.Return) and const(r.value) is True for r in i.body)]
    ok = len(look) == 1 and len(marks) == 1 and isinstance(bh.node.body[-1], ast.Return) and const(bh.node.body[-1].value) is False
    chk.ob("C06.R2", "TaskDispatcher.branch_has_terminated reads the 'terminated' mark of that fan-out", ok, "", key="%s | shape" % bh.qname, where=bh.where(), message="")
    c09.r5(chk, ctx)


def r3(chk, ctx, p, se):
    notify = p.notify
    g = p.eng.cfg(notify)
    gate = [c for c in body_nodes(notify) if isinstance(c, ast.Call) and callname(c) == "self.branch_has_terminated"]
    chk.ob("C06.R3", "notify consults the termination gate once", len(gate) == 1, "", key="%s | gate calls: %d" % (notify.qname, len(gate)), where=notify.where(), message="")
    if len(gate) != 1:
        return
    st = enclosing_stmt(se, gate[0])
    ok = isinstance(st, ast.If) and st.test is gate[0] and len(st.body) == 1 and isinstance(st.body[0], ast.Return)
    chk.ob("C06.R3", "a terminated branch's event returns at once", ok, "", key="%s | gate arm does not return" % notify.qname, where=se.line(st), message="")
    gn = g.node_of(st)
    targets = [("handler dispatch", p.dispatch_site)]
    for c in body_nodes(notify):
        if isinstance(c, ast.Call) and last(callname(c)) == "update_execution_history":
            targets.append(("history update `%s`" % short(c.args[2], 30), c))
        if isinstance(c, ast.Compare) and "MAX_EXECUTION_HISTORY_LENGTH" in norm(c):
            targets.append(("history limit check", c))
    for what, n in targets:
        chk.ob("C06.R3", "%s dominated by the gate" % what, g.dominates(gn, g.containing_stmt_node(n, se)), "", key="%s | %s not dominated by the termination gate" % (notify.qname, what), where=se.line(n),
               message="an already queued event of a terminated sibling must add no history and run no handler")
    chk.floor("C06.R3", len(targets), 3, "gated sites in notify")
    a = gate[0].args
    ok = len(a) == 4 and [norm(x) for x in a[:3]] == ["state_type", "context", "id"]
    chk.ob("C06.R3", "gate receives (state_type, context, id, timeout)", ok, "", key="%s | gate arguments" % notify.qname, where=se.line(gate[0]), message="")
    # the gate's own contract (typestate): truthy => acknowledged
    proto_findings(chk, p, {"C03.R2", "C03.R1"}, func_filter=lambda r: r.get("func") == p.gate.qname)
    # marking: a terminated fan-out marks its range and the slot
    gf = p.gate
    txt = [norm(s) for s in ast.walk(gf.node) if isinstance(s, ast.stmt)]
    ok = "has_terminated = terminated or parent_terminated" in txt and "branch_results['terminated'] = iterator_range" in txt and "results[index] = '__TERMINATED__'" in txt
    chk.ob("C06.R3", "gate: terminated = own or parent fan-out terminated; slot marked", ok, "", key="%s | termination marking" % gf.qname, where=gf.where(), message="")
    want_guards = [("has_terminated", "body"), ("'Branch' in context['State']", "body")]
    mk = [s for s in body_nodes(gf) if isinstance(s, ast.Assign) and norm(s) == "results[index] = '__TERMINATED__'"]
    gi = [(norm(i.test), arm) for i, arm in enclosing_ifs(se, mk[0], gf.node)] if mk else None
    chk.ob("C06.R3", "the dropped event's slot is marked terminated whatever it held", gi == want_guards, str(gi),
           key="%s | slot marking is conditional: %s" % (gf.qname, gi), where=gf.where(mk[0]) if mk else gf.where(),
           message="a slot that still holds a pending marker ('__CAUGHT__') stays pending forever: the join state is never released and the backstop ends the execution a second time")
    cp = [c for c in body_nodes(gf) if isinstance(c, ast.Call) and callname(c) == "self.check_pending_results"]
    gi = [(norm(i.test), arm) for i, arm in enclosing_ifs(se, cp[0], gf.node)] if len(cp) == 1 else None
    chk.ob("C06.R3", "gate tidies pending results after dropping any event of a terminated branch", gi == want_guards, str(gi),
           key="%s | tidy-up call guards %s" % (gf.qname, gi), where=gf.where(),
           message="when the dropped event is a nested Parallel/Map state the join state would linger until the backstop ends the execution again")


def r4(chk, ctx, p, se):
    cp = se.func("StateEngine.check_pending_results")
    g = CFG(cp.node)
    canc = [n for n in body_nodes(cp) if isinstance(n, ast.If) and norm(n.test) == "event_id in self.task_dispatcher.cancellers"]
    chk.ob("C06.R4", "check_pending_results tests each pending slot's event id against the cancellers", len(canc) == 1, "", key="%s | canceller test" % cp.qname, where=cp.where(), message="")
    if len(canc) == 1:
        c = canc[0]
        ok = any(isinstance(x, ast.Call) and norm(x) == "self.task_dispatcher.cancel_task(event_id)" for s in c.body for x in ast.walk(s))
        chk.ob("C06.R4", "a pending slot with a canceller has its task cancelled", ok, "", key="%s | cancel_task call" % cp.qname, where=cp.where(c), message="pending tasks and waits of sibling branches are cancelled")
        ok = len(c.orelse) >= 1 and any(norm(s) == "results_pending = True" for s in c.orelse)
        chk.ob("C06.R4", "every other pending slot marks results_pending (unconditional else)", ok, [norm(s) for s in c.orelse],
               key="%s | a pending slot without a canceller does not always count as pending" % cp.qname, where=cp.where(c),
               message="an already queued sibling event has no canceller: if it does not count as pending the join state (and its 'terminated' mark) is deleted and the sibling runs on")
        gi = [norm(i.test) for i, arm in enclosing_ifs(se, c, cp.node)]
        ok = any("result[i] == None or result[i] == '__CAUGHT__'" == t for t in gi) and "has_terminated" in gi
        chk.ob("C06.R4", "slot scan: pending = None or '__CAUGHT__', only when something has terminated", ok, str(gi), key="%s | slot scan guards %s" % (cp.qname, gi), where=cp.where(c), message="")
        eid = [norm(x.value) for x in name_defs(cp, "event_id") if isinstance(x, ast.Assign)]
        chk.ob("C06.R4", "event id of slot i is ids[i]", "event_ids[i]" in eid, str(eid), key="%s | event id source" % cp.qname, where=cp.where(), message="")
    sd = sorted(norm(x.value) for x in name_defs(cp, "start") if isinstance(x, ast.Assign))
    edf = sorted(norm(x.value) for x in name_defs(cp, "end") if isinstance(x, ast.Assign))
    ok = sd == ["0", "int(terminated_range[0])"] and edf == ["int(terminated_range[1])", "len(result)"]
    chk.ob("C06.R4", "a fan-out without its own mark is scanned over its whole range once anything has terminated", ok, "%s / %s" % (sd, edf),
           key="%s | scan range definitions %s / %s" % (cp.qname, sd, edf), where=cp.where(),
           message="a failure in an outer fan-out must cancel the tasks of nested fan-outs too")
    loops = [l for l in body_nodes(cp) if isinstance(l, ast.For) and norm(l.iter) == "all_branch_results.values()"]
    skips = [x for l in loops for x in ast.walk(l) if isinstance(x, ast.Continue)]
    chk.ob("C06.R4", "no fan-out of the execution is skipped by the scan", not skips, "", key="%s | scan skips fan-outs (continue)" % cp.qname, where=cp.where(skips[0]) if skips else cp.where(), message="")
    rel = [c for c in body_nodes(cp) if isinstance(c, ast.Call) and callname(c) == "self.acknowledge_event_list"]
    ok = len(rel) == 1 and norm(rel[0].args[0]) == "event_ids"
    chk.ob("C06.R4", "held events of every fan-out are released", ok, "", key="%s | release of held events" % cp.qname, where=cp.where(), message="nothing may stay unacknowledged")
    dele = [s for s in body_nodes(cp) if isinstance(s, ast.Delete) and norm(s.targets[0]) == "self.branch_metadata[execution_arn]"]
    ok = len(dele) == 1 and [norm(i.test) for i, arm in enclosing_ifs(se, dele[0], cp.node)] == ["not results_pending"]
    chk.ob("C06.R4", "join state deleted only when no result is pending", ok, "", key="%s | join-state deletion guard" % cp.qname, where=cp.where(), message="")
    rp = [norm(x.value) for x in name_defs(cp, "results_pending") if isinstance(x, ast.Assign)]
    chk.ob("C06.R4", "results_pending starts False and is only ever set True", sorted(rp) == ["False", "True"], str(rp), key="%s | results_pending assignments" % cp.qname, where=cp.where(), message="")
    ht = [norm(x.value) for x in name_defs(cp, "has_terminated") if isinstance(x, ast.Assign)]
    chk.ob("C06.R4", "has_terminated = any fan-out of the execution carries the mark", ht == ["any(('terminated' in r for r in all_branch_results.values()))"], str(ht), key="%s | has_terminated" % cp.qname, where=cp.where(), message="")
    ael = se.func("StateEngine.acknowledge_event_list")
    txt = [norm(s) for s in ast.walk(ael.node) if isinstance(s, ast.stmt)]
    ok = "self.event_dispatcher.acknowledge(event_id)" in txt and "event_ids[i] = None" in txt
    chk.ob("C06.R4", "acknowledge_event_list acknowledges and clears each held id", ok, "", key="%s | shape" % ael.qname, where=ael.where(), message="")
    c05.r2(chk, ctx, p, se)
    # cancel_task
    td = ctx.mod("task_dispatcher")
    ct = td.func("TaskDispatcher.cancel_task")
    rq = [x for x in name_defs(ct, "request") if isinstance(x, ast.Assign)]
    ok = len(rq) == 1 and norm(rq[0].value) == "self.pending_requests.get(task_id)"
    tid = [norm(x.value) for x in name_defs(ct, "task_id") if isinstance(x, ast.Assign)]
    ok = ok and tid == ["canceller.get('TaskID')"]
    chk.ob("C06.R4", "cancel_task looks the request up under the canceller's TaskID", ok, "", key="TaskDispatcher.cancel_task | pending request looked up under a key other than the canceller's TaskID", where=ct.where(),
           message="the TaskID is the correlation id the request was registered under; for invoke/waitForTaskToken resources it differs from the event id")
    ext = td.func("TaskDispatcher.execute_task")
    n = 0
    for q, f in td.funcs.items():
        if not q.startswith(ext.qname + ".asl_service_"):
            continue
        regs = [s for s in body_nodes(f) if isinstance(s, ast.Assign) and any(isinstance(t, ast.Subscript) and norm(t.value) == "self.pending_requests" for t in s.targets)]
        cans = [c for c in body_nodes(f) if isinstance(c, ast.Call) and callname(c) in ("self.set_function_canceller", "self.set_sfn_canceller")]
        for s in regs:
            n += 1
            key = norm([t for t in s.targets if isinstance(t, ast.Subscript)][0].slice)
            ok = len(cans) == 1 and norm(cans[0].args[0]) == "event_id" and norm(cans[0].args[1]) == key
            chk.ob("C06.R4", "%s: canceller TaskID is the pending-request key `%s`" % (f.name, key), ok, "", key="%s | canceller TaskID differs from the pending key" % q, where=td.line(s), message="")
    chk.floor("C06.R4", n, 2, "task registrations")
    for setter, typ in (("set_function_canceller", "Function"), ("set_sfn_canceller", "StepFunction"), ("set_timeout_canceller", "Timeout")):
        f = td.func("TaskDispatcher." + setter)
        d = [n_ for n_ in body_nodes(f) if isinstance(n_, ast.Dict)]
        ok = len(d) == 1 and norm(d[0]) .startswith("{'Type': '%s', 'TaskID': task_id, 'Execution': execution_arn" % typ)
        chk.ob("C06.R4", "%s stores Type/TaskID/Execution" % setter, ok, "", key="TaskDispatcher.%s | record" % setter, where=f.where(), message="")
    txt = " ".join(norm(s) for s in ast.walk(ct.node) if isinstance(s, ast.stmt))
    chk.ob("C06.R4", "cancel_task reports Task.Terminated", "'errorType': 'Task.Terminated'" in txt, "", key="TaskDispatcher.cancel_task | error name", where=ct.where(), message="")
    chk.ob("C06.R4", "cancel_task removes the canceller first", "del self.cancellers[event_id]" in txt, "", key="TaskDispatcher.cancel_task | canceller removal", where=ct.where(), message="")
    c03.r6(chk, ctx)


def run(chk, ctx):
    p = ctx.protocol()
    se = ctx.mod("state_engine")
    c07.r5(chk, ctx, p, se)
    r2(chk, ctx)
    r3(chk, ctx, p, se)
    r4(chk, ctx, p, se)
    from . import round3
    round3.tidy_up_callers(chk, ctx)            # siblings are only torn down when their fan-out really failed
    from . import round4
    round4.cancelled_wait_reports_canceller(chk, ctx)
    round4.failed_fanout_torn_down(chk, ctx)
    round4.deferred_delegates_cancellable(chk, ctx)
    round4.gate_walks_whole_stack(chk, ctx)
    round4.gate_index_default(chk, ctx)
    round4.teardown_scoped_to_terminated_groups(chk, ctx)
    from . import round5
    round5.gates_tolerate_tidied_group(chk, ctx)
    round5.notify_fails_only_behind_the_gate(chk, ctx)
    chk.assume("given the decided clauses, whether a late sibling can still disturb the outcome depends on delivery order (not decided)")
