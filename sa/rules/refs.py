"""Reference rules: small single-purpose functions compared, as decision tables (sa/dtable.py), with what the property
demands of them.  A reference is only written for a function whose *whole* behaviour is a necessary condition of the
property that owns the rule (a store method, an ARN helper, a comparison operator, a message accessor): any change of
its effects, guards, arguments or result changes what a caller observes through the interface the property talks about.
The comparison is insensitive to control-flow shape, temporaries, local names, string-building idiom, logging, await and
helper extraction (see sa/dtable.py); it is not a text match.
"""
import ast

from ..core import AnalysisError
from .. import dtable


def _helpers_for(mod, func):
    """callables a refactoring may have extracted code into: methods of the same class (as self.x), module-level functions"""
    out = {}
    cls = func.cls
    for q, f in mod.funcs.items():
        if f.parent is None and f.cls is None:
            out.setdefault(f.name, f.node)
        elif cls is not None and f.cls == cls and f.parent is None:
            out.setdefault("self." + f.name, f.node)
    out.pop(func.name, None)
    out.pop("self." + func.name, None)
    return out


def reference(chk, ctx, rule, modname, qname, ref_src, why, keep=()):
    mod = ctx.mod(modname)
    f = mod.func(qname)
    try:
        eq, diffs, st = dtable.compare(f.node, ref_src, helpers=_helpers_for(mod, f), keep=keep)
    except dtable.TooComplex as e:
        raise AnalysisError("%s: %s is outside the fragment the decision-table comparison handles (%s)" % (rule, qname, e))
    d = diffs[0] if diffs else ""
    chk.ob(rule, "%s.%s agrees with its reference on every path (%d paths, %d atoms)" % (modname, qname, st["paths"], st["atoms"]), eq, d,
           key="%s | %s" % (qname, " ".join(d.split())[:220]), where=f.where(), message="%s; difference: %s" % (why, "; ".join(diffs[:3])[:600]))
    return eq


def run_table(chk, ctx, rule, modname, table, floor=None):
    n = 0
    for qname, ref_src, why in table:
        reference(chk, ctx, rule, modname, qname, ref_src, why)
        n += 1
    if floor is not None:
        chk.floor(rule, n, floor, "functions compared with their reference")
    return n


# ------------------------------------------------------------------------------------------------ C20: the stores are mappings

STORE_WHY = "the store must behave as a mapping over its own key namespace (what is written under a key is read back, deletion / membership / iteration / length agree)"

C20_STORE = [
    ("RedisStore.__delitem__", '''
def __delitem__(self, key):
    self.redis.delete(self.key + ":" + key)
''', STORE_WHY),
    ("RedisStore.__contains__", '''
def __contains__(self, key):
    return bool(self.redis.exists(self.key + ":" + key))
''', STORE_WHY),
    ("RedisStore.__len__", '''
def __len__(self):
    count = 0
    cursor = "0"
    while cursor != 0:
        cursor, iterable = self.redis.scan(cursor=cursor, match=self.key + ":*")
        count = count + len(iterable)
    return count
''', STORE_WHY),
    ("RedisStore.__iter__", '''
def __iter__(self):
    cursor = "0"
    while cursor != 0:
        cursor, iterable = self.redis.scan(cursor=cursor, match=self.key + ":*")
        yield from (self._remove_prefix(value.decode("utf-8")) for value in iterable)
''', STORE_WHY),
    ("RedisStore._remove_prefix", '''
def _remove_prefix(self, key):
    if key.startswith(self.key + ":"):
        return key[len(self.key + ":"):]
    return key
''', STORE_WHY),
    ("RedisStore.set_ttl", '''
def set_ttl(self, key, ttl):
    self.redis.expire(self.key + ":" + key, ttl)
''', "execution records receive the configured time-to-live, on their own key"),
    ("RedisDictStore.__getitem__", '''
def __getitem__(self, key):
    return RedisStore.RedisDict(redis=self.redis, key=self.key + ":" + key)
''', STORE_WHY),
    ("RedisListStore.__getitem__", '''
def __getitem__(self, key):
    return RedisStore.RedisList(redis=self.redis, key=self.key + ":" + key)
''', STORE_WHY),
    ("RedisDictStore.__setitem__", '''
def __setitem__(self, key, value):
    k = self.key + ":" + key
    if isinstance(value, RedisStore.RedisDict) and value.key == k:
        return
    if not isinstance(value, Mapping):
        raise TypeError("RedisDictStore can only store items of type Mapping")
    self.redis.delete(k)
    if value:
        RedisStore.RedisDict(value, redis=self.redis, key=k)
''', STORE_WHY),
    ("RedisListStore.__setitem__", '''
def __setitem__(self, key, value):
    k = self.key + ":" + key
    if isinstance(value, RedisStore.RedisList) and value.key == k:
        return
    if not isinstance(value, Sequence):
        raise TypeError("RedisListStore can only store items of type Sequence")
    self.redis.delete(k)
    if value:
        RedisStore.RedisList(value, redis=self.redis, key=k)
''', STORE_WHY),
    ("RedisStore._cache_invalidation_handler", '''
def _cache_invalidation_handler(self, message):
    for k in message["data"]:
        key = self._remove_prefix(k.decode("utf-8"))
        if key in self.cache:
            del self.cache[key]
''', "a cached view returns the current value once the server's invalidation has been delivered"),
    ("RedisStore._write_to_cache", '''
def _write_to_cache(self, key, value):
    if self.cache is None:
        return value
    if isinstance(value, RedisStore.RedisDict):
        cached_value = dict(value)
    elif isinstance(value, RedisStore.RedisList):
        cached_value = list(value)
    else:
        cached_value = value
    self.cache[key] = cached_value
    if len(self.cache) > self.cache_size:
        del self.cache[next(iter(self.cache))]
    return cached_value
''', "the cache holds detached native copies and never more than its capacity"),
    ("RedisStore.get_cached_view", '''
def get_cached_view(self, key, default=None):
    if self.redis_version < 600 or self.cache_size == 0:
        return self[key]
    if self.tracker_id is None:
        self.cache = OrderedDict()
        self._start_tracking()
    try:
        value = self.cache[key]
        self.cache.move_to_end(key)
    except KeyError:
        value = self[key]
        value = self._write_to_cache(key, value)
    return value
''', "a cached view is served from the cache only while tracking is on, and a miss is fetched from the server and cached"),
    ("JSONStore.__getitem__", '''
def __getitem__(self, key):
    return self.store[key]
''', STORE_WHY),
    ("JSONStore.__setitem__", '''
def __setitem__(self, key, value):
    self.store[key] = value
    self._update_store()
''', STORE_WHY + "; definitions written through the file store survive a restart"),
    ("JSONStore.__delitem__", '''
def __delitem__(self, key):
    del self.store[key]
    self._update_store()
''', STORE_WHY + "; definitions written through the file store survive a restart"),
    ("JSONStore.__iter__", '''
def __iter__(self):
    return iter(self.store)
''', STORE_WHY),
    ("JSONStore.__len__", '''
def __len__(self):
    return len(self.store)
''', STORE_WHY),
    ("JSONStore.__contains__", '''
def __contains__(self, key):
    return key in self.store
''', STORE_WHY),
    ("JSONStore.get_cached_view", '''
def get_cached_view(self, key, default=None):
    return self.get(key, default)
''', STORE_WHY),
    ("SimpleStore.get_cached_view", '''
def get_cached_view(self, key, default=None):
    return self.get(key, default)
''', STORE_WHY),
]


def c20_store_methods(chk, ctx):
    run_table(chk, ctx, "C20.R9", "store", C20_STORE, floor=20)
