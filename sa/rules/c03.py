"""C03 - events acked once, after their consequences; nothing leaks (structural clauses)."""
import ast

from ..core import AnalysisError, dotted, callname, last, const, short, norm, kwarg, walk_no_nested_incl
from ..cfg import CFG
from ..util import body_nodes, all_nodes, enclosing_ifs
from .shared import proto_findings

EXPLANATION = (
    "Static analysis of the current /repo source. Decides: (R1) on every CFG path of every event handler no consequence "
    "(publish, change_state, handle_error, terminal handling, history update, notification, deferral) follows the "
    "acknowledgement of the handler's own event, and no event id is acknowledged twice on a path; (R2) every path leaves the "
    "id acknowledged, held in the fan-out's ids list, or handed to a deferred callback; (R3) the ack primitive looks the message "
    "up, acknowledges it with multiple=False and deletes it, in that order, dispatch registers before notify and acknowledges "
    "poison messages; (R4) every Message.acknowledge call site passes multiple=False; (R5) the join holds the id before it can "
    "return 'pending'; (R6) every pending_requests/cancellers/orphaned_responses insertion has its removal on each completion "
    "path, before the callback runs. Not decided: the drain clause at quiescence and the liveness clause under arbitrary "
    "interleavings."
    ' (R12) every handler of dispatch that acknowledges the delivery itself also forgets its entry in unacknowledged_messages; (R13) the retention timer of an orphaned reply acknowledges the reply retained when it fires (data-derived from orphaned_responses), not the message captured when it was armed.'
    ' (R14) in the arm of handle_error that tears a failed fan-out down for a retry, the retry event is published before the held branch events are released.'
    ' (R15) the id under which dispatch retains a delivery is never None (a message without a message id is given one or refused); reported on the current tree as D76.')
RULE_TEXT = ("obligation = one (entry, rule) pair for the path rules (all CFG paths of the entry, fixpoint over a finite domain) or one "
             "call/store site for the site rules; non-trivial = distinct (rule, site)")


def r3(chk, ctx):
    ed = ctx.mod("event_dispatcher")
    ack = ed.func("EventDispatcher.acknowledge")
    g = CFG(ack.node)
    lookup = ackcall = delete = None
    msgvar = None
    for n in body_nodes(ack):
        if isinstance(n, ast.Assign) and isinstance(n.value, ast.Subscript) and last(dotted(n.value.value) or "") == "unacknowledged_messages":
            lookup, msgvar = n, (n.targets[0].id if isinstance(n.targets[0], ast.Name) else None)
        if isinstance(n, ast.Delete) and any(isinstance(t, ast.Subscript) and last(dotted(t.value) or "") == "unacknowledged_messages" for t in n.targets):
            delete = n
    for n in body_nodes(ack):
        if isinstance(n, ast.Call) and isinstance(n.func, ast.Attribute) and n.func.attr == "acknowledge" and isinstance(n.func.value, ast.Name) and n.func.value.id == msgvar:
            ackcall = n
    ok = lookup is not None and ackcall is not None and delete is not None
    chk.ob("C03.R3", "ack primitive: lookup, message.acknowledge, delete all present", ok, "",
           key="EventDispatcher.acknowledge | lookup/ack/delete triple incomplete", where=ack.where(),
           message="acknowledge(id) must look the message up, acknowledge it and delete the entry")
    if ok:
        a, b, c = g.node_of(lookup), g.containing_stmt_node(ackcall, ed), g.node_of(delete)
        chk.ob("C03.R3", "ack primitive order lookup -> ack -> delete", g.dominates(a, b) and g.dominates(b, c), "",
               key="EventDispatcher.acknowledge | order of lookup/ack/delete", where=ack.where(),
               message="the message must be acknowledged before its entry is forgotten, and looked up before that")
        m = kwarg(ackcall, "multiple")
        chk.ob("C03.R3", "ack primitive passes multiple=False", isinstance(m, ast.Constant) and m.value is False, "",
               key="EventDispatcher.acknowledge | multiple is not False", where=ed.line(ackcall),
               message="acknowledging with multiple=True acknowledges every earlier delivery on the channel")
        # the key used for lookup and delete is the parameter
        p = ack.node.args.args[1].arg if len(ack.node.args.args) > 1 else None
        same = norm(lookup.value.slice) == p and all(norm(t.slice) == p for t in delete.targets if isinstance(t, ast.Subscript))
        chk.ob("C03.R3", "ack primitive uses its id parameter for lookup and delete", same, "",
               key="EventDispatcher.acknowledge | lookup/delete key is not the id parameter", where=ack.where(), message="")
    # dispatch
    disp = ed.func("EventDispatcher.dispatch")
    g = CFG(disp.node)
    reg = notify = None
    for n in body_nodes(disp):
        if isinstance(n, ast.Assign) and any(isinstance(t, ast.Subscript) and last(dotted(t.value) or "") == "unacknowledged_messages" for t in n.targets):
            reg = n
        if isinstance(n, ast.Call) and last(callname(n)) == "notify":
            notify = n
    ok = reg is not None and notify is not None
    chk.ob("C03.R3", "dispatch registers the message and calls notify", ok, "", key="EventDispatcher.dispatch | registration or notify call missing",
           where=disp.where(), message="")
    if ok:
        chk.ob("C03.R3", "dispatch: registration dominates notify", g.dominates(g.node_of(reg), g.containing_stmt_node(notify, ed)), "",
               key="EventDispatcher.dispatch | notify not dominated by registration", where=ed.line(notify),
               message="the state engine may acknowledge during notify, so the message must be registered first")
        regkey = norm([t for t in reg.targets if isinstance(t, ast.Subscript)][0].slice)
        idarg = norm(notify.args[1]) if len(notify.args) > 1 else None
        chk.ob("C03.R3", "dispatch: id passed to notify is the registration key", regkey == idarg, "%s vs %s" % (regkey, idarg),
               key="EventDispatcher.dispatch | id passed to notify differs from registration key", where=ed.line(notify), message="")
        chk.ob("C03.R3", "dispatch: registered value is the message object", norm(reg.value) == disp.node.args.args[1].arg, "",
               key="EventDispatcher.dispatch | registers something other than the message", where=ed.line(reg), message="")
        rd = notify.args[2] if len(notify.args) > 2 else kwarg(notify, "redelivered")
        chk.ob("C03.R3", "dispatch: redelivered flag forwarded", rd is not None and norm(rd).endswith(".redelivered"), "",
               key="EventDispatcher.dispatch | redelivered flag not forwarded to notify", where=ed.line(notify), message="")
        # every except arm of the try around notify acknowledges the poison message
        tr = None
        n = notify
        while n is not None:
            n = ed.parent(n)
            if isinstance(n, ast.Try):
                tr = n
                break
        chk.ob("C03.R3", "dispatch: notify is inside a try", tr is not None, "", key="EventDispatcher.dispatch | notify outside try", where=ed.line(notify), message="")
        if tr is not None:
            catch_all = False
            for h in tr.handlers:
                acks = [c for c in ast.walk(h) if isinstance(c, ast.Call) and isinstance(c.func, ast.Attribute) and c.func.attr == "acknowledge"]
                good = any(isinstance(kwarg(c, "multiple"), ast.Constant) and kwarg(c, "multiple").value is False for c in acks)
                # going through the dispatcher's own primitive is an acknowledgement too (its shape is checked above)
                good = good or any(norm(c.func) == "self.acknowledge" for c in acks)
                tn = "bare" if h.type is None else norm(h.type)
                if h.type is None or "Exception" in tn.replace("(", " ").replace(")", " ").replace(",", " ").split():
                    catch_all = True
                chk.ob("C03.R3", "dispatch: except %s acknowledges the poison message" % tn, good, "",
                       key="EventDispatcher.dispatch | except %s does not acknowledge" % tn, where=ed.line(h),
                       message="a poison message that is not acknowledged is redelivered forever")
            chk.ob("C03.R3", "dispatch: a catch-all arm exists", catch_all, "", key="EventDispatcher.dispatch | no catch-all arm", where=ed.line(tr), message="")


def r3b(chk, ctx):
    """dispatch's poison arms must be able to run: they may only read names bound before the try"""
    ed = ctx.mod("event_dispatcher")
    disp = ed.func("EventDispatcher.dispatch")
    for tr in [n for n in body_nodes(disp) if isinstance(n, ast.Try)]:
        bound_in_try = set()
        for s in tr.body:
            for x in ast.walk(s):
                if isinstance(x, ast.Name) and isinstance(x.ctx, ast.Store):
                    bound_in_try.add(x.id)
        params = {a.arg for a in disp.node.args.args}
        for h in tr.handlers:
            used = {x.id for x in ast.walk(h) if isinstance(x, ast.Name) and isinstance(x.ctx, ast.Load)}
            bad = sorted((used & bound_in_try) - params - ({h.name} if h.name else set()))
            chk.ob("C03.R3", "dispatch: except %s uses no name bound only inside the try" % (norm(h.type) if h.type else "bare"), not bad, str(bad),
                   key="EventDispatcher.dispatch | handler reads %s, which may be unbound when the try failed early" % bad, where=ed.line(h),
                   message="the handler itself raises (UnboundLocalError) for a message that fails before the binding: the poison message is never acknowledged")


def r4(chk, ctx):
    res = ctx.res
    count = 0
    for name in ("event_dispatcher", "task_dispatcher", "state_engine", "rest_api", "rest_api_asyncio"):
        m = ctx.mod(name)
        for q, f in m.funcs.items():
            for n in body_nodes(f):
                if isinstance(n, ast.Call) and isinstance(n.func, ast.Attribute) and n.func.attr == "acknowledge":
                    t = res.resolve(n, f)
                    if t is not None and t.qname == "EventDispatcher.acknowledge":
                        continue
                    recv = dotted(n.func.value) or ""
                    if last(recv) == "event_dispatcher":
                        continue
                    count += 1
                    mk = kwarg(n, "multiple")
                    ok = isinstance(mk, ast.Constant) and mk.value is False
                    chk.ob("C03.R4", "%s: %s" % (q, short(n, 60)), ok, "", key="%s | %s without multiple=False" % (q, norm(n.func)),
                           where=m.line(n), message="Message.acknowledge defaults to multiple=True, which acknowledges every earlier delivery on the channel")
    chk.floor("C03.R4", count, 6, "Message.acknowledge call sites (8 on the pinned tree)")
    # the default the rule guards against is still the dangerous one? (informational)
    for name in ("amqp_0_9_1_messaging", "amqp_0_9_1_messaging_asyncio"):
        m = ctx.mod(name)
        f = m.funcs.get("Message.acknowledge")
        if f is None:
            raise AnalysisError("anchor not found: Message.acknowledge in " + name)
        d = f.node.args.defaults
        chk.sample({"rule": "C03.R4", "binding": name, "Message.acknowledge default multiple": norm(d[0]) if d else None})


def r5(chk, ctx):
    p = ctx.protocol()
    se = ctx.mod("state_engine")
    join = p.join
    holds = []
    for n in body_nodes(join):
        if isinstance(n, ast.Assign) and isinstance(n.value, ast.Name) and n.value.id == "id" and any(isinstance(t, ast.Subscript) for t in n.targets):
            holds.append(n)
    chk.ob("C03.R5", "join stores the handler's event id in the fan-out's ids list", len(holds) >= 1, "",
           key="%s | event id never held" % join.qname, where=join.where(),
           message="a branch's terminal event must be held (unacknowledged) until the join completes")
    g = p.eng.cfg(join)
    pend = p.join_pending_returns()
    chk.floor("C03.R5", len(pend), 1, "pending-return of the join")
    for h in holds:
        guards = enclosing_ifs(se, h, join.node)
        def _conj(t):
            return sorted(norm(v) for v in (t.values if isinstance(t, ast.BoolOp) and isinstance(t.op, ast.And) else [t]))
        ok_guard = len(guards) <= 1 and all(arm == "body" and _conj(i.test) == ["previous_state_type != 'Map'", "previous_state_type != 'Parallel'"] for i, arm in guards)
        chk.ob("C03.R5", "hold is guarded only by 'previous state is not a Parallel/Map'", ok_guard, [norm(i.test) for i, _ in guards],
               key="%s | hold under an extra guard" % join.qname, where=se.line(h),
               message="the id must be held for every non-fan-out terminal state")
        anchor = g.node_of(guards[0][0]) if guards else g.node_of(h)
        for r in pend:
            chk.ob("C03.R5", "hold dominates the pending return", g.dominates(anchor, g.node_of(r)), "",
                   key="%s | pending return not dominated by the hold" % join.qname, where=se.line(r),
                   message="returning 'still waiting' before the id is held loses the event's acknowledgement")
        # the stored slot index is the branch's own Index
        t = [t for t in h.targets if isinstance(t, ast.Subscript)][0]
        chk.sample({"rule": "C03.R5", "hold": short(h), "at": se.line(h)})


def _completion_functions(td):
    out = []
    for q, f in td.funcs.items():
        for n in body_nodes(f):
            if isinstance(n, ast.Call) and isinstance(n.func, ast.Attribute) and n.func.attr == "get" and last(dotted(n.func.value) or "") == "pending_requests":
                out.append((f, n))
                break
    return out


def r6(chk, ctx):
    td = ctx.mod("task_dispatcher")
    se = ctx.mod("state_engine")
    comps = _completion_functions(td)
    chk.floor("C03.R6", len(comps), 4, "completion paths reading pending_requests")
    for f, getcall in comps:
        g = CFG(f.node)
        keyexpr = norm(getcall.args[0])
        dels = [n for n in body_nodes(f) if isinstance(n, ast.Delete) and any(
            isinstance(t, ast.Subscript) and last(dotted(t.value) or "") == "pending_requests" and norm(t.slice) == keyexpr for t in n.targets)]
        chk.ob("C03.R6", "%s deletes the pending entry it looked up" % f.qname, len(dels) >= 1, "",
               key="%s | pending_requests entry not deleted" % f.qname, where=f.where(),
               message="a completion path that leaves the pending entry behind lets the task complete twice and leaks per-execution state")
        if not dels:
            continue
        dn = g.node_of(dels[0])
        # callback invocations: calls of a bare name `callback` or of send_error_callback
        # callback invocations that belong to the looked-up request: those nested in the `if <request>:` block
        reqvar = None
        par = td.parent(getcall)
        if isinstance(par, ast.Assign) and isinstance(par.targets[0], ast.Name):
            reqvar = par.targets[0].id
        scope = [i for i in body_nodes(f) if isinstance(i, ast.If) and isinstance(i.test, ast.Name) and i.test.id == reqvar]
        inner = set()
        for i in scope:
            for st in i.body:
                for x in walk_no_nested_incl(st):
                    inner.add(id(x))
        invs = [n for n in body_nodes(f) if isinstance(n, ast.Call) and isinstance(n.func, ast.Name) and n.func.id in ("callback", "send_error_callback") and id(n) in inner]
        chk.ob("C03.R6", "%s invokes the completion callback" % f.qname, len(invs) >= 1, "",
               key="%s | no callback invocation" % f.qname, where=f.where(), message="")
        for inv in invs:
            chk.ob("C03.R6", "%s: delete dominates %s" % (f.qname, short(inv, 40)), g.dominates(dn, g.containing_stmt_node(inv, td)), "",
                   key="%s | callback invoked before the pending entry is deleted" % f.qname, where=td.line(inv),
                   message="the callback may re-enter the dispatcher; the entry must be gone first (at most once)")
    # insertions
    ins = []
    for q, f in td.funcs.items():
        for n in body_nodes(f):
            if isinstance(n, ast.Assign) and any(isinstance(t, ast.Subscript) and last(dotted(t.value) or "") == "pending_requests" for t in n.targets):
                ins.append((f, n))
    chk.floor("C03.R6", len(ins), 2, "pending_requests insertions")
    for f, n in ins:
        tup = n.value
        ok = isinstance(tup, ast.Tuple) and len(tup.elts) == 8
        chk.ob("C03.R6", "%s registers the 8-field request tuple" % f.qname, ok, "", key="%s | request tuple arity" % f.qname, where=td.line(n),
               message="all four completion paths unpack eight fields")
    # cancellers: every path of on_response / on_timeout removes or cancels the canceller
    p = ctx.protocol()
    for q, f in sorted(p.deferred_targets.items()):
        if f.name not in ("on_response", "on_timeout"):
            continue
        g = p.eng.cfg(f)
        rem = set()
        for n in body_nodes(f):
            if isinstance(n, ast.Call) and last(callname(n)) in ("cancel_task", "remove_canceller"):
                a = n.args[0] if n.args else None
                if isinstance(a, ast.Name) and a.id == "id":
                    rem.add(g.containing_stmt_node(n, se))
        leak = g.exit in g.reachable_from(g.entry, avoid=rem)
        chk.ob("C03.R6", "%s: every path removes or cancels the canceller of its event" % q, not leak and bool(rem), "",
               key="%s | path that leaves the canceller registered" % q, where=f.where(),
               message="a canceller left behind is per-execution state that is never freed and may cancel a later task with the same id")
    # orphaned responses: deletion accompanies acknowledgement
    h = td.func("TaskDispatcher.handle_rpcmessage_response")
    lo = h.children.get("log_and_acknowledge_orphaned_responses")
    if lo is None:
        raise AnalysisError("anchor not found: log_and_acknowledge_orphaned_responses")
    g = CFG(lo.node)
    dele = [n for n in body_nodes(lo) if isinstance(n, ast.Delete) and any(isinstance(t, ast.Subscript) and last(dotted(t.value) or "") == "orphaned_responses" for t in n.targets)]
    acks = [n for n in body_nodes(lo) if isinstance(n, ast.Call) and isinstance(n.func, ast.Attribute) and n.func.attr == "acknowledge"]
    chk.ob("C03.R6", "orphan handler deletes the orphan entry and acknowledges the reply", bool(dele) and bool(acks), "",
           key="%s | orphan deletion/acknowledge pair incomplete" % lo.qname, where=lo.where(), message="")
    if dele and acks:
        same_block = se is not None and td.parent(dele[0]) is td.parent(td.parent(acks[0])) if isinstance(td.parent(acks[0]), ast.Expr) else False
        chk.ob("C03.R6", "orphan deletion and acknowledge are in the same guarded block", same_block, "",
               key="%s | orphan deletion and acknowledge under different guards" % lo.qname, where=td.line(dele[0]), message="")


def r7(chk, ctx):
    """engine-internal publishes are issued before the handler returns (never deferred with threadsafe)"""
    n = 0
    for mn in ("state_engine", "task_dispatcher"):
        m = ctx.mod(mn)
        for q, f in m.funcs.items():
            for c in body_nodes(f):
                if isinstance(c, ast.Call) and last(callname(c)) == "publish" and "event_dispatcher" in callname(c):
                    n += 1
                    ts = kwarg(c, "threadsafe", 1)
                    ok = ts is None or (isinstance(ts, ast.Constant) and ts.value is False)
                    chk.ob("C03.R7", "%s: publish is immediate (not threadsafe-deferred)" % q, ok, norm(c),
                           key="%s | publish deferred past the handler (`%s`)" % (q, short(c, 60)), where=m.line(c),
                           message="a deferred publish runs after the handler has acknowledged its event: a crash in between loses the successor/child start; a positional second argument of publish is `threadsafe`, not `use_shared_queue`")
    chk.floor("C03.R7", n, 5, "engine-internal publish sites")


def run(chk, ctx):
    from . import round5
    round5.retained_delivery_has_an_id(chk, ctx, "C03.R15")   # a delivery retained under None can be acknowledged by another event
    from . import generic
    generic.definite_assignment(chk, ctx, ['event_dispatcher'], "C03.DA")   # no local is read before it is bound (UnboundLocalError = an arbitrary exception)
    p = ctx.protocol()
    # C03.R1b (a second acknowledge of the handler's own id) is reported by the protocol but is NOT a violation: EventDispatcher.acknowledge
    # looks the id up in unacknowledged_messages and swallows the KeyError, so a repeated acknowledge through the id table is a no-op (DESIGN 8.5 FA-11)
    proto_findings(chk, p, {"C03.R1", "C03.R2", "C18.R4"}, func_filter=lambda r: r["rule"] != "C18.R4" or True)
    _ack_is_idempotent(chk, ctx)
    chk.floor("C03.R1", len(p.entries), 16, "analysed handler entries")
    r3(chk, ctx)
    r3b(chk, ctx)
    r4(chk, ctx)
    r5(chk, ctx)
    r6(chk, ctx)
    from . import c05, c06
    c05.r2(chk, ctx, p, ctx.mod("state_engine"))
    c06.r4(chk, ctx, p, ctx.mod("state_engine"))     # drain clause: join state / held events released exactly when nothing is pending
    r7(chk, ctx)
    r8(chk, ctx)
    from . import round3
    round3.tidy_up_callers(chk, ctx)            # held branch events are released only when the fan-out is torn down
    round3.retained_ack(chk, ctx)
    round3.drop_arm_acks_directly(chk, ctx)
    from . import round4, c08
    round4.orphan_entry_timer_paired(chk, ctx)
    round4.failed_fanout_torn_down(chk, ctx)     # held events of a caught fan-out failure are never acknowledged
    round4.gate_index_default(chk, ctx)          # join state that is never released
    round4.teardown_after_terminal_notification(chk, ctx)
    from . import round5
    round5.dropped_message_is_forgotten(chk, ctx)
    round5.orphan_timer_acks_retained(chk, ctx)
    round5.retry_arm_publishes_before_teardown(chk, ctx)
    c08.r4(chk, ctx)                         # 'no timer left behind': every completion path disarms the request's timer
    round3.timer_cleared_only_on_completion(chk, ctx)
    chk.assume("the broker redelivers unacknowledged messages (trusted)")
    chk.assume("engine-internal calls do not raise; exception edges come from the may-raise table of sa/flow.py")
    chk.assume("an uncaught exception in a timer/reply callback is not acknowledged by anybody (C18.R4 findings are therefore also C03 findings)")


def _ack_is_idempotent(chk, ctx):
    """the premise under which a repeated acknowledge(id) is harmless: the id-table acknowledge removes the entry and swallows a miss"""
    ed = ctx.mod("event_dispatcher")
    f = ed.func("EventDispatcher.acknowledge")
    trys = [n for n in f.node.body if isinstance(n, ast.Try)]
    others = [n for n in f.node.body if not isinstance(n, ast.Try) and not (isinstance(n, ast.Expr) and isinstance(n.value, ast.Constant))]
    chk.ob("C03.R1b", "EventDispatcher.acknowledge does nothing but the single-delivery acknowledge (no other arm, `id` has no default)", not others and not f.node.args.defaults, "",
           key="EventDispatcher.acknowledge | has an arm besides the single-delivery acknowledge (`%s`)" % (short(others[0], 60) if others else "id=<default>"), where=f.where(others[0]) if others else f.where(),
           message="every handler calls acknowledge(id) for its own event; an arm that acknowledges other held deliveries (e.g. all of them for id None) acknowledges events of other executions before their consequences are issued")
    ok = len(trys) == 1 and any(h.type is None or norm(h.type) in ("Exception", "KeyError", "(KeyError, Exception)") for h in trys[0].handlers)
    if ok:
        body = [norm(s) for s in trys[0].body]
        ok = body == ["message = self.unacknowledged_messages[id]", "message.acknowledge(multiple=False)", "del self.unacknowledged_messages[id]"]
    chk.ob("C03.R1b", "EventDispatcher.acknowledge(id): look up, acknowledge that delivery only, remove; a missing id is swallowed", ok, "",
           key="EventDispatcher.acknowledge | id-table acknowledge is no longer lookup / ack(multiple=False) / delete inside a catch-all", where=f.where(),
           message="handlers rely on acknowledge(id) acknowledging exactly one delivery once: without the removal a second call acknowledges the delivery twice, without the catch-all a repeated call raises in the handler")


def r8(chk, ctx):
    """every path of the reply handler disposes of the reply message exactly once: acknowledged, or parked as an orphan
    (whose timer / later match acknowledges it)"""
    from ..flow import FlowEngine, State
    td = ctx.mod("task_dispatcher")
    h = td.func("TaskDispatcher.handle_rpcmessage_response")
    eng = FlowEngine(ctx.repo, ctx.res, depth=2)
    lo = h.children.get("log_and_acknowledge_orphaned_responses")

    def call_hook(e, func, call, st, tag, target, node):
        nm = norm(call.func)
        if nm == "message.acknowledge":
            fl = st.flags | ({"dup"} if ("ack" in st.flags or "parked" in st.flags) and "unparked" not in st.flags else set()) | {"ack"}
            return [(st._replace(flags=frozenset(fl)), None)]
        if target is lo:
            # acknowledges the message iff it is parked under its correlation id
            if "parked" in st.flags:
                return [(st._replace(flags=(st.flags - {"parked"}) | {"ack", "unparked"}), None)]
            return [(st, None)]
        return [(st, None)]

    def stmt_hook(e, func, node, st):
        a = node.ast
        if isinstance(a, ast.Assign) and any(isinstance(t, ast.Subscript) and norm(t.value) == "self.orphaned_responses" for t in a.targets) \
                and isinstance(a.value, ast.Tuple) and a.value.elts and norm(a.value.elts[0]) == "message":
            return st._replace(flags=st.flags | {"parked"})
        return st

    exits = eng.run(h, State(False, 0, False, frozenset(), frozenset()), {"call_hook": call_hook, "stmt_hook": stmt_hook})
    n = 0
    seen = set()
    for kind, st, rv, key in exits:
        if kind != "normal":
            continue
        n += 1
        disposed = "ack" in st.flags or "parked" in st.flags
        path = eng.trail(key, limit=40)
        tests = []
        g = eng._last_cfg
        last_stmt = g.nodes[key[0]].ast
        gi = [norm(i.test)[:60] + ("" if arm == "body" else " [else]") for i, arm in enclosing_ifs(td, last_stmt, h.node)] if last_stmt is not None else []
        sig = " / ".join(reversed(gi)) or "function end"
        if not disposed and sig not in seen:
            seen.add(sig)
            chk.ob("C03.R8", "reply handler path disposes of the reply", False, sig,
                   key="%s | reply neither acknowledged nor parked on the path ending under: %s" % (h.qname, sig), where=h.where(last_stmt) if last_stmt is not None else h.where(), path=path,
                   message="the reply message stays unacknowledged for the life of the connection and is redelivered on every reconnect")
        if "dup" in st.flags and ("dup", sig) not in seen:
            seen.add(("dup", sig))
            chk.ob("C03.R8", "reply acknowledged at most once", False, sig, key="%s | reply acknowledged twice on a path (%s)" % (h.qname, sig), where=h.where(), path=path, message="")
    chk.ob("C03.R8", "all %d exit paths of the reply handler examined" % n, True, "")
    chk.floor("C03.R8", n, 5, "exit paths of the reply handler")
