"""Reviewed-behaviour rule (Cnn.RV): the functions whose behaviour is the subject of a property are behaviourally what was reviewed.

Every clause-specific rule of sa/rules decides one structural clause.  The rest of what the property needs from a function
was established by reading it (DESIGN.md sections 5, 6, 8.3: the reading produced findings D1..D41).  That reading only
transfers to the current tree for functions that still *behave* as the version that was read.  sa/normalise.py compares
every function with the reviewed copy (sa/reference/) and proves edited statement runs interchangeable with the reviewed
ones where it can (decision tables, sa/dtable.py).  A run it cannot prove interchangeable, and for which it holds a witness
- a condition under which the effects, the exit or a value that is read afterwards differ - is a behavioural change of a
reviewed function, and is reported under every property whose subject that function is (table below).  This is the
guidance's "the instances confirmed on today's tree are the reference for any later change", made insensitive to
refactoring by the equivalence proof rather than by comparing text.

A changed run the engine cannot analyse (outside the fragment, too complex, time budget) is reported too, worded as what it is:
changed, and not shown to behave as reviewed.  New functions nobody reviewed are covered only where a reviewed function calls them (they are inlined for the proof).
"""
import ast
import os

from ..core import AnalysisError

SE, SP, TD, ED = "state_engine", "state_engine_paths", "task_dispatcher", "event_dispatcher"
RA, RB, ST, ARN, EXC = "rest_api", "rest_api_asyncio", "store", "arn", "asl_exceptions"
AM, AMA, SL, J2 = "amqp_0_9_1_messaging", "amqp_0_9_1_messaging_asyncio", "statelint", "j2119"
WE = "workflow_engine"
N = "StateEngine.notify."
ALL = "*"

# property -> [(module, [qualified-name prefixes; "X$" = exactly X, not its nested functions; "*" = every function of the module])]
SUBJECT = {
    "C01": [(SE, ["StateEngine.notify", "StateEngine.change_state", "merge_result", "find_state", "parse_rfc3339_datetime", "StateEngine.end_execution", "StateEngine.update_execution_history"]), (SP, [ALL]), (EXC, [ALL])],
    "C02": [(SE, ["StateEngine.start_execution", "StateEngine.end_execution", N + "handle_terminal_state", N + "handle_error", "StateEngine.check_for_expired_branch_results",
                  "BranchMetadata.__init__", "StateEngine.notify$", "StateEngine.check_pending_results", "StateEngine.branch_has_terminated", N + "asl_state_collect_results",
                  N + "asl_state_Task", N + "asl_state_Task_delegate", N + "asl_state_Wait"]),
            (TD, ["TaskDispatcher.handle_sfn_response", "TaskDispatcher.cancel_task", "TaskDispatcher.execute_task", "TaskDispatcher.handle_rpcmessage_response"]), ("metrics_summary", [ALL]),
            (AM, ["Connection.set_timeout", "Connection.clear_timeout"]), (AMA, ["Connection.set_timeout", "Connection.clear_timeout"])],
    "C03": [(ED, ["EventDispatcher.dispatch", "EventDispatcher.acknowledge", "EventDispatcher.publish", "EventDispatcher.heartbeat", "EventDispatcher.set_timeout", "EventDispatcher.clear_timeout"]),
            (SE, ["StateEngine.acknowledge_event_list", "StateEngine.check_pending_results", "StateEngine.branch_has_terminated", N + "asl_state_collect_results", N + "handle_terminal_state",
                  "StateEngine.notify$", "StateEngine.end_execution", "StateEngine.check_for_expired_branch_results", N + "asl_state_Wait", N + "asl_state_Task_delegate"]),
            (TD, ["TaskDispatcher.handle_rpcmessage_response", "TaskDispatcher.handle_orphaned_responses", "TaskDispatcher.schedule_orphaned_response_handler", "TaskDispatcher.cancel_task",
                  "TaskDispatcher.remove_canceller", "TaskDispatcher.set_rpcmessage_canceller", "TaskDispatcher.set_sfn_canceller", "TaskDispatcher.set_wait_canceller",
                  "TaskDispatcher.execute_task",
                  "TaskDispatcher.handle_sfn_response", "TaskDispatcher.handle_unroutable_rpcmessage"]),
            (AM, ["Connection.set_timeout", "Connection.clear_timeout", "Message.acknowledge", "Session.acknowledge"]), (AMA, ["Connection.set_timeout", "Connection.clear_timeout", "Message.acknowledge", "Session.acknowledge"])],
    "C04": [(TD, ["TaskDispatcher.execute_task$", "TaskDispatcher.execute_task.asl_service_rpcmessage", "TaskDispatcher.execute_task.asl_service_states_startExecution", "TaskDispatcher.handle_rpcmessage_response", "TaskDispatcher.handle_orphaned_responses", "TaskDispatcher.schedule_orphaned_response_handler",
                  "TaskDispatcher.start", "TaskDispatcher.start_asyncio"]),
            (ED, ["EventDispatcher.dispatch", "EventDispatcher.acknowledge", "EventDispatcher.start", "EventDispatcher.start_asyncio"]),
            (SE, ["StateEngine.update_execution_history", "StateEngine.start_execution", "StateEngine.notify$", N + "asl_state_Task_delegate", N + "asl_state_Wait", N + "handle_error"]),
            (ST, ["JSONStore"])],
    "C05": [(SE, [N + "asl_state_Map", N + "asl_state_Map_delegate", N + "asl_state_Parallel", N + "asl_state_Parallel_delegate", N + "asl_state_collect_results", N + "get_start_index",
                  "StateEngine.branch_has_terminated", "StateEngine.check_pending_results", N + "handle_terminal_state"])],
    "C06": [(SE, [N + "asl_state_collect_results", "StateEngine.branch_has_terminated", "StateEngine.check_pending_results", "StateEngine.acknowledge_event_list", N + "handle_error",
                  N + "handle_terminal_state", N + "asl_state_Task_delegate", N + "asl_state_Wait"]),
            (TD, ["TaskDispatcher.cancel_task", "TaskDispatcher.branch_has_terminated", "TaskDispatcher.handle_rpcmessage_response", "TaskDispatcher.handle_sfn_response",
                  "TaskDispatcher.execute_task.timeout_callback", "TaskDispatcher.execute_task.asl_service_rpcmessage", "TaskDispatcher.execute_task.asl_service_states_startExecution",
                  "TaskDispatcher.set_rpcmessage_canceller", "TaskDispatcher.set_sfn_canceller", "TaskDispatcher.set_wait_canceller"]),
            (AM, ["Connection.set_timeout", "Connection.clear_timeout"]), (AMA, ["Connection.set_timeout", "Connection.clear_timeout"])],
    "C07": [(SE, [N + "handle_error", "StateEngine.change_state", N + "asl_state_Task", N + "asl_state_Parallel", N + "asl_state_Map", N + "asl_state_Parallel_delegate", N + "asl_state_Map_delegate",
                  N + "asl_state_collect_results", N + "asl_state_Task_delegate"]),
            (TD, ["TaskDispatcher.handle_rpcmessage_response", "TaskDispatcher.execute_task.timeout_callback"])],
    "C08": [(SE, ["parse_rfc3339_datetime", N + "asl_state_Wait", N + "asl_state_Task_delegate", "StateEngine.check_for_expired_branch_results", "BranchMetadata.__init__", N + "asl_state_Choice"]),
            (TD, ["TaskDispatcher.execute_task$", "TaskDispatcher.execute_task.timeout_callback", "TaskDispatcher.execute_task.asl_service_rpcmessage", "TaskDispatcher.cancel_task"]),
            (ED, ["EventDispatcher.set_timeout", "EventDispatcher.clear_timeout", "EventDispatcher.heartbeat"]),
            (RA, ["RestAPI.create_app.handle_post.aws_api_StartExecution"]), (RB, ["RestAPI.create_app.handle_post.aws_api_StartExecution", "RestAPI.create_app.handle_post.aws_api_StartSyncExecution"]),
            (AM, ["Connection.set_timeout", "Connection.clear_timeout"]), (AMA, ["Connection.set_timeout", "Connection.clear_timeout"])],
    "C09": [(SE, ["StateEngine.update_execution_history", "StateEngine.notify$", "StateEngine.change_state", "StateEngine.start_execution", "StateEngine.end_execution", N + "handle_terminal_state",
                  N + "asl_state_collect_results", "StateEngine.check_pending_results", "StateEngine.broadcast_notification"]),
            (RA, ["RestAPI.create_app.handle_post.aws_api_GetExecutionHistory"]), (RB, ["RestAPI.create_app.handle_post.aws_api_GetExecutionHistory"])],
    "C10": [(RA, [ALL]), (RB, [ALL]), (SE, ["StateEngine.start_execution"]), (ST, ["SimpleStore", "JSONStore"])],
    "C11": [(SE, ["StateEngine.broadcast_notification", "StateEngine.end_execution", "StateEngine.start_execution", "StateEngine.update_execution_history", "BranchMetadata.__init__", "StateEngine.check_for_expired_branch_results"]), (ED, ["EventDispatcher.broadcast"]),
            (RA, ["RestAPI.create_app.handle_post.aws_api_DescribeExecution", "RestAPI.create_app.handle_post.aws_api_ListExecutions", "RestAPI.create_app.handle_post.aws_api_GetExecutionHistory"]),
            (RB, ["RestAPI.create_app.handle_post.aws_api_DescribeExecution", "RestAPI.create_app.handle_post.aws_api_ListExecutions", "RestAPI.create_app.handle_post.aws_api_GetExecutionHistory"]),
            (TD, ["TaskDispatcher.handle_sfn_response"])],
    "C12": [(SP, ["apply_jsonpath", "apply_path", "get_full_jsonpath", "apply_resultpath"]), (SE, ["merge_result"]), (EXC, [ALL])],
    "C13": [(SP, ["evaluate_payload_template"]), (EXC, [ALL])],
    "C14": [(SE, [N + "asl_state_Choice", "parse_rfc3339_datetime"]), (SP, ["apply_path", "apply_jsonpath"])],
    "C15": [(TD, ["TaskDispatcher.execute_task$", "TaskDispatcher.execute_task.asl_service_states", "TaskDispatcher.execute_task.asl_service_states_startExecution",
                  "TaskDispatcher.execute_task.asl_service_InvalidService", "TaskDispatcher.execute_task.timeout_callback", "TaskDispatcher.handle_sfn_response", "TaskDispatcher.cancel_task", "TaskDispatcher.handle_rpcmessage_response", "TaskDispatcher.remove_canceller",
                  "TaskDispatcher.set_sfn_canceller", "TaskDispatcher.set_rpcmessage_canceller", "TaskDispatcher.set_wait_canceller", "TaskDispatcher.handle_unroutable_rpcmessage"]),
            (RB, ["RestAPI.create_app.handle_post.aws_api_SendTaskSuccess", "RestAPI.create_app.handle_post.aws_api_SendTaskFailure", "RestAPI.create_app.handle_post.aws_api_StartSyncExecution"]),
            (SE, ["StateEngine.end_execution", "StateEngine.start_execution", N + "asl_state_Task_delegate"]), (WE, [ALL]), (ED, ["EventDispatcher.__init__"]), (TD, ["TaskDispatcher.start", "TaskDispatcher.start_asyncio"])],
    "C16": [(SE, ["StateEngine.change_state", "StateEngine.end_execution", "StateEngine.notify$", N + "asl_state_Task_delegate", N + "asl_state_collect_results"]),
            (TD, ["TaskDispatcher.handle_rpcmessage_response"]),
            (RA, ["valid_name", "RestAPI.create_app.handle_post.aws_api_StartExecution", "RestAPI.create_app.handle_post.aws_api_CreateStateMachine", "RestAPI.create_app.handle_post.aws_api_UpdateStateMachine",
                  "RestAPI.create_app$"]),
            (RB, ["valid_name", "RestAPI.create_app.handle_post.aws_api_StartExecution", "RestAPI.create_app.handle_post.aws_api_StartSyncExecution", "RestAPI.create_app.handle_post.aws_api_CreateStateMachine",
                  "RestAPI.create_app.handle_post.aws_api_UpdateStateMachine", "RestAPI.create_app.handle_post.aws_api_SendTaskSuccess", "RestAPI.create_app.handle_post.aws_api_SendTaskFailure",
                  "RestAPI.create_app$"]), (WE, [ALL])],
    "C17": [(ARN, [ALL]), (RA, ["valid_name", "valid_role_arn", "valid_state_machine_arn", "valid_execution_arn", "RestAPI.create_app.handle_post.aws_api_StartExecution",
                               "RestAPI.create_app.handle_post.aws_api_CreateStateMachine"]),
            (RB, ["valid_name", "valid_role_arn", "valid_state_machine_arn", "valid_execution_arn", "RestAPI.create_app.handle_post.aws_api_StartExecution",
                  "RestAPI.create_app.handle_post.aws_api_StartSyncExecution", "RestAPI.create_app.handle_post.aws_api_CreateStateMachine"]),
            (SE, ["StateEngine.end_execution", "StateEngine.update_execution_history", "StateEngine.check_for_expired_branch_results", "StateEngine.start_execution", "StateEngine.broadcast_notification",
                  "StateEngine.notify$"]),
            (TD, ["TaskDispatcher.execute_task.asl_service_states_startExecution"]), (ED, ["EventDispatcher.dispatch", "EventDispatcher.publish"])],
    "C18": [(SL, [ALL]), (J2, [ALL]), (ED, ["EventDispatcher.dispatch", "EventDispatcher.heartbeat"]), (SE, ["StateEngine.notify$", "find_state", "BranchMetadata.__init__",
                                                                                                             "StateEngine.check_for_expired_branch_results"])],
    "C19": [(AM, [ALL]), (AMA, [ALL]), (ED, ["EventDispatcher.start", "EventDispatcher.start_asyncio", "EventDispatcher.publish", "EventDispatcher.broadcast", "EventDispatcher.dispatch"]),
            (TD, ["TaskDispatcher.start", "TaskDispatcher.start_asyncio", "TaskDispatcher.execute_task.asl_service_rpcmessage", "TaskDispatcher.execute_task.asl_service_states_startExecution",
                  "TaskDispatcher.handle_rpcmessage_response"])],
    "C20": [(ST, [ALL]), (SE, ["StateEngine.__init__", "StateEngine.update_execution_history", "StateEngine.start_execution", "StateEngine.notify$"])],
}


def _matches(q, prefixes):
    for p in prefixes:
        if p == ALL:
            return True
        if p.endswith("$"):
            if q == p[:-1]:
                return True
        elif q == p or q.startswith(p + "."):
            return True
    return False


def _class_shape(tree):
    """class name -> (bases, sorted special / overriding method names, class-level assignment targets)"""
    out = {}
    for n in ast.walk(tree):
        if isinstance(n, ast.ClassDef):
            bases = tuple(ast.unparse(b) for b in n.bases)
            meths = tuple(sorted(m.name for m in n.body if isinstance(m, (ast.FunctionDef, ast.AsyncFunctionDef)) and m.name.startswith("__") and m.name != "__repr__"))
            attrs = tuple(sorted(ast.unparse(t) for s in n.body if isinstance(s, ast.Assign) for t in s.targets))
            out[n.name] = (bases, meths, attrs)
    return out


def _constants(tree):
    """NAME -> source text of the value, for simple module-level and class-level assignments"""
    out = {}

    def scan(body, prefix):
        for st in body:
            if isinstance(st, ast.Assign) and len(st.targets) == 1 and isinstance(st.targets[0], ast.Name):
                out[prefix + st.targets[0].id] = " ".join(ast.unparse(st.value).split())
            elif isinstance(st, ast.ClassDef):
                scan(st.body, prefix + st.name + ".")
    scan(tree.body, "")
    return out


def run(chk, ctx, prop):
    from .. import normalise
    rule = "%s.RV" % prop
    spec = SUBJECT.get(prop)
    if not spec:
        return
    covered = 0
    for modname, prefixes in spec:
        m = ctx.mod(modname)
        st = m.normalisation
        ref = normalise.reference_tree(m.rel, m.name)
        if ref is None:
            raise AnalysisError("%s: no reviewed copy of %s" % (rule, m.rel))
        rfuncs = normalise._funcs(ref)
        names = [q for q in rfuncs if _matches(q, prefixes)]
        covered += len(names)
        cur = normalise._funcs(m.tree)
        left = (st or {}).get("left", [])
        still = set((st or {}).get("functions_still_different", []))
        reported = set()
        for q in sorted(names):
            if q not in cur:
                # a reviewed function that no longer exists: the clause rules that anchor on it report that; here it is a behavioural unknown
                top = q.split(".")
                chk.ob(rule, "%s.%s still exists" % (modname, q), False, "", key="%s | reviewed function is gone" % q, where=m.rel,
                       message="a function whose behaviour is the subject of this property was removed or renamed; its callers were not proved to behave as reviewed")
                continue
            mine = sorted([l for l in left if l["q"] == q], key=lambda l: "outside the fragment" in l["why"])
            ok = not mine
            if not ok:
                w = mine[0]["why"]
                if (q, w) in reported:
                    continue
                reported.add((q, w))
                if "outside the fragment" in w:
                    chk.ob(rule, "%s.%s behaves as reviewed" % (modname, q), False, w, key="%s | changed, and not shown to behave as the reviewed version (%s)" % (q, " ".join(w.split())[:120]),
                           where="%s:%d" % (m.rel, mine[0].get("line", 0)),
                           message="statements of a function whose behaviour is the subject of this property were changed in a way the equivalence proof cannot follow (%s): nothing shows that it "
                                   "still behaves as the reviewed version" % w[:200])
                    continue
                chk.ob(rule, "%s.%s behaves as reviewed" % (modname, q), False, w, key="%s | behaviour differs from the reviewed version: %s" % (q, " ".join(w.split())[:200]),
                       where="%s:%d" % (m.rel, mine[0].get("line", 0)),
                       message="statements of a function whose behaviour is the subject of this property were changed and are not interchangeable with the reviewed ones: " + w[:500])
            else:
                chk.ob(rule, "%s.%s behaves as reviewed (identical or proved interchangeable)" % (modname, q), True, "")
        # classes: bases, special methods, class attributes
        if any(p == ALL for p in prefixes) or modname in (EXC,):
            a, b = _class_shape(m.tree), _class_shape(ref)
            for cname, shape in b.items():
                if cname in a and a[cname] != shape:
                    chk.ob(rule, "%s.%s class shape as reviewed" % (modname, cname), False, "", key="%s | class bases / special methods / attributes %s, reviewed %s" % (cname, a[cname], shape), where=m.rel,
                           message="the base classes, special methods or class attributes of a reviewed class changed: exception dispatch (`except` clauses select by class), construction and "
                                   "protocol methods behave differently from the reviewed version")
                elif cname in a:
                    chk.ob(rule, "%s.%s class shape as reviewed" % (modname, cname), True, "")
        # module-level and class-level constants that both versions bind: same value
        ca, cb = _constants(m.tree), _constants(ref)
        for name, val in sorted(cb.items()):
            if name in ca and ca[name] != val:
                chk.ob(rule, "%s: constant %s as reviewed" % (modname, name), False, "", key="%s.%s | constant changed from `%s` to `%s`" % (modname, name, val[:80], ca[name][:80]), where=m.rel,
                       message="a module / class level constant that reviewed functions of this property read has another value than the reviewed one")
        if cb:
            chk.ob(rule, "%s: %d module / class constants as reviewed" % (modname, len(cb)), True, "", nontrivial=False)
        if st:
            chk.extra.setdefault("normalisation", {})[modname] = {k: v for k, v in st.items() if k in ("functions_changed", "regions_proved", "regions_left", "constants_inlined", "helpers_removed",
                                                                                                     "renamed_back", "functions_still_different")}
    chk.floor(rule, covered, max(1, covered), "reviewed functions")
    if prop == "C18":
        _schema_text(chk, ctx, rule)


def _schema_text(chk, ctx, rule):
    """the validator's schema is data: every assertion line of StateMachine.j2119 is the reviewed one"""
    from .. import normalise
    rel = "asl-workflow-engine/py/statelint/StateMachine.j2119"
    cur = ctx.repo.text(rel)
    p = os.path.join(normalise.REFDIR, rel)
    if not os.path.exists(p):
        raise AnalysisError("%s: no reviewed copy of %s" % (rule, rel))
    with open(p) as f:
        ref = f.read()
    norm = lambda t: [" ".join(l.split()) for l in t.splitlines() if l.strip()]
    a, b = norm(cur), norm(ref)
    sa, sb = set(a), set(b)
    gone = [l for l in b if l not in sa]
    new = [l for l in a if l not in sb]
    chk.ob(rule, "StateMachine.j2119: %d assertion lines as reviewed" % len(b), not gone and not new, "", key="schema | removed %s added %s" % (gone[:2], new[:2]), where=rel,
           message="the schema the validator enforces was changed: what it accepts no longer is what was checked against the engine's handler tables (removed: %s; added: %s)" % (gone[:3], new[:3]))
