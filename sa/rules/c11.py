"""C11 - all observability surfaces tell the same story about an execution (structural clauses)."""
import ast

from ..core import AnalysisError, dotted, callname, last, const, short, norm, strip_await
from ..cfg import CFG
from ..util import body_nodes, name_defs, enclosing_ifs, enclosing_stmt, dict_keys, dict_literal_value
from . import c02

EXPLANATION = (
    "Static analysis of the current /repo source. Decides: (R1) one source of truth: in end_execution the object handed to the notification "
    "and to the child-completion hook IS the record that is stored (alias), the terminal history event carries the same local values that "
    "are assigned into the record, start_execution uses one serialised input for record and ExecutionStarted, and update_execution_history "
    "stores the details object it was given (never a redacted rebinding); (R2) the notification subject is stateMachineArn + '.' + status of "
    "the detail, the event literal has the nine CloudWatch keys, and there is exactly one notification per status change (C02.R3); (R3) "
    "broadcast_notification saves both dates, converts them with int(x*1000) only when set, and restores both from the saved values on the "
    "normal path after the broadcast, copying a non-dict record first; (R4) both REST front ends read the engine's own executions/history "
    "stores (aliases taken in the constructor) and read execution records and history directly, never through the cached view. Not decided: "
    "agreement 'at every moment' across threads, instances and Redis.")
RULE_TEXT = "obligation = one def-use identity / literal shape / save-restore pair / reader; non-trivial = distinct (rule, site)"

CW_KEYS = ["version", "id", "detail-type", "source", "account", "time", "region", "resources", "detail"]


def r1(chk, ctx):
    se = ctx.mod("state_engine")
    _, writers = c02.find_end_execution(ctx)
    ee = se.func(writers[0])
    dd = [x for x in name_defs(ee, "execution_detail") if isinstance(x, ast.Assign)]
    vals = [norm(x.value) for x in dd]
    ok = "self.executions[execution_arn]" in vals and len(dd) == 2 and any(isinstance(x.value, ast.Dict) for x in dd)
    chk.ob("C11.R1", "end_execution: the detail is the stored record (or the EXPRESS synthesis)", ok, str(vals)[:120], key="%s | execution_detail definitions" % ee.qname, where=ee.where(),
           message="DescribeExecution, the notification and the child-completion result must be one object")
    for callee in ("broadcast_notification", "handle_sfn_response"):
        cs = [c for c in body_nodes(ee) if isinstance(c, ast.Call) and last(callname(c)) == callee]
        ok = len(cs) == 1 and any(norm(a) == "execution_detail" for a in cs[0].args)
        chk.ob("C11.R1", "end_execution hands that same object to %s" % callee, ok, "", key="%s | %s argument" % (ee.qname, callee), where=ee.where(), message="")
    # record values == history values (same locals)
    pairs = {"ExecutionFailed": {"error": "error", "cause": "cause"}, "ExecutionSucceeded": {"output": "output_as_string"}}
    for ut, flds in pairs.items():
        hc = [c for c in body_nodes(ee) if isinstance(c, ast.Call) and last(callname(c)) == "update_execution_history" and const(c.args[2]) == ut]
        ok = len(hc) == 1 and isinstance(hc[0].args[3], ast.Dict)
        chk.ob("C11.R1", "end_execution logs %s once" % ut, ok, "", key="%s | %s history call" % (ee.qname, ut), where=ee.where(), message="")
        if not ok:
            continue
        for k, var in flds.items():
            hv = dict_literal_value(hc[0].args[3], k)
            rec = [s for s in body_nodes(ee) if isinstance(s, ast.Assign) and norm(s.targets[0]) == "execution_detail['%s']" % k and
                   any(i is j for i, _ in enclosing_ifs(se, s, ee.node) for j, _ in enclosing_ifs(se, hc[0], ee.node))]
            same_arm = [s for s in rec if [id(i) for i, a in enclosing_ifs(se, s, ee.node)] == [id(i) for i, a in enclosing_ifs(se, hc[0], ee.node)]
                        and [a for i, a in enclosing_ifs(se, s, ee.node)] == [a for i, a in enclosing_ifs(se, hc[0], ee.node)]]
            ok = hv is not None and norm(hv) == var and len(same_arm) == 1 and norm(same_arm[0].value) == var
            chk.ob("C11.R1", "%s.%s in history and record come from the same local `%s`" % (ut, k, var), ok, "", key="%s | %s.%s differs between record and history" % (ee.qname, ut, k), where=ee.where(),
                   message="the last history event must agree with DescribeExecution")
    od = [norm(x.value) for x in name_defs(ee, "output_as_string") if isinstance(x, ast.Assign)]
    chk.ob("C11.R1", "output text is json.dumps of the event data", bool(od) and set(od) == {"json.dumps(data)"}, str(od), key="%s | output_as_string" % ee.qname, where=ee.where(), message="")
    ed = [norm(x.value) for x in name_defs(ee, "error") if isinstance(x, ast.Assign)] + [norm(x.value) for x in name_defs(ee, "cause") if isinstance(x, ast.Assign)]
    chk.ob("C11.R1", "error/cause read from the event data", ed == ["data.get('Error')", "data.get('Cause')"], str(ed), key="%s | error/cause source" % ee.qname, where=ee.where(), message="")
    # start_execution
    st = se.func("StateEngine.start_execution")
    d = [norm(x.value) for x in name_defs(st, "input_as_string") if isinstance(x, ast.Assign)]
    recs = [n for n in body_nodes(st) if isinstance(n, ast.Dict) and "status" in dict_keys(n)]
    hc = [c for c in body_nodes(st) if isinstance(c, ast.Call) and last(callname(c)) == "update_execution_history"]
    ok = d == ["json.dumps(data)"] and len(recs) == 1 and norm(dict_literal_value(recs[0], "input")) == "input_as_string" and len(hc) == 1 and \
        norm(dict_literal_value(hc[0].args[3], "input")) == "input_as_string"
    chk.ob("C11.R1", "start_execution: record and ExecutionStarted carry the same input text", ok, "", key="%s | input differs between record and history" % st.qname, where=st.where(), message="")
    bc = [c for c in body_nodes(st) if isinstance(c, ast.Call) and last(callname(c)) == "broadcast_notification"]
    stored = [s for s in body_nodes(st) if isinstance(s, ast.Assign) and norm(s.targets[0]) == "self.executions[execution_arn]"]
    ok = len(bc) == 1 and norm(bc[0].args[1]) == "execution_detail" and len(stored) == 1 and norm(stored[0].value) == "execution_detail"
    chk.ob("C11.R1", "start_execution: the stored record is the object that is notified", ok, "", key="%s | stored record vs notified object" % st.qname, where=st.where(), message="")
    # history stores the details it was given
    uh = se.func("StateEngine.update_execution_history")
    rebound = [n for n in ast.walk(uh.node) if isinstance(n, ast.Name) and n.id == "details" and isinstance(n.ctx, (ast.Store, ast.Del))]
    app = [c for c in body_nodes(uh) if isinstance(c, ast.Call) and isinstance(c.func, ast.Attribute) and c.func.attr == "append"]
    ok = not rebound and len(app) == 1 and isinstance(app[0].args[0], ast.Dict) and any(norm(v) == "details" for v in app[0].args[0].values)
    chk.ob("C11.R1", "update_execution_history stores the details object it was given", ok, "rebindings: %d" % len(rebound),
           key="%s | the stored event details are not the `details` argument (rebound %d times)" % (uh.qname, len(rebound)), where=uh.where(),
           message="log redaction (includeExecutionData) must only affect the log line: the stored history must keep input/output")
    muts = [n for n in body_nodes(uh) if (isinstance(n, ast.Subscript) and isinstance(n.ctx, (ast.Store, ast.Del)) and norm(n.value) == "details") or
            (isinstance(n, ast.Call) and isinstance(n.func, ast.Attribute) and norm(n.func.value) == "details" and n.func.attr in ("pop", "clear", "update", "popitem", "setdefault"))]
    chk.ob("C11.R1", "update_execution_history never mutates the details", not muts, "", key="%s | details mutated" % uh.qname, where=uh.where(), message="")


def r2(chk, ctx):
    se = ctx.mod("state_engine")
    bn = se.func("StateEngine.broadcast_notification")
    sub = [x for x in name_defs(bn, "subject") if isinstance(x, ast.Assign)]
    ok = len(sub) == 1 and norm(sub[0].value) == "execution_detail['stateMachineArn'] + '.' + execution_detail['status']"
    chk.ob("C11.R2", "subject = detail.stateMachineArn + '.' + detail.status", ok, norm(sub[0].value) if sub else "", key="%s | subject" % bn.qname, where=bn.where(), message="")
    evs = [n for n in body_nodes(bn) if isinstance(n, ast.Dict) and "detail-type" in dict_keys(n)]
    ok = len(evs) == 1 and dict_keys(evs[0]) == CW_KEYS and norm(dict_literal_value(evs[0], "detail")) == "execution_detail" and \
        norm(dict_literal_value(evs[0], "resources")) == "[execution_arn]" and const(dict_literal_value(evs[0], "source")) == "aws.states"
    chk.ob("C11.R2", "event literal has the nine CloudWatch keys, detail = the record", ok, str(dict_keys(evs[0]) if evs else ""), key="%s | CloudWatch event shape" % bn.qname, where=bn.where(), message="")
    bc = [c for c in body_nodes(bn) if isinstance(c, ast.Call) and last(callname(c)) == "broadcast"]
    ok = len(bc) == 1 and norm(bc[0].args[0]) == "subject" and norm(bc[0].args[1]) == (evs[0] and "cw_event")
    chk.ob("C11.R2", "exactly one broadcast(subject, event)", ok, "", key="%s | broadcast call" % bn.qname, where=bn.where(), message="")
    ed = ctx.mod("event_dispatcher")
    b = ed.func("EventDispatcher.broadcast")
    txt = [norm(s) for s in ast.walk(b.node) if isinstance(s, ast.stmt)]
    ok = "message.subject = subject" in txt and "self.topic_producer.send(message)" in txt and any("json.dumps(item)" in t for t in txt)
    chk.ob("C11.R2", "EventDispatcher.broadcast sends the JSON text to the topic with that subject", ok, "", key="%s | shape" % b.qname, where=b.where(), message="")
    c02.r3(chk, ctx)


def r3(chk, ctx):
    se = ctx.mod("state_engine")
    bn = se.func("StateEngine.broadcast_notification")
    g = CFG(bn.node)
    bc = [c for c in body_nodes(bn) if isinstance(c, ast.Call) and last(callname(c)) == "broadcast"]
    if not bc:
        return
    bnode = g.containing_stmt_node(bc[0], se)
    for fld in ("startDate", "stopDate"):
        sv = [x for x in body_nodes(bn) if isinstance(x, ast.Assign) and isinstance(x.targets[0], ast.Name) and norm(x.value) == "execution_detail['%s']" % fld]
        ok = len(sv) == 1
        chk.ob("C11.R3", "%s is saved before conversion" % fld, ok, "", key="%s | %s not saved" % (bn.qname, fld), where=bn.where(), message="")
        if not ok:
            continue
        saved = sv[0].targets[0].id
        stores = [s for s in body_nodes(bn) if isinstance(s, ast.Assign) and norm(s.targets[0]) == "execution_detail['%s']" % fld]
        conv = [s for s in stores if norm(s.value) == "int(%s * 1000)" % saved]
        rest = [s for s in stores if norm(s.value) == saved]
        ok = len(conv) == 1 and len(rest) == 1 and len(stores) == 2
        chk.ob("C11.R3", "%s: one conversion int(saved*1000) and one restore from the saved value" % fld, ok, [norm(s.value) for s in stores],
               key="%s | %s conversion/restore pair %s" % (bn.qname, fld, [norm(s.value) for s in stores]), where=bn.where(),
               message="the notification carries milliseconds, the stored record must keep epoch seconds")
        if not ok:
            continue
        cn, rn = g.node_of(conv[0]), g.node_of(rest[0])
        gi = enclosing_ifs(se, conv[0], bn.node)
        ok = len(gi) == 1 and gi[0][1] == "body" and norm(gi[0][0].test) in (saved, "execution_detail['%s']" % fld)
        chk.ob("C11.R3", "%s converted only when set" % fld, ok, "", key="%s | %s conversion guard" % (bn.qname, fld), where=bn.where(), message="a running execution has no stopDate")
        ok = g.dominates(g.node_of(sv[0]), cn) and bnode in g.reachable_from(cn) and rn in g.reachable_from(bnode) and not enclosing_ifs(se, rest[0], bn.node) \
            and not g.paths_avoiding(bnode, g.exit, {rn})
        chk.ob("C11.R3", "%s: save -> convert -> broadcast -> restore on every normal path" % fld, ok, "", key="%s | %s is not restored on every normal path after the broadcast" % (bn.qname, fld), where=bn.where(),
               message="publishing a status change must not alter the stored record")
    cp = [s for s in body_nodes(bn) if isinstance(s, ast.Assign) and norm(s.targets[0]) == "execution_detail" and norm(s.value) == "dict(execution_detail)"]
    ok = len(cp) == 1 and [norm(i.test) for i, a in enclosing_ifs(se, cp[0], bn.node)] == ["not isinstance(execution_detail, dict)"]
    chk.ob("C11.R3", "a non-dict record (Redis proxy) is copied before it is touched", ok, "", key="%s | non-dict copy" % bn.qname, where=bn.where(), message="")


def r4(chk, ctx):
    for mn in ("rest_api", "rest_api_asyncio"):
        m = ctx.mod(mn)
        init = m.func("RestAPI.__init__")
        txt = [norm(s) for s in body_nodes(init) if isinstance(s, ast.stmt)]
        for a in ("asl_store", "executions", "execution_history"):
            chk.ob("C11.R4", "%s: self.%s is the engine's own store" % (mn, a), "self.%s = state_engine.%s" % (a, a) in txt, "", key="%s.RestAPI | %s is not the engine's store" % (mn, a), where=init.where(),
                   message="reading through a private copy would show a different story")
        n = 0
        for q, f in m.funcs.items():
            if not f.name.startswith("aws_api_"):
                continue
            for c in body_nodes(f):
                if isinstance(c, ast.Call) and isinstance(c.func, ast.Attribute) and last(dotted(c.func.value) or "") in ("executions", "execution_history"):
                    n += 1
                    ok = c.func.attr in ("get", "items", "keys", "values", "__contains__")
                    chk.ob("C11.R4", "%s.%s reads %s directly (%s)" % (mn, f.name, last(dotted(c.func.value)), c.func.attr), ok, "",
                           key="%s.%s | execution data read through `%s`" % (mn, f.name, c.func.attr), where=m.line(c),
                           message="execution records and histories change while the execution runs: a per-process cached view serves a stale status after the change was published")
        chk.floor("C11.R4", n, 4, "reads of executions/history in %s" % mn)
        # stores of records are never made by the front ends
        for q, f in m.funcs.items():
            for c in body_nodes(f):
                if isinstance(c, ast.Subscript) and isinstance(c.ctx, (ast.Store, ast.Del)) and last(dotted(c.value) or "") in ("executions", "execution_history"):
                    chk.ob("C11.R4", "%s.%s does not write execution data" % (mn, f.name), False, "", key="%s.%s | writes execution data" % (mn, f.name), where=m.line(c), message="")


def run(chk, ctx):
    r1(chk, ctx)
    r2(chk, ctx)
    r3(chk, ctx)
    r4(chk, ctx)
    from . import c06, c09
    c06.r3(chk, ctx, ctx.protocol(), ctx.mod("state_engine"))   # nothing is appended for events of terminated branches
    c09.r1(chk, ctx)                                            # reading the history never changes it
    from . import c20
    c20.r5(chk, ctx, ctx.mod("store"))                           # replacing a record leaves no field of the old one behind, in every store kind
    from . import round3
    round3.list_executions_exact(chk, ctx)
    round3.start_resets_record(chk, ctx)
    from . import c15
    c15.r3(chk, ctx)                         # the input reported at the end of an execution / of a child is the input it was started with
    from . import round4
    round4.execution_input_is_a_copy(chk, ctx)
    chk.assume("json.dumps is deterministic for a given object; the topic producer delivers what it is given (C19)")
