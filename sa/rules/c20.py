"""C20 - stores act as dictionaries, persist definitions, and caches are never stale (structural clauses)."""
import ast

from ..core import AnalysisError, dotted, callname, last, const, short, norm
from ..cfg import CFG
from ..util import body_nodes, name_defs, enclosing_ifs, enclosing_stmt

EXPLANATION = (
    "Static analysis of the current /repo source (store.py and the engine's uses of the stores; redis/pottery are not installed, so reading "
    "the source is the only way to say anything here). Decides: (R1) every store kind offers the mapping protocol plus set_ttl and "
    "get_cached_view(key, default) with the same signatures; (R2) every Redis key is built as <namespace>:<key>, the scan pattern and the "
    "prefix stripping use the same prefix, and the three factories use namespaces none of which is a prefix of another; (R3) every creation "
    "of an execution record is followed by set_ttl, and the history's TTL is set at its first append; (R4) the cache evicts the oldest entry "
    "when it exceeds its capacity, hits are moved to the end, and cache entries are created only on the tracked read path (get_cached_view "
    "-> _write_to_cache), never on writes; (R5) the JSON store starts empty on an unreadable or invalid file and writes through "
    "unconditionally on every set and delete; (R6) lockset of the cache: which thread entries touch self.cache and under which common "
    "lock. Not decided: dictionary conformance over operation histories; behaviour against a real Redis."
    ' (R10) no result of get()/get_cached_view() of asl_store / executions / execution_history is compared with None anywhere in the engine or the REST front ends (the Redis-backed store never returns None for an absent key; premise read from RedisDictStore.__getitem__).'
    ' (R11) a function of the JSON store that rewrites the store file replaces it atomically (writes a sibling and renames), it does not open its only copy for writing; reported on the current tree as D72; (R12) the Redis server version is compared component-wise, not after deleting the dots of the version string; reported as D73.'
    ' (R13) what the store itself publishes on the invalidation channel is something its own invalidation handler tolerates (stop() publishes a string; the handler iterates an array): reported on the current tree as D78.')
RULE_TEXT = "obligation = one class x method, one key construction, one record creation, one cache access; non-trivial = distinct (rule, site)"


def _methods(m, cls):
    return {q.split(".", 1)[1]: f for q, f in m.funcs.items() if q.startswith(cls + ".") and q.count(".") == 1}


def _bases(m, cls):
    c = m.classes[cls]
    return [norm(b) for b in c.bases]


def r1(chk, ctx, st):
    need_proto = ["__getitem__", "__setitem__", "__delitem__", "__iter__", "__len__"]
    classes = {"JSONStore": ["JSONStore"], "RedisDictStore": ["RedisDictStore", "RedisStore"], "RedisListStore": ["RedisListStore", "RedisStore"]}
    for cls, chain in classes.items():
        have = {}
        for c in reversed(chain):
            have.update(_methods(st, c))
        for meth in need_proto + ["set_ttl", "get_cached_view"]:
            chk.ob("C20.R1", "%s offers %s" % (cls, meth), meth in have, "", key="%s | method %s missing" % (cls, meth), where=st.rel, message="every store kind must behave as a mapping with set_ttl and get_cached_view")
        chk.ob("C20.R1", "%s derives from MutableMapping" % cls, "MutableMapping" in _bases(st, chain[-1]), "", key="%s | base classes" % cls, where=st.rel, message="get/items/update/... come from the mixin")
        gv = have.get("get_cached_view")
        if gv is not None:
            a = gv.node.args
            ok = [x.arg for x in a.args] == ["self", "key", "default"] and len(a.defaults) == 1 and const(a.defaults[0]) is None
            chk.ob("C20.R1", "%s.get_cached_view(key, default=None)" % cls, ok, "", key="%s | get_cached_view signature" % cls, where=gv.where(), message="")
        tt = have.get("set_ttl")
        if tt is not None:
            chk.ob("C20.R1", "%s.set_ttl(key, ttl)" % cls, [x.arg for x in tt.node.args.args] == ["self", "key", "ttl"], "", key="%s | set_ttl signature" % cls, where=tt.where(), message="")
    ss = _methods(st, "SimpleStore")
    ok = _bases(st, "SimpleStore") == ["dict"] and "set_ttl" in ss and "get_cached_view" in ss
    chk.ob("C20.R1", "SimpleStore is a dict with set_ttl and get_cached_view", ok, "", key="SimpleStore | interface", where=st.rel, message="")
    for cls in ("JSONStore", "SimpleStore"):
        gv = _methods(st, cls).get("get_cached_view")
        ok = gv is not None and [norm(s) for s in gv.node.body if not isinstance(s, ast.Expr)] == ["return self.get(key, default)"]
        chk.ob("C20.R1", "%s.get_cached_view is a plain read" % cls, ok, "", key="%s | get_cached_view body" % cls, where=st.rel, message="")
    # JSONStore delegates to its dict
    js = _methods(st, "JSONStore")
    want = {"__getitem__": "return self.store[key]", "__iter__": "return iter(self.store)", "__len__": "return len(self.store)", "__contains__": "return key in self.store"}
    for meth, body in want.items():
        f = js.get(meth)
        ok = f is not None and [norm(s) for s in f.node.body if not (isinstance(s, ast.Expr) and isinstance(s.value, ast.Constant))] == [body]
        chk.ob("C20.R1", "JSONStore.%s delegates to the in-memory dict" % meth, ok, "", key="JSONStore | %s body" % meth, where=st.rel, message="")
    # the engine uses only that interface
    allowed = {"get", "get_cached_view", "set_ttl", "items", "keys", "values", "update", "pop", "setdefault"}
    n = 0
    for mn in ("state_engine", "task_dispatcher", "rest_api", "rest_api_asyncio"):
        m = ctx.mod(mn)
        for q, f in m.funcs.items():
            for c in body_nodes(f):
                if isinstance(c, ast.Call) and isinstance(c.func, ast.Attribute) and last(dotted(c.func.value) or "") in ("asl_store", "executions", "execution_history"):
                    n += 1
                    chk.ob("C20.R1", "%s uses %s.%s" % (q, last(dotted(c.func.value)), c.func.attr), c.func.attr in allowed, "", key="%s | store method %s outside the common interface" % (q, c.func.attr), where=m.line(c), message="")
    chk.floor("C20.R1", n, 20, "store method calls in the engine and front ends")


def r2(chk, ctx, st):
    n = 0
    for cls in ("RedisStore", "RedisDictStore", "RedisListStore"):
        for name, f in _methods(st, cls).items():
            for s in body_nodes(f):
                if isinstance(s, ast.Assign) and isinstance(s.targets[0], ast.Name) and s.targets[0].id == "k":
                    n += 1
                    chk.ob("C20.R2", "%s.%s builds the key as self.key + ':' + key" % (cls, name), norm(s.value) == "self.key + ':' + key", norm(s.value),
                           key="%s.%s | Redis key built as `%s`" % (cls, name, norm(s.value)), where=f.where(s), message="what was written under a key must be read back under the same key")
            # k is what reaches redis
            for c in body_nodes(f):
                if isinstance(c, ast.Call) and isinstance(c.func, ast.Attribute) and norm(c.func.value) == "self.redis" and c.func.attr in ("delete", "exists", "expire"):
                    chk.ob("C20.R2", "%s.%s: redis.%s operates on the prefixed key" % (cls, name, c.func.attr), norm(c.args[0]) == "k", "", key="%s.%s | redis.%s on an unprefixed key" % (cls, name, c.func.attr), where=f.where(c), message="")
                if isinstance(c, ast.Call) and callname(c) in ("RedisStore.RedisDict", "RedisStore.RedisList"):
                    kk = [k.value for k in c.keywords if k.arg == "key"]
                    chk.ob("C20.R2", "%s.%s: %s bound to the prefixed key" % (cls, name, last(callname(c))), bool(kk) and norm(kk[0]) == "k", "", key="%s.%s | container key" % (cls, name), where=f.where(c), message="")
    chk.floor("C20.R2", n, 6, "Redis key constructions")
    rs = _methods(st, "RedisStore")
    for meth in ("__len__", "__iter__"):
        f = rs[meth]
        sc = [c for c in body_nodes(f) if isinstance(c, ast.Call) and norm(c.func) == "self.redis.scan"]
        ok = len(sc) == 1 and any(k.arg == "match" and norm(k.value) == "self.key + ':*'" for k in sc[0].keywords)
        chk.ob("C20.R2", "RedisStore.%s scans exactly the namespace" % meth, ok, "", key="RedisStore.%s | scan pattern" % meth, where=f.where(), message="iteration and length must agree with membership")
    rp = rs["_remove_prefix"]
    txt = [norm(s) for s in ast.walk(rp.node) if isinstance(s, ast.stmt)]
    ok = "prefix = self.key + ':'" in txt and "return key[len(prefix):]" in txt
    chk.ob("C20.R2", "_remove_prefix strips the same prefix", ok, "", key="RedisStore._remove_prefix | prefix", where=rp.where(), message="")
    it = rs["__iter__"]
    chk.ob("C20.R2", "iteration yields unprefixed keys", "self._remove_prefix(value.decode('utf-8'))" in norm(it.node), "", key="RedisStore.__iter__ | prefix stripping", where=it.where(), message="")
    # namespaces
    ns = {}
    for fn in ("create_ASL_store", "create_executions_store", "create_history_store"):
        f = st.func(fn)
        for c in body_nodes(f):
            if isinstance(c, ast.Call) and callname(c) in ("RedisDictStore", "RedisListStore"):
                ns[fn] = (callname(c), const(c.args[1]))
    vals = [v for _, v in ns.values()]
    ok = len(vals) == 3 and len(set(vals)) == 3 and not any(a != b and (b + ":").startswith(a + ":") or (a != b and b.startswith(a + ":")) for a in vals for b in vals)
    chk.ob("C20.R2", "the three namespaces are distinct and none is a prefix of another", ok, str(ns), key="factories | namespaces %s" % sorted(vals), where=st.rel, message="a scan of one namespace must not return keys of another")
    ok = ns.get("create_ASL_store", ("", ""))[0] == "RedisDictStore" and ns.get("create_executions_store", ("", ""))[0] == "RedisDictStore" and ns.get("create_history_store", ("", ""))[0] == "RedisListStore"
    chk.ob("C20.R2", "definitions/executions are dict stores, history a list store", ok, "", key="factories | store kinds", where=st.rel, message="")
    for fn in ("create_ASL_store", "create_executions_store", "create_history_store"):
        f = st.func(fn)
        ok = any(isinstance(i, ast.If) and "store_url.startswith('redis://')" in norm(i.test) for i in body_nodes(f))
        chk.ob("C20.R2", "%s chooses the store kind from the URL scheme" % fn, ok, "", key="%s | URL dispatch" % fn, where=f.where(), message="")
    f = st.func("create_ASL_store")
    ok = any(isinstance(c, ast.Call) and callname(c) == "JSONStore" and norm(c.args[0]) == "store_url" for c in body_nodes(f))
    chk.ob("C20.R2", "definitions persist in the JSON file otherwise", ok, "", key="create_ASL_store | JSON fallback", where=f.where(), message="")


def r3(chk, ctx, st):
    se = ctx.mod("state_engine")
    n = 0
    for q, f in se.funcs.items():
        g = None
        for s in body_nodes(f):
            if isinstance(s, ast.Assign) and isinstance(s.targets[0], ast.Subscript) and norm(s.targets[0].value) == "self.executions":
                n += 1
                key = norm(s.targets[0].slice)
                g = g or CFG(f.node)
                ttl = [c for c in body_nodes(f) if isinstance(c, ast.Call) and norm(c.func) == "self.executions.set_ttl" and norm(c.args[0]) == key]
                ok = any(g.containing_stmt_node(c, se) in g.reachable_from(g.node_of(s)) and not g.paths_avoiding(g.node_of(s), g.exit, {g.containing_stmt_node(c, se)}) for c in ttl)
                chk.ob("C20.R3", "%s: record creation is followed by set_ttl on every path" % q, ok, "",
                       key="%s | execution record created without a time-to-live" % q, where=se.line(s),
                       message="execution records receive the configured time-to-live; a record without one lives in Redis forever")
                if ttl:
                    chk.ob("C20.R3", "%s: ttl is the configured execution_ttl" % q, norm(ttl[0].args[1]) == "self.execution_ttl", "", key="%s | ttl value" % q, where=se.line(ttl[0]), message="")
    chk.floor("C20.R3", n, 2, "creations of execution records")
    uh = se.func("StateEngine.update_execution_history")
    t = [c for c in body_nodes(uh) if isinstance(c, ast.Call) and norm(c.func) == "self.execution_history.set_ttl"]
    ok = len(t) == 1 and [norm(i.test) for i, a in enclosing_ifs(se, t[0], uh.node)] == ["id == 1"] and norm(t[0].args[1]) == "self.execution_ttl"
    chk.ob("C20.R3", "history TTL set at the first append", ok, "", key="%s | history ttl" % uh.qname, where=uh.where(), message="")
    rs = _methods(st, "RedisStore")["set_ttl"]
    ok = any(isinstance(c, ast.Call) and norm(c) == "self.redis.expire(k, ttl)" for c in body_nodes(rs))
    chk.ob("C20.R3", "RedisStore.set_ttl expires the prefixed key", ok, "", key="RedisStore.set_ttl | body", where=rs.where(), message="")


def r4(chk, ctx, st):
    rs = _methods(st, "RedisStore")
    w = rs["_write_to_cache"]
    ev = [i for i in body_nodes(w) if isinstance(i, ast.If) and "len(self.cache)" in norm(i.test)]
    ok = len(ev) == 1 and norm(ev[0].test) == "len(self.cache) > self.cache_size" and any(isinstance(s, ast.Delete) for s in ev[0].body) and \
        any(norm(s) == "oldest = next(iter(self.cache))" for s in ev[0].body)
    chk.ob("C20.R4", "cache evicts its oldest entry when it exceeds cache_size", ok, "", key="RedisStore._write_to_cache | eviction", where=w.where(), message="a cached view never holds more than its capacity")
    g = CFG(w.node)
    wr = [s for s in body_nodes(w) if isinstance(s, ast.Assign) and norm(s.targets[0]) == "self.cache[key]"]
    ok = len(wr) == 1 and bool(ev) and g.node_of(ev[0]) in g.reachable_from(g.node_of(wr[0])) and not g.paths_avoiding(g.node_of(wr[0]), g.exit, {g.node_of(ev[0])})
    chk.ob("C20.R4", "every cache insertion passes the eviction test", ok, "", key="RedisStore._write_to_cache | insertion without eviction test", where=w.where(), message="")
    gv = rs["get_cached_view"]
    txt = [norm(s) for s in ast.walk(gv.node) if isinstance(s, ast.stmt)]
    ok = "self.cache.move_to_end(key)" in txt and "value = self.cache[key]" in txt and "value = self[key]" in txt and "value = self._write_to_cache(key, value)" in txt
    chk.ob("C20.R4", "hits are moved to the end; misses are fetched and cached", ok, "", key="RedisStore.get_cached_view | hit/miss handling", where=gv.where(), message="")
    ok = "self.cache = OrderedDict()" in txt and "self._start_tracking()" in txt and any(t.startswith("if self.tracker_id is None") for t in txt)
    chk.ob("C20.R4", "cache and invalidation tracking are enabled together, lazily", ok, "", key="RedisStore.get_cached_view | lazy tracking", where=gv.where(), message="")
    # who may create cache entries
    writers, callers = [], []
    for q, f in st.funcs.items():
        for s in body_nodes(f):
            if isinstance(s, ast.Assign) and isinstance(s.targets[0], ast.Subscript) and norm(s.targets[0].value) == "self.cache":
                writers.append(q)
            if isinstance(s, ast.Call) and norm(s.func) == "self._write_to_cache":
                callers.append(q)
    chk.ob("C20.R4", "only _write_to_cache creates cache entries", writers == ["RedisStore._write_to_cache"], str(writers), key="cache | entries created in %s" % writers, where=st.rel, message="")
    chk.ob("C20.R4", "_write_to_cache is called only on the read path (get_cached_view)", callers == ["RedisStore.get_cached_view"], str(callers),
           key="cache | _write_to_cache called from %s" % callers, where=st.rel,
           message="the server only sends an invalidation for keys this client has READ through the tracked connection: an entry created by a write is never invalidated and is served stale forever")
    ih = rs["_cache_invalidation_handler"]
    txt = [norm(s) for s in ast.walk(ih.node) if isinstance(s, ast.stmt)]
    ok = "key = self._remove_prefix(k.decode('utf-8'))" in txt and "del self.cache[key]" in txt and any(t.startswith("if key in self.cache") for t in txt)
    chk.ob("C20.R4", "invalidation removes the unprefixed key from the cache", ok, "", key="RedisStore._cache_invalidation_handler | body", where=ih.where(), message="")
    stt = rs["_start_tracking"]
    txt = norm(stt.node)
    ok = "'CLIENT', 'TRACKING', 'ON', 'REDIRECT', self.tracker_id" in txt and "'__redis__:invalidate'" in txt
    chk.ob("C20.R4", "tracking redirects invalidations to the subscriber connection", ok, "", key="RedisStore._start_tracking | CLIENT TRACKING", where=stt.where(), message="")


def r5(chk, ctx, st):
    js = _methods(st, "JSONStore")
    init = js["__init__"]
    tr = [t for t in body_nodes(init) if isinstance(t, ast.Try)]
    ok = len(tr) == 1
    if ok:
        caught = {}
        for h in tr[0].handlers:
            caught[norm(h.type)] = any(norm(s) == "self.store = {}" for s in h.body)
        ok = caught.get("IOError") is True and caught.get("ValueError") is True
    chk.ob("C20.R5", "an unreadable or invalid store file starts empty", ok, "", key="JSONStore.__init__ | load failure handling", where=init.where(), message="an unreadable store file starts empty rather than crashing")
    ok = bool(tr) and any("self.store = json.load(fp)" == norm(s) for s in ast.walk(tr[0]) if isinstance(s, ast.stmt))
    chk.ob("C20.R5", "load = json.load of the file", ok, "", key="JSONStore.__init__ | load", where=init.where(), message="")
    for meth, mut in (("__setitem__", "self.store[key] = value"), ("__delitem__", "del self.store[key]")):
        f = js[meth]
        g = CFG(f.node)
        ms = [s for s in body_nodes(f) if isinstance(s, ast.stmt) and norm(s) == mut]
        ws = [c for c in body_nodes(f) if isinstance(c, ast.Call) and norm(c) == "self._update_store()"]
        ok = len(ms) == 1 and len(ws) == 1
        if ok:
            wn = g.containing_stmt_node(ws[0], st)
            ok = not g.paths_avoiding(g.entry, g.exit, {wn}) and g.dominates(g.node_of(ms[0]), wn)
        chk.ob("C20.R5", "JSONStore.%s writes through on every path" % meth, ok, "", key="JSONStore.%s | a path returns without writing the file" % meth, where=f.where(),
               message="get -> mutate in place -> set of the same object must still persist: an 'unchanged' short-cut compares the object with itself")
    us = js["_update_store"]
    ok = any(norm(s) == "json.dump(self.store, fp)" for s in ast.walk(us.node) if isinstance(s, ast.stmt)) and "open(self.json_store, 'w')" in norm(us.node)
    chk.ob("C20.R5", "_update_store dumps the whole dict to the file", ok, "", key="JSONStore._update_store | body", where=us.where(), message="")
    swallow = [h for t in ast.walk(us.node) if isinstance(t, ast.Try) for h in t.handlers if not any(isinstance(r, ast.Raise) for r in ast.walk(h))]
    chk.ob("C20.R5", "a failed write is not swallowed", not swallow, "", key="JSONStore._update_store | write errors swallowed", where=us.where(), message="")
    for cls, typ in (("RedisDictStore", "Mapping"), ("RedisListStore", "Sequence")):
        f = _methods(st, cls)["__setitem__"]
        txt = [norm(s) for s in ast.walk(f.node) if isinstance(s, ast.stmt)]
        ok = "self.redis.delete(k)" in txt and any(t.startswith("if value:") for t in txt) and any("raise TypeError" in t for t in txt) and any("isinstance(value, %s)" % typ in t for t in txt)
        dele = [s for s in body_nodes(f) if isinstance(s, ast.Expr) and norm(s) == "self.redis.delete(k)"]
        store = [s for s in body_nodes(f) if isinstance(s, ast.If) and norm(s.test) == "value"]
        same = False
        if len(dele) == 1 and len(store) == 1:
            blk = getattr(st.parent(dele[0]), "body", []) + getattr(st.parent(dele[0]), "orelse", [])
            same = any(x is store[0] for x in blk) and dele[0].lineno < store[0].lineno and \
                any(isinstance(c, ast.Call) and callname(c) in ("RedisStore.RedisDict", "RedisStore.RedisList") and c.args and norm(c.args[0]) == "value" for c in ast.walk(store[0]))
        ok = ok and same
        chk.ob("C20.R5", "%s.__setitem__ replaces the whole value (delete, then store if non-empty)" % cls, ok, "", key="%s.__setitem__ | replace semantics" % cls, where=f.where(), message="what was last written under a key is what is read back")


def r6(chk, ctx, st):
    rs = _methods(st, "RedisStore")
    # thread entry: the function given to threading.Thread, and what it can call on self
    stt = rs["_start_tracking"]
    th = [c for c in ast.walk(stt.node) if isinstance(c, ast.Call) and callname(c) == "threading.Thread"]
    chk.ob("C20.R6", "the invalidation listener runs in its own thread", len(th) == 1, "", key="RedisStore._start_tracking | thread creation", where=stt.where(), message="")
    thread_side = {"RedisStore._cache_invalidation_handler"}
    caller_side = {"RedisStore.get_cached_view", "RedisStore._write_to_cache"}
    acc = {}
    for q, f in st.funcs.items():
        for n in body_nodes(f):
            if isinstance(n, ast.Attribute) and norm(n) == "self.cache":
                locked = False
                x = n
                while x is not None and x is not f.node:
                    x = st.parent(x)
                    if isinstance(x, (ast.With, ast.AsyncWith)) and any("lock" in norm(i.context_expr).lower() for i in x.items):
                        locked = True
                acc.setdefault(q, []).append(locked)
    t_acc = {q: v for q, v in acc.items() if q in thread_side}
    c_acc = {q: v for q, v in acc.items() if q in caller_side}
    chk.floor("C20.R6", len(t_acc) + len(c_acc), 3, "functions touching self.cache")
    unlocked = sorted(q for q, v in list(t_acc.items()) + list(c_acc.items()) if not all(v))
    ok = not (t_acc and c_acc and unlocked)
    chk.ob("C20.R6", "self.cache is accessed from both thread entries under a common lock", ok, "unlocked in %s" % unlocked,
           key="RedisStore | self.cache shared between the tracker thread and callers with no common lock (fetch-then-cache in get_cached_view is not atomic w.r.t. invalidation)", where=st.rel,
           message="an invalidation delivered between the fetch and the cache write is lost: the stale value is cached after the invalidation that should have removed it, and served until the key changes again")


def run(chk, ctx):
    from . import generic
    generic.definite_assignment(chk, ctx, ['store'], "C20.DA")   # no local is read before it is bound (UnboundLocalError = an arbitrary exception)
    st = ctx.mod("store")
    r1(chk, ctx, st)
    r2(chk, ctx, st)
    r3(chk, ctx, st)
    r4(chk, ctx, st)
    r5(chk, ctx, st)
    r6(chk, ctx, st)
    from . import round3
    round3.update_writes_back(chk, ctx)
    round3.json_write_through(chk, ctx)
    from . import round5
    round5.store_absence_by_truthiness(chk, ctx, "C20.R10")
    round5.json_store_rewrite_is_atomic(chk, ctx, "C20.R11")
    round5.version_compared_componentwise(chk, ctx)
    round5.invalidation_handler_takes_what_is_published(chk, ctx)
    chk.assume("redis, pottery (RedisDict/RedisList) and collections.abc.MutableMapping behave as documented")
    chk.assume("Redis client-side caching sends an invalidation only for keys read through the tracked connection, once")
