"""C04 - in-progress executions survive an engine crash and restart (structural clauses)."""
import ast

from ..core import AnalysisError, dotted, callname, last, const, short, norm, kwarg
from ..cfg import CFG
from ..util import body_nodes, name_defs, enclosing_ifs, enclosing_stmt, derives_from
from .shared import proto_findings
from . import c03

EXPLANATION = (
    "Static reading of 'crash at any instant': a crash point is a CFG node, and what must hold at every node is an invariant of the shape. "
    "Decides: (R1) on every CFG path of every event handler, before the acknowledgement the broker still owns the event and after it every "
    "consequence has already been handed over (C03.R1/R2 typestate), and a task reply is acknowledged only after its callback has run; (R2) in "
    "every service function of execute_task the request send / child-start publish and its Scheduled history entry are control-dependent on "
    "exactly `not redelivered`, while registration of the pending request, canceller and timer is not, and the redelivered flag flows "
    "unmodified message.redelivered -> dispatch -> notify -> execute_task; (R3) the RPC correlation id is the event id (plus the two "
    "documented suffixes), the event id is the message id stamped at publish, and the consumer queues and messages are durable; (R4) "
    "deadlines are anchored in the context: start_execution sets StartTime/EnteredTime only when absent and change_state stamps EnteredTime "
    "before it publishes; (R5) both the termination gate and the join create the join state lazily before first use. Trusted: the broker "
    "redelivers what was unacknowledged. Not decided: equality of outcome with and without the crash; reply/event races around restart."
    ' (R8) the absence of a store entry is tested by truthiness, never by comparing get()/get_cached_view() with None: RedisDictStore.__getitem__ (read from the source) returns a view for any key, so the arm that re-creates a lost execution record must not be dead code with Redis.'
    " (R9) the JSON store's file is replaced atomically: a crash during a write must not lose the definitions that were already on disk; reported on the current tree as D72.")
RULE_TEXT = "obligation = one (entry, rule) for path rules; one guarded site / definition for the others; non-trivial = distinct (rule, site)"


def r1(chk, ctx):
    p = ctx.protocol()
    proto_findings(chk, p, {"C03.R1", "C03.R2", "C18.R4"})
    chk.floor("C04.R1", len(p.entries), 16, "analysed handler entries")
    c03.r3(chk, ctx)
    c03.r3b(chk, ctx)
    # reply acknowledged after the callback
    td = ctx.mod("task_dispatcher")
    f = td.func("TaskDispatcher.handle_rpcmessage_response")
    g = CFG(f.node)
    reqif = [n for n in body_nodes(f) if isinstance(n, ast.If) and norm(n.test) == "request"]
    chk.ob("C04.R1", "reply handler has its matched-request arm", len(reqif) == 1, "", key="%s | matched-request arm" % f.qname, where=f.where(), message="")
    if reqif:
        arm = reqif[0]
        inner = set()
        for s in arm.body:
            for x in ast.walk(s):
                inner.add(id(x))
        cbs = [c for c in body_nodes(f) if id(c) in inner and isinstance(c, ast.Call) and isinstance(c.func, ast.Name) and c.func.id == "callback"]
        acks = [c for c in body_nodes(f) if id(c) in inner and isinstance(c, ast.Call) and norm(c.func) == "message.acknowledge"]
        ok = len(cbs) == 1 and len(acks) == 1
        if ok:
            cn, an = g.containing_stmt_node(cbs[0], td), g.containing_stmt_node(acks[0], td)
            ok = an in g.reachable_from(cn) and cn not in g.reachable_from(an)
        chk.ob("C04.R1", "a matched reply is acknowledged only after its callback has run", ok, "",
               key="%s | reply acknowledged before the callback" % f.qname, where=f.where(acks[0]) if acks else f.where(),
               message="a crash between the reply's ack and the next-state publish loses the reply for good: the redelivered Task event does not re-send the request")


def r2(chk, ctx):
    td = ctx.mod("task_dispatcher")
    ext = td.func("TaskDispatcher.execute_task")
    svc = [f for q, f in td.funcs.items() if q.startswith(ext.qname + ".asl_service_") and f.parent is ext]
    n_guarded = 0
    for f in svc:
        sends = []
        regs = []
        for c in body_nodes(f):
            if isinstance(c, ast.Call):
                nm = callname(c)
                if nm == "self.producer.send" or last(nm) == "publish":
                    sends.append(("send", c))
                elif last(nm) == "update_execution_history" and "Scheduled" in norm(c.args[2]):
                    sends.append(("history " + norm(c.args[2]), c))
                elif nm in ("self.set_function_canceller", "self.set_sfn_canceller") or last(nm) == "set_timeout":
                    regs.append((nm, c))
            if isinstance(c, ast.Assign) and any(isinstance(t, ast.Subscript) and norm(t.value) == "self.pending_requests" for t in c.targets):
                regs.append(("pending_requests[...] =", c))
        for what, c in sends:
            n_guarded += 1
            tests = [(norm(i.test), arm) for i, arm in enclosing_ifs(td, c, f.node)]
            rd = [(t, arm) for t, arm in tests if "redelivered" in t]
            ok = rd == [("not redelivered", "body")]
            chk.ob("C04.R2", "%s: %s is under exactly `if not redelivered`" % (f.name, what), ok, str(rd),
                   key="%s | %s guarded by %s instead of `not redelivered`" % (f.qname, what.split(" ")[0], [t for t, _ in rd] or "nothing"), where=td.line(c),
                   message="a task whose request was already sent must not be requested again when its event is redelivered after a restart")
        for what, c in regs:
            tests = [norm(i.test) for i, arm in enclosing_ifs(td, c, f.node)]
            ok = not any("redelivered" in t for t in tests)
            chk.ob("C04.R2", "%s: registration `%s` is not under the redelivery guard" % (f.name, what), ok, str(tests),
                   key="%s | registration %s skipped on redelivery" % (f.qname, what), where=td.line(c),
                   message="after a restart the reply of the original request must still find its pending entry, canceller and timer")
    chk.floor("C04.R2", n_guarded, 5, "guarded send/publish/history sites")
    # the flag is a parameter that is never rebound
    params = [a.arg for a in ext.node.args.args]
    ok = "redelivered" in params and not any(isinstance(n, ast.Name) and n.id == "redelivered" and isinstance(n.ctx, ast.Store) for n in ast.walk(ext.node))
    chk.ob("C04.R2", "execute_task never rebinds `redelivered`", ok, "", key="%s | redelivered rebound" % ext.qname, where=ext.where(), message="")
    p = ctx.protocol()
    se = ctx.mod("state_engine")
    notify = p.notify
    ok = "redelivered" in [a.arg for a in notify.node.args.args] and not any(isinstance(n, ast.Name) and n.id == "redelivered" and isinstance(n.ctx, ast.Store) for n in ast.walk(notify.node))
    chk.ob("C04.R2", "notify never rebinds `redelivered`", ok, "", key="%s | redelivered rebound" % notify.qname, where=notify.where(), message="")
    tdel = p.deferred_targets.get(notify.qname + ".asl_state_Task_delegate")
    ex = [c for c in body_nodes(tdel) if isinstance(c, ast.Call) and last(callname(c)) == "execute_task"]
    ok = len(ex) == 1 and norm(ex[0].args[-1]) == "redelivered" and norm(ex[0].args[-2]) == "id"
    chk.ob("C04.R2", "Task hands (id, redelivered) to execute_task", ok, "", key="%s | execute_task flag argument" % tdel.qname, where=tdel.where(), message="")


def r3(chk, ctx):
    td = ctx.mod("task_dispatcher")
    ed = ctx.mod("event_dispatcher")
    ext = td.func("TaskDispatcher.execute_task")
    rpc = ext.children.get("asl_service_rpcmessage")
    sfn = ext.children.get("asl_service_states_startExecution")
    if rpc is None or sfn is None:
        raise AnalysisError("anchor not found: execute_task service functions")
    d = [norm(x.value) for x in name_defs(rpc, "correlation_id") if isinstance(x, ast.Assign)]
    ok = d == ["event_id", "correlation_id + suffix"]
    chk.ob("C04.R3", "rpcmessage: correlation id = event id (+ suffix)", ok, str(d), key="%s | correlation id definitions %s" % (rpc.qname, d), where=rpc.where(),
           message="the event id survives redelivery, so a reply arriving around a restart still matches its task")
    sx = [norm(x.value) for x in name_defs(rpc, "suffix") if isinstance(x, ast.Assign)]
    ok = sx == ["'.invoke' if resource == 'invoke' else '.waitForTaskToken'"]
    chk.ob("C04.R3", "rpcmessage: suffix is .invoke or .waitForTaskToken", ok, str(sx), key="%s | suffix %s" % (rpc.qname, sx), where=rpc.where(), message="")
    d = [norm(x.value) for x in name_defs(sfn, "correlation_id") if isinstance(x, ast.Assign)]
    ok = sorted(d) == ["child_execution_arn", "event_id + '.waitForTaskToken'"]
    chk.ob("C04.R3", "startExecution: correlation id = child ARN or event id + .waitForTaskToken", ok, str(d), key="%s | correlation id definitions %s" % (sfn.qname, d), where=sfn.where(), message="")
    nm = [norm(x.value) for x in name_defs(sfn, "child_execution_name") if isinstance(x, ast.Assign)]
    chk.ob("C04.R3", "startExecution: default child name is the event id (stable across redelivery)", nm == ["parameters.get('Name', event_id)"], str(nm), key="%s | child name" % sfn.qname, where=sfn.where(), message="")
    msg = [c for c in body_nodes(rpc) if isinstance(c, ast.Call) and callname(c) == "Message"]
    ok = len(msg) == 1 and norm(kwarg(msg[0], "correlation_id")) == "correlation_id" and norm(kwarg(msg[0], "reply_to")) == "self.reply_to.name"
    chk.ob("C04.R3", "request carries correlation_id and this instance's reply queue", ok, "", key="%s | request message fields" % rpc.qname, where=rpc.where(), message="")
    # event id = message id
    disp = ed.func("EventDispatcher.dispatch")
    d = [norm(x.value) for x in name_defs(disp, "message_id") if isinstance(x, ast.Assign)]
    chk.ob("C04.R3", "event id = message.message_id", d == ["message.message_id"], str(d), key="%s | event id source" % disp.qname, where=disp.where(), message="")
    pub = ed.func("EventDispatcher.publish")
    st = [s for s in body_nodes(pub) if isinstance(s, ast.Assign) and norm(s.targets[0]) == "message.message_id"]
    ok = len(st) == 1 and norm(st[0].value) == "str(uuid.uuid4())"
    g = CFG(pub.node)
    snd = [c for c in body_nodes(pub) if isinstance(c, ast.Call) and last(callname(c)) == "send"]
    ok = ok and len(snd) == 1 and g.dominates(g.node_of(st[0]), g.containing_stmt_node(snd[0], ed))
    chk.ob("C04.R3", "publish stamps a fresh message id before sending", ok, "", key="%s | message id stamping" % pub.qname, where=pub.where(), message="")
    # durability of queues and messages
    for fn in ("EventDispatcher.start", "EventDispatcher.start_asyncio"):
        f = ed.func(fn)
        for var in ("shared_queue", "instance_queue"):
            d = [x for x in name_defs(f, var) if isinstance(x, ast.Assign)]
            ok = len(d) == 1 and '"durable": true' in "".join(c.value for c in ast.walk(d[0].value) if isinstance(c, ast.Constant) and isinstance(c.value, str))
            chk.ob("C04.R3", "%s: %s is declared durable" % (fn, var), ok, "", key="%s | %s not durable" % (fn, var), where=f.where(), message="queued events must survive a broker restart")
    for fn in ("TaskDispatcher.start", "TaskDispatcher.start_asyncio"):
        f = td.func(fn)
        txt = "".join(c.value for c in ast.walk(f.node) if isinstance(c, ast.Constant) and isinstance(c.value, str))
        chk.ob("C04.R3", "%s: reply queue is declared durable" % fn, '"durable": true' in txt, "", key="%s | reply queue not durable" % fn, where=f.where(), message="")
    for mn in ("amqp_0_9_1_messaging", "amqp_0_9_1_messaging_asyncio"):
        m = ctx.mod(mn)
        init = m.func("Message.__init__")
        args = init.node.args
        names = [a.arg for a in args.args]
        dflt = dict(zip(names[len(names) - len(args.defaults):], args.defaults))
        ok = "durable" in dflt and const(dflt["durable"]) is True
        chk.ob("C04.R3", "%s: Message(durable=True) by default" % mn, ok, "", key="%s.Message | durable default" % mn, where=init.where(), message="")
        snd = m.func("Producer.send")
        txt = " ".join(norm(s) for s in ast.walk(snd.node) if isinstance(s, ast.stmt))
        ok = "delivery_mode=2 if message.durable else 1" in txt.replace("(", "").replace(")", "") or "delivery_mode" in txt and "message.durable" in txt
        chk.ob("C04.R3", "%s: durable maps to delivery_mode 2" % mn, ok, "", key="%s.Producer.send | delivery_mode mapping" % mn, where=snd.where(), message="")


def r4(chk, ctx):
    se = ctx.mod("state_engine")
    st = se.func("StateEngine.start_execution")
    for target, guard in (("execution['StartTime']", "'StartTime' not in execution"), ("context['State']['EnteredTime']", "'EnteredTime' not in context['State']"),
                          ("execution['Id']", "'Id' not in execution"), ("execution['Name']", "'Name' not in execution"), ("execution['Input']", "'Input' not in execution")):
        a = [s for s in body_nodes(st) if isinstance(s, ast.Assign) and norm(s.targets[0]) == target]
        ok = len(a) == 1 and [norm(i.test) for i, arm in enclosing_ifs(se, a[0], st.node) if arm == "body"] == [guard]
        chk.ob("C04.R4", "start_execution sets %s only when absent" % target, ok, "", key="StateEngine.start_execution | %s overwritten on redelivery" % target, where=st.where(),
               message="a redelivered start event must keep the identity and the clocks of the original attempt")
    cs = se.func("StateEngine.change_state")
    g = CFG(cs.node)
    stamp = [s for s in body_nodes(cs) if isinstance(s, ast.Assign) and norm(s.targets[0]) == "state['EnteredTime']"]
    pub = [c for c in body_nodes(cs) if isinstance(c, ast.Call) and last(callname(c)) == "publish"]
    ok = len(stamp) == 1 and len(pub) == 1 and g.dominates(g.node_of(stamp[0]), g.containing_stmt_node(pub[0], se)) and "datetime.now(timezone.utc)" in norm(stamp[0].value)
    chk.ob("C04.R4", "change_state stamps EnteredTime before it publishes the next state", ok, "", key="StateEngine.change_state | EnteredTime stamping", where=cs.where(),
           message="Wait deadlines and Task timeouts are computed from the EnteredTime carried in the event")
    nm = [s for s in body_nodes(cs) if isinstance(s, ast.Assign) and norm(s.targets[0]) == "state['Name']"]
    ok = len(nm) == 1 and norm(nm[0].value) == "next_state" and len(pub) == 1 and g.dominates(g.node_of(nm[0]), g.containing_stmt_node(pub[0], se))
    chk.ob("C04.R4", "change_state sets the next state's name before it publishes", ok, "", key="StateEngine.change_state | Name update", where=cs.where(), message="")
    from . import c08
    p, w = c08._handler(ctx, "Wait")
    c08._deadline_defs(chk, ctx, w, se, rule="C04.R4")
    tdel = p.deferred_targets.get(p.notify.qname + ".asl_state_Task_delegate")
    c08._deadline_defs(chk, ctx, tdel, se, rule="C04.R4")


def r5(chk, ctx):
    p = ctx.protocol()
    se = ctx.mod("state_engine")
    for f in (p.gate, p.join):
        g = p.eng.cfg(f)
        cr = [s for s in body_nodes(f) if isinstance(s, ast.Assign) and norm(s.targets[0]) == "self.branch_metadata[execution_arn]" and "BranchMetadata(" in norm(s.value)]
        ok = len(cr) == 1 and [norm(i.test) for i, arm in enclosing_ifs(se, cr[0], f.node) if arm == "body"][-1:] == ["not execution_arn in self.branch_metadata"] or \
            (len(cr) == 1 and "not execution_arn in self.branch_metadata" in [norm(i.test) for i, arm in enclosing_ifs(se, cr[0], f.node)])
        chk.ob("C04.R5", "%s creates the execution's join state when missing" % f.name, ok, "", key="%s | lazy BranchMetadata creation" % f.qname, where=f.where(),
               message="after a restart branch events are redelivered to an engine that has no join state")
        use = [s for s in body_nodes(f) if isinstance(s, ast.Assign) and norm(s.value) == "self.branch_metadata[execution_arn].results"]
        if cr and use:
            guard = [i for i, arm in enclosing_ifs(se, cr[0], f.node) if "branch_metadata" in norm(i.test)][0]
            ok = all(g.dominates(g.node_of(guard), g.node_of(u)) for u in use)
            chk.ob("C04.R5", "%s: creation precedes first use" % f.name, ok, "", key="%s | join state used before it is ensured" % f.qname, where=f.where(), message="")
        rc = [s for s in body_nodes(f) if isinstance(s, ast.Assign) and norm(s.targets[0]) == "all_branch_results[current_id]" and isinstance(s.value, ast.Dict)]
        ok = len(rc) == 1 and "not current_id in all_branch_results" in [norm(i.test) for i, arm in enclosing_ifs(se, rc[0], f.node)]
        chk.ob("C04.R5", "%s creates the fan-out's results record when missing" % f.name, ok, "", key="%s | lazy results record" % f.qname, where=f.where(), message="")
        if rc:
            keys = [k.value for k in rc[0].value.keys]
            ok = keys == ["results", "ids", "state"] and all(norm(v) == "[None] * length" for v in rc[0].value.values)
            chk.ob("C04.R5", "%s: results/ids/state lists of the fan-out's length" % f.name, ok, "", key="%s | results record shape" % f.qname, where=f.where(), message="")


def run(chk, ctx):
    r1(chk, ctx)
    r2(chk, ctx)
    r3(chk, ctx)
    r4(chk, ctx)
    r5(chk, ctx)
    from . import round3
    round3.orphan_sweep_rearms(chk, ctx)
    round3.json_write_through(chk, ctx)    # definitions accepted before the crash are on disk
    from . import round5
    round5.store_absence_by_truthiness(chk, ctx, "C04.R8")   # the record of an execution lost with the engine is re-created
    round5.retry_arm_publishes_before_teardown(chk, ctx)
    round5.json_store_rewrite_is_atomic(chk, ctx, "C04.R9")   # definitions accepted before the crash are (still) on disk
    from . import round4
    round4.clock_domains(chk, ctx)
    round4.teardown_after_terminal_notification(chk, ctx)   # a crash between the release of the held events and the notification loses the end
    round4.orphan_entry_timer_paired(chk, ctx)
    chk.assume("the broker redelivers every unacknowledged message with redelivered=True after a restart with the same instance id")
    chk.assume("engine-internal calls do not raise; a crash is modelled as stopping at a CFG node")
