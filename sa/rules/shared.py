"""Glue between the shared analyses (sa.protocol) and per-property checks."""


def proto_findings(chk, proto, rules, label=None, func_filter=None):
    """Turn the protocol's reports for `rules` into obligations/findings of this check.
    One obligation per (entry, rule): discharged when the entry produced no report for that rule."""
    by_entry = {}
    for r in proto.reports:
        if r["rule"] in rules and (func_filter is None or func_filter(r)):
            by_entry.setdefault((r["func"], r["rule"]), []).append(r)
    n = 0
    for qname, kind, nexits in proto.entries:
        base = qname.split("[")[0]
        for rule in sorted(rules):
            reps = by_entry.get((base, rule), [])
            if func_filter is not None and not reps and not func_filter({"func": base, "rule": rule}):
                continue
            n += 1
            if not reps:
                chk.ob(rule, "%s (%s, %d exit states)" % (qname, kind, nexits), True, "all CFG paths satisfy the rule")
            else:
                seen = set()
                for r in reps:
                    if r["key"] in seen:
                        continue
                    seen.add(r["key"])
                    chk.ob(rule, "%s (%s)" % (qname, kind), False, r["message"], key=r["key"], where=r["where"],
                           message=r["message"], path=r["path"])
    chk.extra.setdefault("protocol_stats", dict(proto.eng.stats))
    chk.extra.setdefault("entries", [list(e) for e in proto.entries])
    if proto.eng.notes:
        chk.notes.extend(sorted(set(proto.eng.notes))[:10])
    for qname, kind, nexits in proto.entries[:6]:
        chk.sample({"entry": qname, "role": kind, "exit_states": nexits})
    return n
