"""C02 - every execution ends exactly once; the terminal record never changes (structural clauses)."""
import ast

from ..core import AnalysisError, dotted, callname, last, const, subscript_key, short, norm, walk_no_nested_incl
from ..flow import FlowEngine, State
from ..util import body_nodes, stores_to, dict_literal_value, dict_keys
from .shared import proto_findings
from ..cfg import CFG
from . import c03

EXPLANATION = (
    "Static analysis of the current /repo source. Decides the structural clauses of C02: (R1) the terminal status literals "
    "are stored by exactly one function and nobody outside StateEngine writes the executions/history stores; (R2) that "
    "function is called only from handle_terminal_state and the expiry backstop; (R3) on every CFG path of end_execution / "
    "start_execution the record fields, the single terminal history event and the single notification are produced in the "
    "right combination and order; (R5) every CFG path of every event handler (8 state handlers, 5 deferred callbacks, "
    "handle_error, handle_terminal_state, the join, the termination gate, notify itself) issues exactly one continuation. "
    "It does not decide behaviour under reordered or late events (schedule-dependent)."
    ' Added with the round-6 baseline defects: (C06.R10) both termination gates tolerate a group whose join state was tidied up (a KeyError there leaves an empty join state that the back stop ends a second time); (C07.R9) a fan-out delegate evaluates nothing catchable after it pushed its placeholder Branch record (else the execution stays RUNNING for ever).')
RULE_TEXT = ("obligation = one rule instance (a store site, a call site, a CFG exit path of an analysed entry); non-trivial = "
             "distinct (rule, site) pairs; path rules are a fixpoint over a finite abstract domain, so every CFG path is covered")

TERMINAL = {"SUCCEEDED", "FAILED", "TIMED_OUT", "ABORTED"}
STORES = {"executions", "execution_history"}


def status_stores(module):
    """(func qname, literal, node) for X["status"] = "<lit>" and dict literals {"status": "<lit>"} in a module"""
    out = []
    for q, f in module.funcs.items():
        for n in body_nodes(f):
            if isinstance(n, ast.Assign):
                for t in n.targets:
                    if subscript_key(t) == "status" and isinstance(n.value, ast.Constant) and isinstance(n.value.value, str):
                        out.append((q, n.value.value, n, "assign"))
            if isinstance(n, ast.Dict):
                v = dict_literal_value(n, "status")
                if isinstance(v, ast.Constant) and isinstance(v.value, str) and "executionArn" in dict_keys(n):
                    out.append((q, v.value, n, "literal"))
    return out


def find_end_execution(ctx):
    se = ctx.mod("state_engine")
    writers = sorted({q for q, lit, n, k in status_stores(se) if lit in TERMINAL})
    return se, writers


def r1(chk, ctx):
    se, writers = find_end_execution(ctx)
    if not writers:
        raise AnalysisError("C02.R1: no function stores a terminal status literal (anchor lost)")
    chk.ob("C02.R1", "single writer of terminal status", len(writers) == 1,
           "functions storing a terminal status literal: %s" % writers,
           key="terminal status literal stored by more than one function: " + ", ".join(writers),
           where=se.rel, message="the terminal status must be written in one place only")
    chk.sample({"rule": "C02.R1", "terminal_writer": writers})
    # terminal literals anywhere else in the package (REST modules may *compare* but must not store)
    n_sites = 0
    for name, m in ctx.repo.modules.items():
        if name == "state_engine":
            continue
        for q, lit, n, k in status_stores(m):
            n_sites += 1
            chk.ob("C02.R1", "%s stores status %s" % (q, lit), lit not in TERMINAL,
                   "status literal %s in %s" % (lit, q), key="%s | stores terminal status literal %s" % (q, lit),
                   where=m.line(n), message="terminal status stored outside the end-execution function")
    # RUNNING only in start/end(EXPRESS synthesis)/history re-creation
    allowed_running = set(writers) | {"StateEngine.start_execution", "StateEngine.update_execution_history"}
    for q, lit, n, k in status_stores(se):
        if lit == "RUNNING":
            chk.ob("C02.R1", "RUNNING record literal in %s" % q, q in allowed_running, "",
                   key="%s | creates a RUNNING record" % q, where=se.line(n),
                   message="a RUNNING record is created outside start_execution / the EXPRESS synthesis / the restart re-creation arm")
    # who may write the stores
    count = 0
    ctx.repo.consulted.update(ctx.repo.modules)
    for name, m in ctx.repo.modules.items():
        for q, f in m.funcs.items():
            for n, kind, attr in stores_to(body_nodes(f), STORES):
                count += 1
                ok = f.cls == "StateEngine"
                chk.ob("C02.R1", "%s %s %s" % (q, kind, attr), ok, "", key="%s | %s of %s outside StateEngine" % (q, kind, attr),
                       where=m.line(n), message="only StateEngine may write the executions / execution_history stores")
            # mutation through an alias of a stored record (x = <store>.get(k) / <store>[k]; x[f] = v) outside StateEngine
            if f.cls != "StateEngine":
                aliases = set()
                for n in body_nodes(f):
                    if isinstance(n, ast.Assign) and len(n.targets) == 1 and isinstance(n.targets[0], ast.Name):
                        v = n.value
                        src = None
                        if isinstance(v, ast.Call) and isinstance(v.func, ast.Attribute) and v.func.attr in ("get", "get_cached_view"):
                            src = dotted(v.func.value)
                        elif isinstance(v, ast.Subscript):
                            src = dotted(v.value)
                        if src and last(src) in STORES:
                            aliases.add(n.targets[0].id)
                for n in body_nodes(f):
                    if isinstance(n, ast.Assign):
                        for t in n.targets:
                            if isinstance(t, ast.Subscript) and isinstance(t.value, ast.Name) and t.value.id in aliases:
                                chk.ob("C02.R1", "%s mutates a stored execution record through alias %s" % (q, t.value.id), False, "",
                                       key="%s | store through alias of executions record" % q, where=m.line(n),
                                       message="execution records may only be changed by StateEngine.end_execution")
    chk.floor("C02.R1", count, 4, "writes to executions/execution_history")
    # positive control: the detector must see a synthetic violation
    probe = ast.parse("def f(self):\n    self.executions['a'] = {}\n    del self.state_engine.execution_history['a']\n")
    hits = list(stores_to(ast.walk(probe), STORES))
    if len(hits) != 2:
        raise AnalysisError("C02.R1 self-test: store detector did not fire on the embedded positive example")


def r2(chk, ctx):
    se, writers = find_end_execution(ctx)
    end = se.func(writers[0])
    res = ctx.res
    callers = {}
    for name, m in ctx.repo.modules.items():
        for q, f in m.funcs.items():
            for n in body_nodes(f):
                if isinstance(n, ast.Call):
                    t = res.resolve(n, f)
                    if t is end:
                        callers.setdefault(q, []).append(n)
    allowed = {"StateEngine.notify.handle_terminal_state", "StateEngine.check_for_expired_branch_results"}
    total = 0
    for q, sites in callers.items():
        for n in sites:
            total += 1
            chk.ob("C02.R2", "%s calls %s" % (q, end.qname), q in allowed, "", key="%s | calls the end-execution function" % q,
                   where=ctx.repo.modules[[k for k, m in ctx.repo.modules.items() if q in m.funcs][0]].line(n),
                   message="end_execution may only be reached through handle_terminal_state or the expiry backstop")
    chk.floor("C02.R2", len(callers.get("StateEngine.notify.handle_terminal_state", [])), 3, "end_execution call sites in handle_terminal_state")
    chk.sample({"rule": "C02.R2", "callers": {q: len(v) for q, v in callers.items()}})


def _flag(st, f):
    return st._replace(flags=st.flags | {f})


def r3(chk, ctx):
    se, writers = find_end_execution(ctx)
    end = se.func(writers[0])
    eng = FlowEngine(ctx.repo, ctx.res, depth=0)
    res = ctx.res
    hist = se.func("StateEngine.update_execution_history")
    bcast = se.func("StateEngine.broadcast_notification")

    def stmt_hook(e, func, node, st):
        a = node.ast
        if isinstance(a, ast.Assign):
            for t in a.targets:
                k = subscript_key(t)
                if k == "status" and isinstance(a.value, ast.Constant):
                    tag = "st:" + str(a.value.value)
                    if any(isinstance(f, str) and f.startswith("st:") for f in st.flags):
                        st = _flag(st, "st:dup")
                    st = _flag(st, tag)
                elif k == "stopDate":
                    st = _flag(st, "stop")
                elif k == "output":
                    st = _flag(st._replace(flags=frozenset(f for f in st.flags if f not in ("out:none", "out:set"))),
                               "out:none" if (isinstance(a.value, ast.Constant) and a.value.value is None) else "out:set")
                elif k in ("error", "cause"):
                    st = _flag(st, k)
        return st

    def call_hook(e, func, call, st, tag, target, node):
        if target is hist:
            ut = call.args[2] if len(call.args) > 2 else None
            if isinstance(ut, ast.Constant) and ut.value in ("ExecutionFailed", "ExecutionSucceeded", "ExecutionTimedOut", "ExecutionAborted"):
                if any(isinstance(f, str) and f.startswith("h:") for f in st.flags):
                    st = _flag(st, "h:dup")
                st = _flag(st, "h:" + ut.value)
            return [(st, None)]
        if target is bcast:
            if "bc" in st.flags:
                st = _flag(st, "bc:dup")
            if not ("stop" in st.flags and any(isinstance(f, str) and f.startswith("st:") for f in st.flags)):
                st = _flag(st, "bc:early")
            return [(_flag(st, "bc"), None)]
        return [(st, None)]

    role = {"stmt_hook": stmt_hook, "call_hook": call_hook}
    exits = eng.run(end, State(False, 0, False, frozenset(), frozenset()), role)
    npaths = 0
    for kind, st, rv, key in exits:
        if kind != "normal":
            continue
        npaths += 1
        fl = {f for f in st.flags if isinstance(f, str)}
        path = eng.trail(key)
        sts = sorted(f for f in fl if f.startswith("st:") and f != "st:dup")
        ok_once = len(sts) == 1 and "st:dup" not in fl and sts[0][3:] in ("FAILED", "SUCCEEDED")
        chk.ob("C02.R3", "end-execution exit %d: exactly one terminal status" % npaths, ok_once, str(sorted(fl)),
               key="%s | path assigns terminal status %s" % (end.qname, sts or "never"), where=end.where(), path=path,
               message="every path of end_execution must assign exactly one of SUCCEEDED/FAILED")
        chk.ob("C02.R3", "end-execution exit %d: stopDate assigned" % npaths, "stop" in fl, "",
               key="%s | path without stopDate" % end.qname, where=end.where(), path=path, message="stopDate must be set iff terminal")
        if "st:FAILED" in fl:
            ok = "out:none" in fl and "error" in fl and "cause" in fl and "h:ExecutionFailed" in fl and "h:dup" not in fl
            chk.ob("C02.R3", "end-execution exit %d: FAILED => output None, error, cause, one ExecutionFailed" % npaths, ok, str(sorted(fl)),
                   key="%s | FAILED path record/history shape %s" % (end.qname, sorted(fl - {"bc", "stop"})), where=end.where(), path=path,
                   message="FAILED record must have output None, error and cause set, and exactly one ExecutionFailed history event")
        if "st:SUCCEEDED" in fl:
            ok = "out:set" in fl and "h:ExecutionSucceeded" in fl and "h:dup" not in fl and "error" not in fl
            chk.ob("C02.R3", "end-execution exit %d: SUCCEEDED => output set, one ExecutionSucceeded" % npaths, ok, str(sorted(fl)),
                   key="%s | SUCCEEDED path record/history shape %s" % (end.qname, sorted(fl - {"bc", "stop"})), where=end.where(), path=path,
                   message="SUCCEEDED record must have output set and exactly one ExecutionSucceeded history event")
        ok = "bc" in fl and "bc:dup" not in fl and "bc:early" not in fl
        chk.ob("C02.R3", "end-execution exit %d: exactly one notification, after the record update" % npaths, ok, str(sorted(fl)),
               key="%s | notification count/order %s" % (end.qname, sorted(f for f in fl if f.startswith("bc"))), where=end.where(), path=path,
               message="exactly one broadcast_notification, after status and stopDate are set")
    chk.floor("C02.R3", npaths, 2, "normal exit paths of the end-execution function")

    # start_execution
    start = se.func("StateEngine.start_execution")
    lits = [n for n in body_nodes(start) if isinstance(n, ast.Dict) and "status" in dict_keys(n)]
    chk.floor("C02.R3", len(lits), 1, "record literal in start_execution")
    for d in lits:
        s_, o_, p_ = dict_literal_value(d, "status"), dict_literal_value(d, "output"), dict_literal_value(d, "stopDate")
        ok = const(s_) == "RUNNING" and isinstance(o_, ast.Constant) and o_.value is None and isinstance(p_, ast.Constant) and p_.value is None
        chk.ob("C02.R3", "start record literal", ok, short(d), key="%s | initial record is not RUNNING/output None/stopDate None" % start.qname,
               where=start.where(d), message="a started execution's record must be RUNNING with output and stopDate unset")
    exits = eng.run(start, State(False, 0, False, frozenset(), frozenset()), role)
    k = 0
    for kind, st, rv, key in exits:
        if kind != "normal":
            continue
        k += 1
        fl = {f for f in st.flags if isinstance(f, str)}
        chk.ob("C02.R3", "start_execution exit %d: exactly one RUNNING notification" % k, "bc" in fl and "bc:dup" not in fl, str(sorted(fl)),
               key="%s | notification count on a path: %s" % (start.qname, sorted(f for f in fl if f.startswith("bc") and f != "bc:early") or "none"),
               where=start.where(), path=eng.trail(key), message="exactly one RUNNING notification per start")
    chk.floor("C02.R3", k, 1, "exit paths of start_execution")


def r4(chk, ctx):
    """the expiry backstop ends an execution at most once: its 'already handled' latch is set before end_execution
    and is the very field/value the skip arm tests"""
    se = ctx.mod("state_engine")
    f = se.func("StateEngine.check_for_expired_branch_results")
    g = CFG(f.node)
    ends = [c for c in body_nodes(f) if isinstance(c, ast.Call) and last(callname(c)) == "end_execution"]
    chk.ob("C02.R4", "backstop calls end_execution at one site", len(ends) == 1, "", key="%s | end_execution sites: %d" % (f.qname, len(ends)), where=f.where(), message="")
    if len(ends) != 1:
        return
    loop = None
    n = ends[0]
    while n is not None and n is not f.node:
        n = se.parent(n)
        if isinstance(n, ast.For):
            loop = n
            break
    skips = []
    if loop is not None:
        for s_ in loop.body:
            if isinstance(s_, ast.If) and isinstance(s_.test, ast.Compare) and len(s_.test.ops) == 1 and isinstance(s_.test.ops[0], ast.Eq) \
                    and isinstance(s_.test.comparators[0], ast.Constant) and any(isinstance(x, ast.Continue) for x in s_.body):
                skips.append(s_)
    chk.ob("C02.R4", "backstop loop has an 'already handled' skip arm", len(skips) == 1, "", key="%s | no latch test before end_execution" % f.qname, where=f.where(),
           message="an expired execution whose join state lingers would be ended again on every later heartbeat")
    if len(skips) != 1:
        return
    sk = skips[0]
    field, val = norm(sk.test.left), sk.test.comparators[0].value
    sets = [a for a in ast.walk(loop) if isinstance(a, ast.Assign) and norm(a.targets[0]) == field and isinstance(a.value, ast.Constant) and a.value.value == val]
    ok = len(sets) >= 1 and any(g.dominates(g.node_of(a), g.containing_stmt_node(ends[0], se)) for a in sets)
    chk.ob("C02.R4", "latch `%s = %r` is set on every path before end_execution" % (field, val), ok, "",
           key="%s | the field tested by the skip arm (`%s == %r`) is not set before end_execution" % (f.qname, field, val), where=se.line(sk),
           message="the backstop would call end_execution again for the same execution: repeated FAILED notifications, changing stopDate")
    ok = g.dominates(g.node_of(sk), g.containing_stmt_node(ends[0], se))
    chk.ob("C02.R4", "the skip arm dominates end_execution", ok, "", key="%s | skip arm does not dominate end_execution" % f.qname, where=se.line(sk), message="")
    # the latch value can never be a live expiry: expiry is start time + timeout > 0 and the expiry test is `now > expiry`
    c03.r6(chk, ctx)


def r5(chk, ctx):
    p = ctx.protocol()
    n = proto_findings(chk, p, {"C02.R5"}, "C02.R5")
    chk.floor("C02.R5", len(p.entries), 16, "analysed handler entries")


def run(chk, ctx):
    r1(chk, ctx)
    r2(chk, ctx)
    r3(chk, ctx)
    r4(chk, ctx)
    r5(chk, ctx)
    from . import c05, c06
    c05.r5(chk, ctx, ctx.protocol(), ctx.mod("state_engine"))   # an empty Branch stack leaves the execution RUNNING for ever
    c06.r3(chk, ctx, ctx.protocol(), ctx.mod("state_engine"))   # join state that lingers is ended again by the backstop
    from . import round3
    round3.record_receivers_readonly(chk, ctx)
    round3.pending_marker_not_data(chk, ctx)    # a join that can never complete leaves the execution RUNNING for ever
    round3.terminated_range(chk, ctx)     # slots that were never launched must not be awaited: the lingering join state ends the execution twice
    from . import round4
    round4.teardown_scoped_to_terminated_groups(chk, ctx)   # an enclosing join that can never complete leaves the execution RUNNING for ever
    round4.task_outcome_once(chk, ctx)       # a Task whose launcher produces no outcome leaves its execution RUNNING for ever; two outcomes end it twice
    from . import round5
    round5.gates_tolerate_tidied_group(chk, ctx)   # a KeyError in the gate leaves an empty join state behind: the back stop ends the SUCCEEDED execution a second time
    round5.placeholder_not_visible_to_error_handling(chk, ctx)   # execution RUNNING for ever
    round5.notify_fails_only_behind_the_gate(chk, ctx)   # a straggler that ends a failed execution a second time
    chk.assume("engine-internal calls (change_state, handle_error, acknowledge, publish) do not raise; exception edges come from the may-raise table of sa/flow.py")
    chk.assume("loops run 0-or-more times; branch correlation only through the four idioms of DESIGN.md section 2")
    chk.assume("handle_error / handle_terminal_state / the join / the termination gate are verified against their contract and the contract is used at call sites")
