"""Generic rules that hold for every function of the analysed modules (not tied to one site).

G.DA definite assignment: no local variable is read on a path on which it has not been bound.  An UnboundLocalError raised inside
a handler is an arbitrary exception at that point: the state fails with States.Runtime (or the request with InternalError, or
the callback dies with its event unacknowledged) where the property demands a specific outcome.  The analysis is path-
sensitive in the three idioms the repository uses (constant-valued flags, a repeated side-effect-free test, a witness variable
that is only truthy when the block that binds the others ran); what it still cannot prune on the reviewed tree is listed in
REVIEWED with the reason each use is safe, so that a *new* possibly-unbound use is reported and the listed ones are not.
"""
import ast

from ..cfg import CFG, OTHER

# (module, function, name): why the use is safe on the reviewed tree
REVIEWED = {
    ("rest_api_asyncio", "RestAPI.create_app.handle_post.aws_api_CreateStateMachine", "error_count"): "len(problems) > 0 implies len == 1 or len > 1",
    ("rest_api_asyncio", "RestAPI.create_app.handle_post.aws_api_UpdateStateMachine", "error_count"): "len(problems) > 0 implies len == 1 or len > 1",
    ("state_engine_paths", "evaluate_payload_template.clone", "target"): "clone is only called with a list or an object (its two call sites test isinstance(..., (dict, list)))",
    ("j2119", "Assigner.assign_constraints", "field_list"): "bound under `if field_list_string:` and read only under the same test",
}
SKIP_MODULES = {"open_tracing_factory", "workflow_engine", "__init__", "logger"}   # optional-import plumbing: names bound by `import` inside try


def _binds(node):
    out = set()

    def tgt(t):
        for n in ast.walk(t):
            if isinstance(n, ast.Name) and isinstance(n.ctx, ast.Store):
                out.add(n.id)
    a, k = node.ast, node.kind
    if a is None:
        return out
    if k == "loop":
        tgt(a.target)
        return out
    if k == "test":
        for n in ast.walk(a.test):
            if isinstance(n, ast.NamedExpr):
                tgt(n.target)
        return out
    if k == "with":
        for i in a.items:
            if i.optional_vars is not None:
                tgt(i.optional_vars)
        return out
    if k == "except":
        if a.name:
            out.add(a.name)
        return out
    if isinstance(a, ast.Assign):
        for t in a.targets:
            tgt(t)
    elif isinstance(a, (ast.AugAssign, ast.AnnAssign)):
        if getattr(a, "value", None) is not None or isinstance(a, ast.AugAssign):
            tgt(a.target)
    elif isinstance(a, (ast.Import, ast.ImportFrom)):
        for al in a.names:
            out.add((al.asname or al.name).split(".")[0])
    for n in ast.walk(a):
        if isinstance(n, ast.NamedExpr):
            tgt(n.target)
    return out


def _uses(node):
    a, k = node.ast, node.kind
    if a is None:
        return []
    if k == "loop":
        roots = [a.iter]
    elif k == "test":
        roots = [a.test]
    elif k == "with":
        roots = [i.context_expr for i in a.items]
    elif k == "except":
        roots = [a.type] if a.type else []
    else:
        roots = [a]
    out = []

    def rec(n):
        if isinstance(n, (ast.FunctionDef, ast.AsyncFunctionDef, ast.Lambda, ast.ClassDef)):
            return
        if isinstance(n, (ast.ListComp, ast.SetComp, ast.DictComp, ast.GeneratorExp)):
            rec(n.generators[0].iter)
            return
        if isinstance(n, ast.Name) and isinstance(n.ctx, (ast.Load, ast.Del)):
            out.append(n)
        if isinstance(n, ast.AugAssign) and isinstance(n.target, ast.Name):
            out.append(n.target)
        for c in ast.iter_child_nodes(n):
            rec(c)
    for r in roots:
        rec(r)
    return out


def _const_value(e):
    """('T'|'F'|'N') for a constant / literal expression, else None"""
    if isinstance(e, ast.Constant):
        return "N" if e.value is None else ("T" if e.value else "F")
    if isinstance(e, (ast.Dict, ast.List, ast.Set, ast.Tuple)):
        n = len(e.keys) if isinstance(e, ast.Dict) else len(e.elts)
        return "T" if n else "F"
    return None


def _test_truth(test, facts):
    """three-valued truth of a test under the path facts (name -> 'T'/'F'/'N', dump(expr) -> bool)"""
    if isinstance(test, ast.UnaryOp) and isinstance(test.op, ast.Not):
        v = _test_truth(test.operand, facts)
        return None if v is None else (not v)
    if isinstance(test, ast.Name) and test.id in facts:
        return facts[test.id] == "T"
    if isinstance(test, ast.Compare) and len(test.ops) == 1 and isinstance(test.left, ast.Name) and test.left.id in facts \
            and isinstance(test.comparators[0], ast.Constant) and test.comparators[0].value is None:
        isnone = facts[test.left.id] == "N"
        if isinstance(test.ops[0], (ast.Is, ast.Eq)):
            return isnone
        if isinstance(test.ops[0], (ast.IsNot, ast.NotEq)):
            return not isnone
    if isinstance(test, ast.BoolOp):
        vals = [_test_truth(v, facts) for v in test.values]
        if isinstance(test.op, ast.And):
            if any(v is False for v in vals):
                return False
            return True if all(v is True for v in vals) else None
        if any(v is True for v in vals):
            return True
        return False if all(v is False for v in vals) else None
    key = "expr:" + ast.dump(test)
    return facts.get(key)


def possibly_unbound(func_node):
    """[(name, lineno)] of reads of locals that are unbound on some path the three idioms cannot rule out"""
    f = func_node
    declared, stores = set(), set()

    def rec(n):
        for c in ast.iter_child_nodes(n):
            if isinstance(c, (ast.FunctionDef, ast.AsyncFunctionDef, ast.ClassDef)):
                stores.add(c.name)
                continue
            if isinstance(c, ast.Lambda):
                continue
            if isinstance(c, (ast.Global, ast.Nonlocal)):
                declared.update(c.names)
            if isinstance(c, (ast.ListComp, ast.SetComp, ast.DictComp, ast.GeneratorExp)):
                for x in ast.walk(c):
                    if isinstance(x, ast.NamedExpr):
                        stores.add(x.target.id)
                continue
            if isinstance(c, ast.Name) and isinstance(c.ctx, ast.Store):
                stores.add(c.id)
            if isinstance(c, ast.ExceptHandler) and c.name:
                stores.add(c.name)
            if isinstance(c, (ast.Import, ast.ImportFrom)):
                for al in c.names:
                    stores.add((al.asname or al.name).split(".")[0])
            rec(c)
    rec(f)
    params = {a.arg for a in f.args.posonlyargs + f.args.args + f.args.kwonlyargs}
    if f.args.vararg:
        params.add(f.args.vararg.arg)
    if f.args.kwarg:
        params.add(f.args.kwarg.arg)
    nested = {c.name for c in ast.walk(f) if isinstance(c, (ast.FunctionDef, ast.AsyncFunctionDef, ast.ClassDef)) and c is not f}
    track = (stores - declared) - params - nested
    if not track:
        return []

    def may_raise(n):
        for x in ast.walk(n):
            if isinstance(x, (ast.Call, ast.Subscript, ast.Attribute, ast.BinOp, ast.Await)):
                return {OTHER}
        return set()
    g = CFG(f, may_raise)
    # state: (frozenset bound, frozenset of facts items); a small set of states per node, merged when it grows
    start = (frozenset(), frozenset())
    states = {n: set() for n in g.nodes}
    states[g.entry].add(start)
    work = [(g.entry, start)]
    LIMIT = 24

    def assigned_names(a):
        return {n.id for n in ast.walk(a) if isinstance(n, ast.Name) and isinstance(n.ctx, (ast.Store, ast.Del))} if a is not None else set()

    while work:
        nid, st = work.pop()
        bound, facts = st
        node = g.nodes[nid]
        fd = dict(facts)
        for m, label in g.succ[nid]:
            nb, nf = set(bound), dict(fd)
            exc = isinstance(label, tuple) and label[0] == "exc"
            if not exc:
                b = _binds(node) & track
                if node.kind == "loop" and label != "iter":
                    b = set()
                nb |= b
                if isinstance(node.ast, ast.Delete) and node.kind == "stmt":
                    nb -= {t.id for t in node.ast.targets if isinstance(t, ast.Name)}
                # facts: constant assignments to plain names; kill facts about reassigned names
                written = assigned_names(node.ast) if node.kind in ("stmt", "loop", "with", "except") else set()
                if node.kind == "loop" and label != "iter":
                    written = set()
                for w in written:
                    nf.pop(w, None)
                for k in [k for k in nf if k.startswith("expr:") and any(("id='%s'" % w) in k for w in written)]:
                    nf.pop(k, None)
                if node.kind == "stmt" and isinstance(node.ast, ast.Assign) and len(node.ast.targets) == 1 and isinstance(node.ast.targets[0], ast.Name):
                    cv = _const_value(node.ast.value)
                    if cv is not None:
                        nf[node.ast.targets[0].id] = cv
                if node.kind == "test" and isinstance(label, tuple) and label[0] in ("T", "F"):
                    want = label[0] == "T"
                    tv = _test_truth(node.ast.test, fd)
                    if tv is not None and tv != want:
                        continue        # infeasible under the path facts
                    t = node.ast.test
                    pure = not any(isinstance(x, (ast.Call, ast.Await, ast.NamedExpr)) and not (isinstance(x, ast.Call) and isinstance(x.func, ast.Name) and x.func.id in ("len", "isinstance"))
                                   for x in ast.walk(t))
                    if pure:
                        nf["expr:" + ast.dump(t)] = want
                    if isinstance(t, ast.Name):
                        if want:
                            nf[t.id] = "T"
                        elif nf.get(t.id) == "T":
                            nf.pop(t.id, None)
                    if isinstance(t, ast.UnaryOp) and isinstance(t.op, ast.Not) and isinstance(t.operand, ast.Name) and not want:
                        nf[t.operand.id] = "T"
            ns = (frozenset(nb), frozenset(nf.items()))
            cur = states[m]
            if ns in cur:
                continue
            if len(cur) >= LIMIT:
                # merge everything into one conservative state
                mb = frozenset.intersection(*[s[0] for s in cur | {ns}])
                mf = frozenset.intersection(*[s[1] for s in cur | {ns}])
                ns = (mb, mf)
                if ns in cur:
                    continue
                cur.clear()
            cur.add(ns)
            work.append((m, ns))
    out = []
    for nid, node in g.nodes.items():
        if not states[nid]:
            continue
        for u in _uses(node):
            if u.id in track and any(u.id not in st[0] for st in states[nid]):
                out.append((u.id, getattr(u, "lineno", 0)))
    return sorted(set(out))


def definite_assignment(chk, ctx, modnames, rule):
    n = 0
    for mn in modnames:
        if mn in SKIP_MODULES:
            continue
        m = ctx.mod(mn)
        for q, fn in sorted(m.funcs.items()):
            n += 1
            try:
                bad = possibly_unbound(fn.node)
            except RecursionError:
                bad = []
            names = sorted({b[0] for b in bad})
            new = [nm for nm in names if (mn, q, nm) not in REVIEWED]
            for nm in new:
                line = [l for x, l in bad if x == nm][0]
                chk.ob(rule, "%s.%s: `%s` is bound on every path to its uses" % (mn, q, nm), False, "", key="%s | `%s` may be read before it is bound" % (q, nm), where="%s:%d" % (m.rel, line),
                       message="on some path through %s the local `%s` is read although no statement has bound it: UnboundLocalError, i.e. an arbitrary exception instead of the outcome the "
                               "property demands at that point" % (q, nm))
            if not new:
                chk.ob(rule, "%s.%s: every local is bound before it is read (%d reviewed exceptions)" % (mn, q, len(names) - len(new)), True, "", nontrivial=bool(fn.node.body))
    chk.floor(rule, n, 1, "functions analysed")
    return n
