"""C10 - the state-machine and execution API behaves like a simple keyed store (structural clauses)."""
import ast

from ..core import AnalysisError, dotted, callname, last, const, short, norm, symtable_unbound_globals, strip_await, prefix_dispatch_sites
from ..kinds import KindAnalysis, summarise_valid, ALL, DICT
from ..util import body_nodes, name_defs, enclosing_ifs, enclosing_stmt, dict_keys
from .c18 import kind_truth

EXPLANATION = (
    "Static analysis of the current /repo source (both REST front ends). Decides: (R1) no handler can answer InternalError: for every value "
    "taken from the request every JSON kind is propagated (kind lattice with truthiness / valid_* / isinstance narrowing and early returns) "
    "to every kind-sensitive sink (len, `in {set}`, .get, json.loads, bytes, subscript store) and each sink must be safe for all kinds "
    "reaching it or sit in a handler that converts the exception to a typed 4xx; no name used by a handler is unbound (symtable); (R2) a "
    "request answered with an error leaves every stored record as it was: on no path is an error returned after a store write or after a "
    "mutation through an alias of a stored record (clean/dirty typestate); (R3) the two front ends agree, action by action, on the ordered "
    "error codes and store effects up to the declared asyncio-only blocks, and their four validators are identical; (R4) a miss on the "
    "state-machine store answers StateMachineDoesNotExist, a miss on executions/history ExecutionDoesNotExist, a hit on create "
    "StateMachineAlreadyExists, bad ARNs InvalidArn, bad names InvalidName; (R5) Update assigns only roleArn/definition/loggingConfiguration/"
    "updateDate, each optional field only under a guard that is false for the value `params.get` yields when the field is absent, updateDate "
    "always; Create sets updateDate = creationDate and stores the parsed definition; Delete removes the key; the list actions are "
    "comprehensions over store.items() with exactly the documented filter. Not decided: equality with a reference model over call sequences."
    ' (R9) a definition is stored only if its parsed value is non-empty: between json.loads and the place where the parsed definition is put into the stored record there is a refusing truthiness test (Create has one, Update does not: D77, one key per front end).')
RULE_TEXT = "obligation = one handler x sink, one handler x path class, one shared action, one lookup; non-trivial = distinct (rule, site)"

FRONTS = ("rest_api", "rest_api_asyncio")
ASYNC_ONLY_CODES = {"InvalidLoggingConfiguration"}


def handlers(m):
    return {f.name[len("aws_api_"):]: f for q, f in m.funcs.items() if f.name.startswith("aws_api_")}


def _valid(m):
    return {f.name: summarise_valid(f.node) for q, f in m.funcs.items() if f.name.startswith("valid_") and f.parent is None}


def r1(chk, ctx):
    total_sinks = 0
    for mn in FRONTS:
        m = ctx.mod(mn)
        valid = _valid(m)
        chk.sample({"rule": "C10.R1", "module": mn, "predicate_summaries": {k: sorted(v) for k, v in valid.items()}})
        hs = handlers(m)
        chk.floor("C10.R1", len(hs), 11 if mn == "rest_api" else 13, "aws_api_ handlers in %s" % mn)
        # what `params` can be when the handlers run
        hp = [f for q, f in m.funcs.items() if f.name == "handle_post"][0]
        pk = set()
        for d in name_defs(hp, "params"):
            v = strip_await(getattr(d, "value", None))
            if isinstance(v, ast.Constant):
                pk |= {"str" if v.value else "str0"} if isinstance(v.value, str) else {"null"}
            elif isinstance(v, ast.Call) and last(callname(v)) == "loads":
                pk |= set(ALL)      # any JSON value can be sent as the body
        # a top-level `if not isinstance(params, dict): return <error>` between the parse and the dispatch narrows params to objects
        sites_ = prefix_dispatch_sites(hp.node)
        disp_line = sites_[0][0].lineno if sites_ else 10 ** 9
        last_def = max([d.lineno for d in name_defs(hp, "params")] or [0])
        for s_ in hp.node.body:
            if isinstance(s_, ast.If) and last_def < s_.lineno < disp_line and norm(s_.test) == "not isinstance(params, dict)" and not s_.orelse \
                    and s_.body and isinstance(s_.body[-1], ast.Return) and _is_error_return(s_.body[-1])[0]:
                pk &= set(DICT)
        bad = sorted(pk - DICT)
        site = [c for c in prefix_dispatch_sites(hp.node)]
        covered_by = "InternalError"
        chk.ob("C10.R1", "%s: the request body is an object when the handlers run" % mn, not bad, "params may be of kind %s" % bad,
               key="%s.handle_post | params may be a non-object (%s) when a handler calls params.get" % (mn, "bad body -> \"\"; any JSON body" if bad else ""), where=hp.where(),
               message="a body that is not a JSON object ({ , [1], 5) makes every handler raise AttributeError on params.get: the catch-all answers 500 InternalError")
        for name, f in sorted(hs.items()):
            ka = KindAnalysis(m, f, valid)
            total_sinks += ka.sinks_seen
            seen = set()
            for fd in ka.findings:
                key = "%s.%s | %s may raise %s for request value kinds %s" % (mn, f.name, fd.sink, fd.exc, sorted(fd.bad))
                if key in seen:
                    continue
                seen.add(key)
                chk.ob("C10.R1", "%s.%s: sink %s is safe for every kind" % (mn, f.name, fd.sink), False, "", key=key, where=m.line(fd.node),
                       message="an untyped request parameter reaches a kind-sensitive operation outside any handler that maps the exception to a typed error: the catch-all answers 500 InternalError")
            if not ka.findings:
                chk.ob("C10.R1", "%s.%s: every sink is safe for every kind (%d sinks)" % (mn, f.name, ka.sinks_seen), True, "")
        # R1d: unbound names
        unbound, star = symtable_unbound_globals(m)
        starred = set()
        if star:
            for n in m.tree.body:
                if isinstance(n, ast.ImportFrom) and any(a.name == "*" for a in n.names):
                    sm = ctx.repo.modules.get((n.module or "").rsplit(".", 1)[-1])
                    if sm:
                        starred |= set(sm.funcs) | set(sm.classes) | {t.id for x in sm.tree.body if isinstance(x, ast.Assign) for t in x.targets if isinstance(t, ast.Name)}
        seen = set()
        for path, nm in unbound:
            if nm in starred or (path, nm) in seen:
                continue
            seen.add((path, nm))
            chk.ob("C10.R1", "%s: name %s in %s is bound" % (mn, nm, path), False, "", key="%s.%s | name `%s` is not bound anywhere" % (mn, path.rsplit(".", 1)[-1], nm), where=m.rel,
                   message="reaching this line raises NameError: the catch-all answers 500 InternalError")
        chk.ob("C10.R1", "%s: symtable pass over %d functions" % (mn, len(m.funcs)), True, "")
    chk.floor("C10.R1", total_sinks, 40, "kind-sensitive sinks examined")
    # catch-all exists (that is what turns all of the above into InternalError rather than a crash)
    for mn in FRONTS:
        m = ctx.mod(mn)
        hp = [f for q, f in m.funcs.items() if f.name == "handle_post"][0]
        sites = prefix_dispatch_sites(hp.node)
        ok = len(sites) == 1 and isinstance(sites[0][1], ast.BinOp) and const(sites[0][1].left) == "aws_api_" and norm(sites[0][2]) == "aws_api_InvalidAction"
        chk.ob("C10.R1", "%s: action dispatch is 'aws_api_' + action with InvalidAction default" % mn, ok, "", key="%s.handle_post | action dispatch" % mn, where=hp.where(), message="")


def _is_error_return(r):
    v = r.value
    if isinstance(v, ast.Tuple) and len(v.elts) == 2 and isinstance(v.elts[1], ast.Constant) and isinstance(v.elts[1].value, int):
        code = None
        e0 = v.elts[0]
        if isinstance(e0, ast.Call) and callname(e0) == "aws_error" and e0.args:
            code = const(e0.args[0])
        elif isinstance(e0, ast.Constant):
            code = e0.value
        return v.elts[1].value >= 400, code, v.elts[1].value
    return False, None, None


STORES = ("asl_store", "executions", "execution_history")


def r2(chk, ctx):
    for mn in FRONTS:
        m = ctx.mod(mn)
        for name, f in sorted(handlers(m).items()):
            aliases = set()
            for n in body_nodes(f):
                if isinstance(n, ast.Assign) and len(n.targets) == 1 and isinstance(n.targets[0], ast.Name):
                    v = strip_await(n.value)
                    src = None
                    if isinstance(v, ast.Call) and isinstance(v.func, ast.Attribute) and v.func.attr in ("get",):
                        src = dotted(v.func.value)
                    elif isinstance(v, ast.Subscript):
                        src = dotted(v.value)
                    if src and last(src) in STORES:
                        aliases.add(n.targets[0].id)
            findings = []

            def truth(test, facts):
                if isinstance(test, ast.UnaryOp) and isinstance(test.op, ast.Not):
                    t = truth(test.operand, facts)
                    return None if t is None else not t
                if isinstance(test, ast.Name):
                    return facts.get(test.id)
                if isinstance(test, ast.BoolOp):
                    ts = [truth(v, facts) for v in test.values]
                    if isinstance(test.op, ast.And):
                        if any(t is False for t in ts):
                            return False
                        return True if all(t is True for t in ts) else None
                    if any(t is True for t in ts):
                        return True
                    return False if all(t is False for t in ts) else None
                return None

            def learn(test, want, facts):
                f2 = dict(facts)
                if isinstance(test, ast.UnaryOp) and isinstance(test.op, ast.Not):
                    return learn(test.operand, not want, facts)
                if isinstance(test, ast.Name):
                    f2[test.id] = want
                elif isinstance(test, ast.BoolOp) and ((isinstance(test.op, ast.And) and want) or (isinstance(test.op, ast.Or) and not want)):
                    for v in test.values:
                        f2 = learn(v, want, f2)
                return f2

            def frz(facts):
                return tuple(sorted(facts.items()))

            def walk(stmts, state):
                """state = (dirty, facts); returns the set of states with which control falls out of the block"""
                states = {state}
                for s in stmts:
                    if not states:
                        break
                    nxt = set()
                    for st in states:
                        nxt |= step(s, st)
                    states = nxt
                return states

            def writes(s):
                for n in ast.walk(s):
                    if isinstance(n, (ast.FunctionDef, ast.AsyncFunctionDef)):
                        continue
                    if isinstance(n, ast.Subscript) and isinstance(n.ctx, (ast.Store, ast.Del)):
                        b = n.value
                        if isinstance(b, ast.Name) and b.id in aliases:
                            return "mutation of stored record through alias `%s`" % norm(n)
                        d = dotted(b)
                        if d and last(d) in STORES:
                            return "store write `%s`" % norm(n)
                    if isinstance(n, ast.Call) and isinstance(n.func, ast.Attribute) and n.func.attr in ("update", "pop", "clear", "setdefault", "append") and isinstance(n.func.value, ast.Name) and n.func.value.id in aliases:
                        return "mutation of stored record through alias `%s`" % short(n, 40)
                return None

            def step(s, st):
                d, fz = st
                facts = dict(fz)
                if isinstance(s, (ast.FunctionDef, ast.AsyncFunctionDef, ast.ClassDef)):
                    return {st}
                if isinstance(s, ast.Return):
                    err, code, status = _is_error_return(s)
                    if err and d:
                        findings.append((s, code, d))
                    return set()
                if isinstance(s, ast.If):
                    t = truth(s.test, facts)
                    out = set()
                    if t is not False:
                        out |= walk(s.body, (d, frz(learn(s.test, True, facts))))
                    if t is not True:
                        out |= walk(s.orelse, (d, frz(learn(s.test, False, facts))))
                    return out
                if isinstance(s, ast.Try):
                    out = walk(s.body, st)
                    for h in s.handlers:
                        out |= walk(h.body, st)
                    return out
                if isinstance(s, (ast.With, ast.AsyncWith, ast.For, ast.AsyncFor, ast.While)):
                    return walk(s.body, st) | ({st} if not isinstance(s, (ast.With, ast.AsyncWith)) else set())
                w = writes(s)
                # forget facts about rebound names
                for x in ast.walk(s):
                    if isinstance(x, ast.Name) and isinstance(x.ctx, ast.Store):
                        facts.pop(x.id, None)
                return {(w or d, frz(facts))}
            walk(f.node.body, (None, ()))
            seen = set()
            for s, code, d in findings:
                key = "%s.%s | error %s returned after %s" % (mn, f.name, code, d)
                if key in seen:
                    continue
                seen.add(key)
                chk.ob("C10.R2", "%s.%s: no error return on a dirty path" % (mn, f.name), False, "", key=key, where=m.line(s),
                       message="a request that is answered with an error must leave every stored record exactly as it was")
            if not findings:
                chk.ob("C10.R2", "%s.%s: every error return is on a clean path (aliases: %s)" % (mn, f.name, sorted(aliases)), True, "")


def _codes(f):
    out = []
    for n in ast.walk(f.node):
        if isinstance(n, ast.Return):
            err, code, status = _is_error_return(n)
            if code is not None and err:
                out.append((n.lineno, code, status))
    out.sort()
    seq = []
    for _, c, s in out:
        if c in ASYNC_ONLY_CODES:
            continue
        if not seq or seq[-1] != (c, s):
            seq.append((c, s))
    return seq


def _effects(f):
    eff = []
    for n in ast.walk(f.node):
        if isinstance(n, ast.Subscript) and isinstance(n.ctx, (ast.Store, ast.Del)):
            d = dotted(n.value)
            if d and last(d) in STORES:
                eff.append(("del " if isinstance(n.ctx, ast.Del) else "set ") + norm(n))
        if isinstance(n, ast.Call) and last(callname(n)) == "publish":
            eff.append("publish(%s)" % ", ".join(sorted("%s=%s" % (k.arg, norm(k.value)) for k in n.keywords)))
    return sorted(eff)


def r3(chk, ctx):
    a, b = ctx.mod("rest_api"), ctx.mod("rest_api_asyncio")
    ha, hb = handlers(a), handlers(b)
    shared = sorted(set(ha) & set(hb))
    chk.floor("C10.R3", len(shared), 11, "actions implemented by both front ends")
    for name in shared:
        ca, cb = _codes(ha[name]), _codes(hb[name])
        chk.ob("C10.R3", "%s: ordered error codes agree" % name, ca == cb, "flask %s / quart %s" % (ca, cb), key="aws_api_%s | front ends disagree on the ordered error codes: %s vs %s" % (name, ca, cb),
               where=ha[name].where(), message="the asyncio and blocking front ends must answer alike")
        ea, eb = _effects(ha[name]), _effects(hb[name])
        chk.ob("C10.R3", "%s: store effects agree" % name, ea == eb, "flask %s / quart %s" % (ea, eb), key="aws_api_%s | front ends disagree on store/publish effects" % name, where=ha[name].where(), message="")
    for v in ("valid_name", "valid_role_arn", "valid_state_machine_arn", "valid_execution_arn"):
        fa, fb = a.func(v), b.func(v)
        chk.ob("C10.R3", "%s identical in both front ends" % v, ast.dump(fa.node) == ast.dump(fb.node), "", key="%s | front ends disagree" % v, where=fa.where(), message="")


def r4(chk, ctx):
    want = {"asl_store": "StateMachineDoesNotExist", "executions": "ExecutionDoesNotExist", "execution_history": "ExecutionDoesNotExist"}
    n = 0
    for mn in FRONTS:
        m = ctx.mod(mn)
        for name, f in sorted(handlers(m).items()):
            for d in body_nodes(f):
                if not (isinstance(d, ast.Assign) and len(d.targets) == 1 and isinstance(d.targets[0], ast.Name)):
                    continue
                v = strip_await(d.value)
                if not (isinstance(v, ast.Call) and isinstance(v.func, ast.Attribute) and v.func.attr in ("get", "get_cached_view")):
                    continue
                src = last(dotted(v.func.value) or "")
                if src not in want:
                    continue
                var = d.targets[0].id
                # the test that follows
                tests = [i for i in body_nodes(f) if isinstance(i, ast.If) and i.lineno > d.lineno and norm(i.test) in ("not " + var, var)]
                if not tests:
                    continue
                t = tests[0]
                n += 1
                rets = [r for r in t.body if isinstance(r, ast.Return)]
                code = _is_error_return(rets[0])[1] if rets else None
                if norm(t.test) == var:          # hit -> AlreadyExists (Create)
                    ok = code == "StateMachineAlreadyExists" and name == "CreateStateMachine"
                    exp = "StateMachineAlreadyExists"
                else:
                    ok = code == want[src]
                    exp = want[src]
                chk.ob("C10.R4", "%s.%s: lookup in %s answers %s" % (mn, f.name, src, exp), ok, "answers %s" % code,
                       key="%s.%s | a %s on %s answers %s instead of %s" % (mn, f.name, "hit" if norm(t.test) == var else "miss", src, code, exp), where=m.line(t),
                       message="duplicates and unknown ARNs are refused with the documented error type")
                # the key looked up is the validated ARN parameter
                ok = v.args and isinstance(v.args[0], ast.Name)
                chk.ob("C10.R4", "%s.%s: looks up the ARN it validated" % (mn, f.name), bool(ok), "", key="%s.%s | lookup key" % (mn, f.name), where=m.line(d), message="")
            # validators map to the documented codes
            for i in body_nodes(f):
                if isinstance(i, ast.If) and isinstance(i.test, ast.UnaryOp) and isinstance(i.test.operand, ast.Call) and callname(i.test.operand).startswith("valid_"):
                    rets = [r for r in i.body if isinstance(r, ast.Return)]
                    code = _is_error_return(rets[0])[1] if rets else None
                    exp = "InvalidName" if callname(i.test.operand) == "valid_name" else "InvalidArn"
                    n += 1
                    chk.ob("C10.R4", "%s.%s: `%s` answers %s" % (mn, f.name, norm(i.test), exp), code == exp, "answers %s" % code,
                           key="%s.%s | `%s` answers %s instead of %s" % (mn, f.name, norm(i.test), code, exp), where=m.line(i), message="")
    chk.floor("C10.R4", n, 40, "lookups and validator checks")


def r5(chk, ctx):
    for mn in FRONTS:
        m = ctx.mod(mn)
        hs = handlers(m)
        up = hs["UpdateStateMachine"]
        allowed = {"roleArn", "definition", "loggingConfiguration", "updateDate"}
        assigned = {}
        for n in body_nodes(up):
            if isinstance(n, ast.Assign):
                for t in n.targets:
                    if isinstance(t, ast.Subscript) and isinstance(t.value, ast.Name) and t.value.id in ("state_machine", "updates") and isinstance(t.slice, ast.Constant):
                        assigned.setdefault(t.slice.value, []).append(n)
        chk.ob("C10.R5", "%s Update assigns only %s" % (mn, sorted(allowed)), set(assigned) <= allowed, str(sorted(assigned)),
               key="%s.aws_api_UpdateStateMachine | assigns fields %s" % (mn, sorted(set(assigned) - allowed)), where=up.where(), message="updates change only the fields supplied")
        for fld, sts in sorted(assigned.items()):
            for s in sts:
                guards = [i for i, arm in enclosing_ifs(m, s, up.node) if arm == "body"]
                if fld == "updateDate":
                    chk.ob("C10.R5", "%s Update: updateDate assigned unconditionally" % mn, not guards, "", key="%s.aws_api_UpdateStateMachine | updateDate under a guard" % mn, where=m.line(s), message="every successful update advances updateDate")
                    continue
                var = {"roleArn": "role_arn", "definition": "definition", "loggingConfiguration": "logging_configuration"}[fld]
                gd = [g for g in guards if any(isinstance(x, ast.Name) and x.id == var for x in ast.walk(g.test))]
                ok = bool(gd)
                why = ""
                if ok:
                    # the guard must be false for what params.get yields when the field is absent
                    d = [x for x in name_defs(up, var) if isinstance(x, ast.Assign) and isinstance(strip_await(x.value), ast.Call) and norm(strip_await(x.value).func) == "params.get"]
                    dflt = d[0].value.args[1] if d and len(d[0].value.args) > 1 else None
                    kind = "null" if dflt is None else {"{}": "dict0", "''": "str0", "[]": "list0"}.get(norm(dflt), "?")
                    t = kind_truth(gd[0].test, var, kind)
                    ok = t is False
                    why = "guard `%s` is %s for an absent field (params.get default kind %s)" % (norm(gd[0].test), t, kind)
                chk.ob("C10.R5", "%s Update: %s assigned only when supplied" % (mn, fld), ok, why,
                       key="%s.aws_api_UpdateStateMachine | %s is assigned although the request did not supply it (%s)" % (mn, fld, why or "no guard"), where=m.line(s),
                       message="an update that omits the field must leave the stored value alone")
        ud = [s for s in body_nodes(up) if isinstance(s, ast.Assign) and isinstance(s.targets[0], ast.Name) and s.targets[0].id == "update_date"]
        ok = len(ud) == 1 and norm(ud[0].value) == "time.time()" and "updateDate" in assigned
        chk.ob("C10.R5", "%s Update: updateDate = time.time()" % mn, ok, "", key="%s.aws_api_UpdateStateMachine | updateDate value" % mn, where=up.where(), message="")
        wb = [s for s in body_nodes(up) if isinstance(s, ast.Assign) and norm(s.targets[0]) == "self.asl_store[state_machine_arn]"]
        chk.ob("C10.R5", "%s Update writes the record back under its ARN" % mn, len(wb) == 1 and norm(wb[0].value) == "state_machine", "", key="%s.aws_api_UpdateStateMachine | write-back" % mn, where=up.where(), message="")
        cr = hs["CreateStateMachine"]
        recs = [n for n in body_nodes(cr) if isinstance(n, ast.Dict) and "stateMachineArn" in dict_keys(n) and "definition" in dict_keys(n)]
        ok = len(recs) == 1
        if ok:
            kv = dict(zip(dict_keys(recs[0]), [norm(v) for v in recs[0].values]))
            ok = kv.get("updateDate") == kv.get("creationDate") == "creation_date" and kv.get("definition") == "definition" and kv.get("name") == "name" \
                and kv.get("roleArn") == "role_arn" and kv.get("stateMachineArn") == "state_machine_arn" and kv.get("type") == "type"
        chk.ob("C10.R5", "%s Create stores what it was given, updateDate = creationDate" % mn, ok, "", key="%s.aws_api_CreateStateMachine | stored record" % mn, where=cr.where(), message="a created definition is described back unchanged")
        de = hs["DeleteStateMachine"]
        dl = [s for s in body_nodes(de) if isinstance(s, ast.Delete) and norm(s.targets[0]) == "self.asl_store[state_machine_arn]"]
        chk.ob("C10.R5", "%s Delete removes the key" % mn, len(dl) == 1, "", key="%s.aws_api_DeleteStateMachine | deletion" % mn, where=de.where(), message="deletes are visible at once")
        ds = hs["DescribeStateMachine"]
        txt = [norm(s) for s in body_nodes(ds) if isinstance(s, ast.stmt)]
        ok = "resp = state_machine.copy()" in txt and "resp['definition'] = json.dumps(state_machine['definition'])" in txt
        chk.ob("C10.R5", "%s Describe returns a copy with the definition re-serialised" % mn, ok, "", key="%s.aws_api_DescribeStateMachine | response" % mn, where=ds.where(), message="describing must not alter the stored record")
        # list actions
        ls = hs["ListStateMachines"]
        comps = [n for n in body_nodes(ls) if isinstance(n, ast.ListComp)]
        ok = len(comps) == 1 and norm(comps[0].generators[0].iter) == "self.asl_store.items()" and not comps[0].generators[0].ifs
        chk.ob("C10.R5", "%s ListStateMachines enumerates exactly the store" % mn, ok, "", key="%s.aws_api_ListStateMachines | enumeration" % mn, where=ls.where(), message="lists enumerate exactly the live set")
        le = hs["ListExecutions"]
        comps = [n for n in body_nodes(le) if isinstance(n, ast.ListComp)]
        ok = len(comps) == 1 and norm(comps[0].generators[0].iter) == "self.executions.items()"
        conds = []
        if ok:
            for c in comps[0].generators[0].ifs:
                conds += [norm(v) for v in (c.values if isinstance(c, ast.BoolOp) and isinstance(c.op, ast.And) else [c])]
        want = ["v['stateMachineArn'] == state_machine_arn", "status_filter == None or v['status'] == status_filter"]
        ok = ok and sorted(conds) == sorted(want)
        chk.ob("C10.R5", "%s ListExecutions filters by the record's stateMachineArn (and statusFilter)" % mn, ok, str(conds),
               key="%s.aws_api_ListExecutions | filter %s" % (mn, conds), where=le.where(),
               message="the list must contain exactly the executions of the requested state machine: matching on key prefixes or substrings also returns executions of machines with a longer name")
        sf = [s for s in body_nodes(le) if isinstance(s, ast.If) and "status_filter" in norm(s.test) and any(norm(x) == "status_filter = None" for x in s.body)]
        ok = len(sf) == 1 and isinstance(sf[0].test, ast.BoolOp) and "not in" in norm(sf[0].test)
        chk.ob("C10.R5", "%s ListExecutions ignores an unknown statusFilter" % mn, ok, "", key="%s.aws_api_ListExecutions | statusFilter handling" % mn, where=le.where(), message="")
        de = hs["DescribeExecution"]
        g = [x for x in name_defs(de, "execution") if isinstance(x, ast.Assign)]
        ok = bool(g) and norm(strip_await(g[0].value)) == "self.executions.get(execution_arn)"
        chk.ob("C10.R5", "%s DescribeExecution reads the record from the store itself" % mn, ok, norm(g[0].value) if g else "", key="%s.aws_api_DescribeExecution | record source `%s`" % (mn, norm(g[0].value) if g else "?"), where=de.where(),
               message="execution records change while an execution runs: a cached view may be stale")


def run(chk, ctx):
    from . import round5
    round5.stored_definition_is_nonempty(chk, ctx)
    from . import generic
    generic.definite_assignment(chk, ctx, ['rest_api', 'rest_api_asyncio'], "C10.DA")   # no local is read before it is bound (UnboundLocalError = an arbitrary exception)
    r1(chk, ctx)
    r2(chk, ctx)
    r3(chk, ctx)
    r4(chk, ctx)
    r5(chk, ctx)
    from . import c09
    c09.r2(chk, ctx)      # every started STANDARD execution (re)creates its record: StartExecution/DescribeExecution/ListExecutions agree
    from . import round3
    round3.start_resets_record(chk, ctx)       # a name started again is described with the new run's input/startDate
    round3.validator_stateless(chk, ctx)       # Create/Update answers do not depend on earlier requests
    from . import round4
    round4.frontends_read_alike(chk, ctx)
    chk.assume("request values are JSON values; Flask/Quart deliver the body as bytes; jsonify succeeds for JSON-serialisable records")
    chk.assume("kind lattice folds 0 and 0.0 into int/float (treated as possibly falsy)")
