"""C12 - InputPath/OutputPath/ResultPath obey the filter laws and never corrupt data (structural clauses)."""
import ast

from ..core import AnalysisError, dotted, callname, last, const, short, norm, kwarg, is_get
from ..util import body_nodes, name_defs, enclosing_ifs, enclosing_stmt, in_try_with_handler
from .c18 import kind_truth, KINDS

try:
    import re._parser as sre_parse
    import re._constants as sre_c
except ImportError:  # pragma: no cover
    import sre_parse
    import sre_constants as sre_c

EXPLANATION = (
    "Static analysis of the current /repo source (state_engine_paths.py and the merge_result call sites). Decides: (R1) the read functions "
    "(apply_jsonpath, apply_path, get_full_jsonpath, evaluate_payload_template and everything nested in it) contain no store, deletion or "
    "mutating call through any expression that may alias a parameter (effect analysis with alias closure); (R2) '$' returns the input object, a "
    "null path returns {}, '$$' routes to the context with one '$' stripped, both read functions default to raising on a failed match and "
    "no call site turns that off except the Choice Variable probe, and the JSON kinds of the input for which a constant is returned for a "
    "DEFINITE path (kind evaluation of the guard); (R3) the result placed by ResultPath must not may-alias the raw input it is placed "
    "into (return-identity summaries of the read functions), '$' members of a template are cloned, and placement creates missing "
    "intermediate nodes as fresh objects; (R4) the reference-path tokeniser's token class vs the quoting of bracket notation (regex AST); "
    "(R5) in apply_resultpath every raise is ResultPathMatchFailure and every may-raise sink sits in a handler that converts to it. Not "
    "decided: the algebraic laws over all documents."
    ' (R7) the template expander is never applied to data (members of the data named *.$ are not evaluated); (R4) the ResultPath tokeniser is decided from the AST of its regex: the token class excludes $ . [ ] and bracket-quoted names are captured without their quotes.')
RULE_TEXT = "obligation = one function x effect kind, one guard x JSON kind, one call site; non-trivial = distinct (rule, site)"

MUTATORS = {"append", "extend", "insert", "pop", "remove", "clear", "sort", "reverse", "update", "setdefault", "popitem", "__setitem__", "__delitem__"}
FRESH_CALLS = {"clone", "dict", "list", "str", "int", "float", "bytes", "len", "json.loads", "json.dumps", "jsonpath", "re.findall", "re.search", "isinstance", "evaluate", "evaluate_intrinsic_function"}


def tainted_names(f, roots):
    """names that may alias one of the root parameters within f (flow-insensitive closure over assignments)"""
    t = set(roots)
    changed = True
    while changed:
        changed = False
        for n in body_nodes(f):
            targets = []
            value = None
            if isinstance(n, ast.Assign):
                targets, value = n.targets, n.value
            elif isinstance(n, ast.For):
                targets, value = [n.target], n.iter
            if value is None:
                continue
            if not _may_alias(value, t):
                continue
            for tg in targets:
                for x in ast.walk(tg):
                    if isinstance(x, ast.Name) and isinstance(x.ctx, ast.Store) and x.id not in t:
                        t.add(x.id)
                        changed = True
    return t


def _may_alias(expr, tainted):
    """may the value of expr share structure with a tainted object?"""
    if isinstance(expr, ast.Name):
        return expr.id in tainted
    if isinstance(expr, (ast.Subscript, ast.Attribute, ast.Starred)):
        return _may_alias(expr.value, tainted)
    if isinstance(expr, ast.IfExp):
        return _may_alias(expr.body, tainted) or _may_alias(expr.orelse, tainted)
    if isinstance(expr, ast.BoolOp):
        return any(_may_alias(v, tainted) for v in expr.values)
    if isinstance(expr, ast.Call):
        nm = callname(expr)
        if nm in FRESH_CALLS or last(nm) in ("format", "strip", "split", "rsplit", "replace", "decode", "encode", "hexdigest", "startswith", "endswith", "b64encode", "b64decode", "lower", "upper"):
            return False
        if last(nm) in ("items", "values", "keys", "get", "enumerate") or nm in ("enumerate", "reversed", "iter", "zip", "sorted"):
            base = expr.func.value if isinstance(expr.func, ast.Attribute) else None
            return (base is not None and _may_alias(base, tainted)) or any(_may_alias(a, tainted) for a in expr.args)
        if nm in ("apply_path", "apply_jsonpath"):
            return any(_may_alias(a, tainted) for a in expr.args[:2])
        return any(_may_alias(a, tainted) for a in expr.args)
    if isinstance(expr, (ast.Tuple,)):
        return any(_may_alias(e, tainted) for e in expr.elts)
    return False   # displays, constants, comprehensions, arithmetic build fresh objects


def effects_through(f, tainted):
    out = []
    for n in body_nodes(f):
        if isinstance(n, (ast.Assign, ast.AugAssign, ast.AnnAssign)):
            targets = n.targets if isinstance(n, ast.Assign) else [n.target]
            for tg in targets:
                for x in ast.walk(tg):
                    if isinstance(x, (ast.Subscript, ast.Attribute)) and isinstance(x.ctx, ast.Store) and _may_alias(x.value, tainted):
                        out.append((n, "store through `%s`" % norm(x)))
        elif isinstance(n, ast.Delete):
            for tg in n.targets:
                if isinstance(tg, (ast.Subscript, ast.Attribute)) and _may_alias(tg.value, tainted):
                    out.append((n, "delete through `%s`" % norm(tg)))
        elif isinstance(n, ast.Call) and isinstance(n.func, ast.Attribute) and n.func.attr in MUTATORS and _may_alias(n.func.value, tainted):
            out.append((n, "mutating call `%s`" % short(n, 50)))
    return out


def r1(chk, ctx, sp):
    roots = {"apply_jsonpath": {"input"}, "apply_path": {"input", "context"}, "get_full_jsonpath": {"input"}, "evaluate_payload_template": {"input", "context", "template"}}
    n = 0
    for top, rs in roots.items():
        f0 = sp.func(top)
        funcs = [f0] + [f for q, f in sp.funcs.items() if q.startswith(top + ".")]
        for f in funcs:
            n += 1
            # closure variables of the outer function are tainted in nested functions too; parameters of nested
            # functions that receive (parts of) them are tainted via their names
            rr = set(rs)
            if f is not f0:
                params = {a.arg for a in f.node.args.args}
                rr |= {p_ for p_ in params if p_ in ("template", "item", "v", "k", "args", "intrinsic")}
                rr -= {"args"}   # intrinsic argument lists are freshly built by the tokeniser
            t = tainted_names(f, rr)
            eff = effects_through(f, t)
            chk.ob("C12.R1", "%s performs no write through (an alias of) %s" % (f.qname, "/".join(sorted(rs))), not eff, "; ".join(e for _, e in eff),
                   key="%s | %s" % (f.qname, "; ".join(sorted({e for _, e in eff}))), where=f.where(eff[0][0]) if eff else f.where(),
                   message="selecting with a path / evaluating a template must never modify the document, context or template it reads")
    chk.floor("C12.R1", n, 25, "read functions analysed")
    # positive control
    probe = ast.parse("def g(input):\n    x = input['a']\n    x['b'] = 1\n    input.pop('k')\n")

    class _F:
        node = probe.body[0]
    if len(effects_through(_F, tainted_names(_F, {"input"}))) != 2:
        raise AnalysisError("C12.R1 self-test: effect detector did not fire on the embedded positive example")


def _first_stmts(f):
    return [s for s in f.node.body if not (isinstance(s, ast.Expr) and isinstance(s.value, ast.Constant))]


def r2(chk, ctx, sp):
    aj, ap = sp.func("apply_jsonpath"), sp.func("apply_path")
    for f in (aj, ap):
        a = f.node.args
        names = [x.arg for x in a.args]
        d = dict(zip(names[len(names) - len(a.defaults):], a.defaults))
        ok = const(d.get("throw_exception_on_failed_match")) is True and const(d.get("path")) == "$"
        chk.ob("C12.R2", "%s defaults: path '$', raise on failed match" % f.name, ok, "", key="%s | defaults" % f.qname, where=f.where(), message="a path that matches nothing fails the state instead of inventing a value")
    body = _first_stmts(aj)
    guards = [s for s in body if isinstance(s, ast.If) and any(isinstance(r, ast.Return) and isinstance(r.value, ast.Dict) and not r.value.keys for r in s.body)]
    chk.ob("C12.R2", "apply_jsonpath has one constant-{} guard", len(guards) == 1, "", key="apply_jsonpath | constant-returning guards: %d" % len(guards), where=aj.where(), message="")
    if guards:
        g = guards[0]
        # which kinds of `input` return {} although the path is definite (path is not None)?
        silent = []
        for k in KINDS:
            t = _truth_with(g.test, {"input": k, "path": "str"})
            if t is not False:
                silent.append(k)
        chk.ob("C12.R2", "for a definite path no constant is invented (12 input kinds evaluated)", not silent, "returns {} for input kinds %s" % silent,
               key="apply_jsonpath | returns the constant {} for a definite path when the input is %s" % silent, where=aj.where(g),
               message="a definite path into such an input matches nothing and must fail the state (States.Runtime), not yield {}")
        t = _truth_with(g.test, {"input": "dict", "path": "null"})
        chk.ob("C12.R2", "a null path selects {}", t is True, "", key="apply_jsonpath | null path", where=aj.where(g), message="")
    ident = [s for s in body if isinstance(s, ast.If) and norm(s.test) == "path == '$'" and len(s.body) == 1 and norm(s.body[0]) == "return input"]
    chk.ob("C12.R2", "'$' returns the input object itself", len(ident) == 1, "", key="apply_jsonpath | '$' arm", where=aj.where(), message="")
    if ident and guards:
        chk.ob("C12.R2", "'$' arm directly follows the null guard (no other constant before it)", body.index(ident[0]) == body.index(guards[0]) + 1, "", key="apply_jsonpath | arm order", where=aj.where(), message="")
    rz = [n for n in body_nodes(aj) if isinstance(n, ast.Raise)]
    ok = len(rz) == 1 and callname(rz[0].exc) == "PathMatchFailure" and any(norm(i.test) == "throw_exception_on_failed_match" for i, arm in enclosing_ifs(sp, rz[0], aj.node)) \
        and any(norm(i.test) == "result == False" for i, arm in enclosing_ifs(sp, rz[0], aj.node))
    chk.ob("C12.R2", "no match raises PathMatchFailure", ok, "", key="apply_jsonpath | failed-match arm", where=aj.where(), message="")
    txt = [norm(s) for s in ast.walk(ap.node) if isinstance(s, ast.stmt)]
    ok = any(t.startswith("if path.startswith('$$')") for t in txt) and "path = path[1:]" in txt and "raw_result = apply_jsonpath(context, path, throw_exception_on_failed_match)" in txt \
        and "return apply_jsonpath(input, path, throw_exception_on_failed_match)" in txt
    chk.ob("C12.R2", "'$$' paths read the context with one '$' stripped; others read the input", ok, "", key="apply_path | context routing", where=ap.where(), message="")
    ok = any(t.startswith("if not path.startswith('$')") for t in txt) and any("raise ParameterPathFailure" in t for t in txt)
    chk.ob("C12.R2", "a non-path string is refused", ok, "", key="apply_path | non-path refusal", where=ap.where(), message="")
    # call sites never turn the exception off (the Choice Variable probe passes True explicitly)
    n = 0
    for mn in ("state_engine", "state_engine_paths", "task_dispatcher"):
        m = ctx.mod(mn)
        for q, f in m.funcs.items():
            for c in body_nodes(f):
                if isinstance(c, ast.Call) and callname(c) in ("apply_path", "apply_jsonpath"):
                    n += 1
                    kw = kwarg(c, "throw_exception_on_failed_match", 3 if callname(c) == "apply_path" else 2)
                    ok = kw is None or const(kw) is True or (isinstance(kw, ast.Name) and kw.id == "throw_exception_on_failed_match")
                    chk.ob("C12.R2", "%s: %s keeps raise-on-failed-match" % (q, short(c, 50)), ok, "", key="%s | call site disables the failed-match exception" % q, where=m.line(c), message="")
    chk.floor("C12.R2", n, 20, "apply_path/apply_jsonpath call sites")


def _truth_with(test, kinds):
    """three-valued truth of a guard over several variables of given JSON kinds ('str' for a definite path)"""
    if isinstance(test, ast.BoolOp):
        rs = [_truth_with(v, kinds) for v in test.values]
        if isinstance(test.op, ast.Or):
            if any(r is True for r in rs):
                return True
            return False if all(r is False for r in rs) else None
        if any(r is False for r in rs):
            return False
        return True if all(r is True for r in rs) else None
    if isinstance(test, ast.UnaryOp) and isinstance(test.op, ast.Not):
        r = _truth_with(test.operand, kinds)
        return None if r is None else not r
    for v, k in kinds.items():
        if any(isinstance(x, ast.Name) and x.id == v for x in ast.walk(test)):
            return kind_truth(test, v, k)
    return None


def placement_by_value(sp):
    """does apply_resultpath hand a deep copy of the result to update_path?  -> (by_value, number of placement calls)"""
    arf = sp.func("apply_resultpath")
    placed = [r.value.args[2] for r in body_nodes(arf) if isinstance(r, ast.Return) and isinstance(r.value, ast.Call) and callname(r.value) == "update_path" and len(r.value.args) == 3]
    return bool(placed) and all(norm(x) in ("copy.deepcopy(result)", "deepcopy(result)") for x in placed), len(placed)


def r3(chk, ctx, sp, p, se):
    # return-identity summaries, derived from the bodies
    aj = sp.func("apply_jsonpath")
    ident_aj = any(isinstance(s, ast.Return) and norm(s.value) == "input" for s in ast.walk(aj.node))
    ept = sp.func("evaluate_payload_template")
    ident_ept = any(isinstance(s, ast.Return) and norm(s.value) == "input" for s in _first_stmts(ept)[-1:][0].body) if isinstance(_first_stmts(ept)[-1], ast.If) else False
    chk.sample({"rule": "C12.R3", "apply_jsonpath_may_return_its_input": ident_aj, "evaluate_payload_template_may_return_its_input": ident_ept})

    def may_alias_raw(f, expr, line, depth=0):
        if depth > 8:
            return False
        if isinstance(expr, ast.Call):
            nm = callname(expr)
            if nm in ("apply_path", "apply_jsonpath") and ident_aj:
                return may_alias_raw(f, expr.args[0], line, depth + 1)
            if nm == "evaluate_payload_template" and ident_ept:
                return may_alias_raw(f, expr.args[0], line, depth + 1)
            if is_get(expr) and len(expr.args) > 1:
                return may_alias_raw(f, expr.args[1], line, depth + 1)
            return False
        if isinstance(expr, ast.Subscript):
            return norm(expr) in ("event['data']",) or may_alias_raw(f, expr.value, line, depth + 1)
        if isinstance(expr, ast.Name):
            g = f
            while g is not None:
                ds = [d for d in name_defs(g, expr.id) if isinstance(d, ast.Assign)]
                if g is p.notify and expr.id == "data":
                    return True
                if ds:
                    from .c01 import _dominating_def_impl
                    dom = _dominating_def_impl(se, g, ds, line) if g is f else None
                    use = [dom] if dom is not None else [d for d in ds if g is not f or d.lineno < line]
                    return any(may_alias_raw(g, d.value, d.lineno, depth + 1) for d in use)
                if expr.id in [a.arg for a in g.node.args.args] and g is not p.notify:
                    return False   # task result / callback argument: produced outside the event
                g = g.parent
            return False
        return False

    sites = []
    for q, f in se.funcs.items():
        for c in body_nodes(f):
            if isinstance(c, ast.Call) and callname(c) == "merge_result":
                sites.append((f, c))
    chk.floor("C12.R3", len(sites), 5, "merge_result call sites")
    # does the placement store the result by value?  (return update_path(input, keys, copy.deepcopy(result)))
    arf = sp.func("apply_resultpath")
    by_value, n_placed = placement_by_value(sp)
    chk.ob("C12.R3", "apply_resultpath hands the result to update_path (%s)" % ("a deep copy" if by_value else "by reference"), n_placed == 1, "",
           key="apply_resultpath | placement call", where=arf.where(), message="")
    for f, c in sites:
        raw_is_event_data = True
        alias = (not by_value) and may_alias_raw(f, c.args[2], c.lineno)
        chk.ob("C12.R3", "%s: the placed result cannot alias the raw input" % f.qname.replace(p.notify.qname + ".", ""), not alias, "",
               key="%s | the result placed by ResultPath may be (part of) the raw input itself" % f.qname, where=f.where(c),
               message="apply_resultpath stores the result by reference into the input in place: placing the input into itself builds a cyclic object (States.Runtime: circular reference)")
    # templates clone a bare '$'
    ev = sp.funcs.get("evaluate_payload_template.evaluate")
    if ev is None:
        raise AnalysisError("anchor not found: evaluate_payload_template.evaluate")
    arms = [i for i in ast.walk(ev.node) if isinstance(i, ast.If) and norm(i.test) == "v == '$'"]
    ok = by_value or (len(arms) == 1 and [norm(s) for s in arms[0].body] == ["v = clone(input)"])
    chk.ob("C12.R3", "a bare '$' member of a template is cloned, not stored by reference" + (" (not needed: ResultPath places a copy)" if by_value else ""), ok, "",
           key="evaluate_payload_template.evaluate | a '$' member holds the input by reference", where=ev.where(),
           message="a payload that IS the input object, written back by a non-root ResultPath, makes the input contain itself")
    # placement creates fresh intermediate nodes
    up = sp.funcs.get("apply_resultpath.update_path")
    if up is None:
        raise AnalysisError("anchor not found: apply_resultpath.update_path")
    gets = [c for c in body_nodes(up) if is_get(c) and norm(c.func.value) == "target" and len(c.args) > 1]
    chk.ob("C12.R3", "update_path reads the child with a default", len(gets) == 1, "", key="%s | child lookup" % up.qname, where=up.where(), message="")
    for c in gets:
        ok = isinstance(c.args[1], ast.Dict) and not c.args[1].keys
        chk.ob("C12.R3", "missing intermediate nodes are created as fresh {} objects", ok, norm(c.args[1]),
               key="%s | default for a missing node is `%s`, not a fresh {}" % (up.qname, norm(c.args[1])), where=up.where(c),
               message="a shared default object is written into and linked into every later document: data leaks between executions and becomes cyclic")
    ar = sp.func("apply_resultpath")
    txt = [norm(s) for s in _first_stmts(ar)]
    ok = any(t.startswith("if path == None") and "return input" in t for t in txt) and any(t.startswith("if path == '$'") and "return result" in t for t in txt)
    chk.ob("C12.R3", "ResultPath null discards the result, '$' replaces the input", ok, "", key="apply_resultpath | null/'$' arms", where=ar.where(), message="")
    ok = any(t.startswith("if input == None") and "input = {}" in t for t in txt)
    chk.ob("C12.R3", "a null input is placed into a fresh {}", ok, "", key="apply_resultpath | null input", where=ar.where(), message="")


def r4(chk, ctx, sp):
    ar = sp.func("apply_resultpath")
    fa = [c for c in body_nodes(ar) if isinstance(c, ast.Call) and callname(c) == "re.findall"]
    chk.ob("C12.R4", "reference paths are tokenised by one regex", len(fa) == 1, "", key="apply_resultpath | tokeniser", where=ar.where(), message="")
    if not fa:
        return
    pat = const(fa[0].args[0])
    tree = list(sre_parse.parse(pat))

    def unwrap(seq):
        seq = list(seq)
        while len(seq) == 1 and seq[0][0] == sre_c.SUBPATTERN:
            seq = list(seq[0][1][3])
        return seq

    alts = [unwrap(a) for a in tree[0][1][1]] if len(tree) == 1 and tree[0][0] == sre_c.BRANCH else [unwrap(tree)]
    general = alts[-1]
    ok = len(general) == 1 and general[0][0] in (sre_c.MAX_REPEAT,) and general[0][1][2][0][0] == sre_c.IN
    excluded = set()
    if ok:
        items = general[0][1][2][0][1]
        neg = items and items[0][0] == sre_c.NEGATE
        excluded = {chr(a) for o, a in items if o == sre_c.LITERAL}
        ok = neg
    chk.ob("C12.R4", "token = maximal run of characters other than $ . [ ]", ok and excluded >= set("$.[]"), "excluded: %s" % sorted(excluded), key="apply_resultpath | token class", where=ar.where(), message="")

    def bracket_quoted(alt):
        """[ quote ( captured run without that quote ) quote ]  ->  the quote character, else None"""
        if len(alt) != 5 or [x[0] for x in alt] != [sre_c.LITERAL, sre_c.LITERAL, sre_c.SUBPATTERN, sre_c.LITERAL, sre_c.LITERAL]:
            return None
        if chr(alt[0][1]) != "[" or chr(alt[4][1]) != "]" or alt[1][1] != alt[3][1] or chr(alt[1][1]) not in "'\"":
            return None
        inner = list(alt[2][1][3])
        if len(inner) == 1 and inner[0][0] == sre_c.MAX_REPEAT:
            x = inner[0][1][2][0]
            if x[0] == sre_c.NOT_LITERAL and x[1] == alt[1][1]:      # [^q] is parsed as NOT_LITERAL q
                return chr(alt[1][1])
            if x[0] == sre_c.IN and x[1] and x[1][0][0] == sre_c.NEGATE and (sre_c.LITERAL, alt[1][1]) in x[1]:
                return chr(alt[1][1])
        return None

    stripped_by_regex = {bracket_quoted(a) for a in alts[:-1]} - {None}
    unquoted = any(isinstance(c, ast.Call) and isinstance(c.func, ast.Attribute) and c.func.attr in ("strip",) and c.args and "'" in str(const(c.args[0])) for q, f in sp.funcs.items() if q.startswith("apply_resultpath") for c in body_nodes(f)) or "'" in stripped_by_regex
    quotes_in_tokens = not ({"'", '"'} <= excluded)
    chk.ob("C12.R4", "bracket-notation keys are unquoted (or quotes cannot be part of a token)", (not quotes_in_tokens) or unquoted, "",
           key="apply_resultpath | quote characters of bracket notation stay in the key", where=ar.where(),
           message="$['a b'] writes the member named 'a b' WITH the apostrophes, while reading the same path addresses the member a b")


def r5(chk, ctx, sp):
    ar = sp.func("apply_resultpath")
    funcs = [ar] + [f for q, f in sp.funcs.items() if q.startswith("apply_resultpath.")]
    n = 0
    for f in funcs:
        for r in body_nodes(f):
            if isinstance(r, ast.Raise):
                n += 1
                ok = r.exc is not None and callname(r.exc) == "ResultPathMatchFailure"
                chk.ob("C12.R5", "%s raises only ResultPathMatchFailure" % f.qname, ok, short(r), key="%s | raises `%s`" % (f.qname, short(r, 40)), where=f.where(r),
                       message="an unplaceable path raises the ResultPath failure, never any other exception")
        for c in body_nodes(f):
            sink = None
            if isinstance(c, ast.Call) and isinstance(c.func, ast.Name) and c.func.id == "int":
                sink = "int(%s)" % norm(c.args[0])
                classes = ("ValueError",)
            elif isinstance(c, ast.Subscript) and isinstance(c.value, ast.Name) and c.value.id == "target" and isinstance(c.slice, ast.Name) and c.slice.id == "i":
                sink = norm(c)
                classes = ("IndexError",)
            if sink is None:
                continue
            n += 1
            ok = in_try_with_handler(sp, c, f.node, classes + ("Exception",))
            chk.ob("C12.R5", "%s: sink %s is inside a converting handler" % (f.qname, sink), ok, "", key="%s | may-raise sink %s outside a handler" % (f.qname, sink), where=f.where(c), message="")
    chk.floor("C12.R5", n, 5, "raise statements and sinks in apply_resultpath")
    up = sp.funcs["apply_resultpath.update_path"]
    for h in [h for t in ast.walk(up.node) if isinstance(t, ast.Try) for h in t.handlers]:
        names = norm(h.type) if h.type is not None else "bare"
        if "IndexError" in names:
            ok = any(isinstance(r, ast.Raise) and callname(r.exc) == "ResultPathMatchFailure" for r in ast.walk(h))
            chk.ob("C12.R5", "list-index handler converts to ResultPathMatchFailure", ok, "", key="%s | index handler" % up.qname, where=up.where(h), message="")


def r6(chk, ctx, se):
    """a null OutputPath reaches the path reader as null (and selects {}), it is not replaced by the default"""
    mr = se.func("merge_result")
    gets = [c for c in body_nodes(mr) if is_get(c) and const(c.args[0]) == "OutputPath"]
    ok = len(gets) == 1 and len(gets[0].args) == 2 and const(gets[0].args[1]) == "$"
    par = se.parent(gets[0]) if gets else None
    ok = ok and not (isinstance(par, ast.BoolOp) and isinstance(par.op, ast.Or))
    chk.ob("C12.R2", "merge_result: OutputPath defaults to '$' only when ABSENT (state.get('OutputPath', '$'))", ok, "",
           key="merge_result | an explicit null OutputPath is replaced by the default", where=mr.where(),
           message="a null path selects {}: `state.get('OutputPath') or '$'` turns an explicit null into '$' and forwards the whole document")
    gets = [c for c in body_nodes(mr) if is_get(c) and const(c.args[0]) == "ResultPath"]
    ok = len(gets) == 1 and len(gets[0].args) == 2 and const(gets[0].args[1]) == "$" and not isinstance(se.parent(gets[0]), ast.BoolOp)
    chk.ob("C12.R2", "merge_result: ResultPath defaults to '$' only when ABSENT", ok, "", key="merge_result | an explicit null ResultPath is replaced by the default", where=mr.where(), message="null means discard")


def run(chk, ctx):
    from . import generic
    generic.definite_assignment(chk, ctx, ['state_engine_paths'], "C12.DA")   # no local is read before it is bound (UnboundLocalError = an arbitrary exception)
    r6(chk, ctx, ctx.mod("state_engine"))
    sp = ctx.mod("state_engine_paths")
    p = ctx.protocol()
    se = ctx.mod("state_engine")
    r1(chk, ctx, sp)
    r2(chk, ctx, sp)
    r3(chk, ctx, sp, p, se)
    r4(chk, ctx, sp)
    r5(chk, ctx, sp)
    from . import c05
    c05.r1(chk, ctx, p, se)                  # the raw input a Catcher's ResultPath is applied to is the state's raw input, saved for the join
    from . import round5
    round5.expander_applied_to_template_only(chk, ctx, "C12.R7")   # 'never corrupt data': members of the data named *.$ are not evaluated
    chk.assume("the third-party jsonpath function does not modify its input (trusted)")
    chk.assume("JSON documents handed to the engine are trees (json.loads output)")
