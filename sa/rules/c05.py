"""C05 - Parallel and Map joins are order-independent, complete and concurrency-bounded (structural clauses)."""
import ast

from ..core import AnalysisError, dotted, callname, last, const, short, norm
from ..cfg import CFG
from ..util import body_nodes, name_defs, enclosing_ifs, enclosing_stmt, dict_literal_value, dict_keys

EXPLANATION = (
    "Static analysis of the current /repo source (the two fan-out delegates, the join, check_pending_results). Decides: (R1) results are "
    "written by index only: the Index carried in each branch record is the enumerate index over the branches / the items slice (offset by "
    "start), Length is the full length, the join's only writes to the results container are container[Index from the record] = value or a "
    "marker, nothing appends/sorts/reverses it, and the list handed to ResultSelector is that container - indexed writes to distinct slots "
    "commute, so the joined array is independent of arrival order by construction; (R2) the success continuation is dominated by the "
    "completeness test whose other arm returns, and every 'slot still pending' predicate in the engine agrees on the marker set {None, "
    "'__CAUGHT__'}; (R3) the Map delegate publishes exactly items[start:end] with end = min(start + MaxConcurrency, length), MaxConcurrency 0 "
    "meaning length, the batch start is re-read from the event's own context in every function that uses it, the re-entry event is published "
    "only when the batch [start:end) is complete and its Range starts at the previous end, and the Range writer/reader agree on 'a:b'; (R4) "
    "each fan-out entry mints a fresh uuid, re-used only on MaxConcurrency re-entry. Not decided: all interleavings; in-flight counts at the "
    "workers.")
RULE_TEXT = "obligation = one store / predicate / definition site; non-trivial = distinct (rule, site)"

MARKERS_PENDING = {None, "__CAUGHT__"}


def _delegates(p):
    par = p.deferred_targets.get(p.notify.qname + ".asl_state_Parallel_delegate")
    mp = p.deferred_targets.get(p.notify.qname + ".asl_state_Map_delegate")
    if par is None or mp is None:
        raise AnalysisError("anchor not found: fan-out delegates")
    return par, mp


def r1(chk, ctx, p, se):
    par, mp = _delegates(p)
    for f, what in ((par, "branches"), (mp, "items")):
        loops = [n for n in body_nodes(f) if isinstance(n, ast.For) and any(isinstance(c, ast.Call) and last(callname(c)) == "publish" for c in ast.walk(n))]
        chk.ob("C05.R1", "%s has one publishing loop" % f.name, len(loops) == 1, "", key="%s | publishing loops: %d" % (f.qname, len(loops)), where=f.where(), message="")
        if len(loops) != 1:
            continue
        lp = loops[0]
        it = lp.iter
        ok = isinstance(it, ast.Call) and callname(it) == "enumerate" and isinstance(lp.target, ast.Tuple) and len(lp.target.elts) == 2
        idxvar = norm(lp.target.elts[0]) if ok else None
        chk.ob("C05.R1", "%s enumerates the %s" % (f.name, what), ok, norm(it), key="%s | fan-out loop is not an enumerate" % f.qname, where=f.where(lp), message="")
        if not ok:
            continue
        base = it.args[0]
        if f is par:
            ok = isinstance(base, ast.Name) and not it.keywords and len(it.args) == 1
            src = [x for x in name_defs(f, base.id) if isinstance(x, ast.Assign)] if isinstance(base, ast.Name) else []
            ok = ok and len(src) == 1 and norm(src[0].value) == "state.get('Branches', [])"
            lensrc = base.id if isinstance(base, ast.Name) else None
        else:
            ok = isinstance(base, ast.Subscript) and isinstance(base.slice, ast.Slice) and norm(base.slice) == "start:end" and \
                len(it.keywords) == 1 and it.keywords[0].arg == "start" and norm(it.keywords[0].value) == "start"
            lensrc = norm(base.value) if isinstance(base, ast.Subscript) else None
        chk.ob("C05.R1", "%s: index runs over %s" % (f.name, "Branches in order" if f is par else "items[start:end], numbered from start"), ok, norm(it),
               key="%s | fan-out iteration `%s`" % (f.qname, norm(it)), where=f.where(lp), message="position i of the result must be branch/item i")
        recs = [n for n in ast.walk(lp) if isinstance(n, ast.Dict) and dict_literal_value(n, "Index") is not None and dict_literal_value(n, "Length") is not None]
        ok = len(recs) == 1 and norm(dict_literal_value(recs[0], "Index")) == idxvar and norm(dict_literal_value(recs[0], "Length")) == "length"
        chk.ob("C05.R1", "%s: branch record carries Index = loop index, Length = length" % f.name, ok, "", key="%s | branch record Index/Length" % f.qname, where=f.where(lp), message="")
        ld = [x for x in name_defs(f, "length") if isinstance(x, ast.Assign)]
        ok = len(ld) == 1 and norm(ld[0].value) == "len(%s)" % lensrc
        chk.ob("C05.R1", "%s: length = len(the full list)" % f.name, ok, norm(ld[0].value) if ld else "", key="%s | length definition" % f.qname, where=f.where(), message="")
        if recs:
            ok = norm(dict_literal_value(recs[0], "Input")) == "data" and norm(dict_literal_value(recs[0], "Parent")) == "current_state"
            chk.ob("C05.R1", "%s: branch record saves the raw input and the parent name" % f.name, ok, "", key="%s | branch record Input/Parent" % f.qname, where=f.where(lp),
                   message="ResultPath of the fan-out state is applied to its raw input at the join")
            st = [s for s in ast.walk(lp) if isinstance(s, ast.Assign) and norm(s.targets[0]) == "context_state['Branch'][-1]"]
            ok = len(st) == 1 and norm(st[0].value) == "branch_info"
            chk.ob("C05.R1", "%s: the record is stored at the top of the Branch stack of the published event" % f.name, ok, "", key="%s | Branch stack top" % f.qname, where=f.where(lp), message="")
    # the join
    j = p.join
    rdefs = [x for x in name_defs(j, "result") if isinstance(x, ast.Assign)]
    ok = len(rdefs) >= 1 and norm(rdefs[0].value) == "branch_results['results']"
    chk.ob("C05.R1", "join: `result` is the fan-out's results container", ok, "", key="%s | results container" % j.qname, where=j.where(), message="")
    idx = [x for x in name_defs(j, "index") if isinstance(x, ast.Assign)]
    ok = len(idx) == 1 and norm(idx[0].value) == "branch_info['Index']"
    bi = [x for x in name_defs(j, "branch_info") if isinstance(x, ast.Assign)]
    ok = ok and len(bi) == 1 and norm(bi[0].value) == "context_state['Branch'][-1]"
    chk.ob("C05.R1", "join: index = Index of the event's own branch record", ok, "", key="%s | index source" % j.qname, where=j.where(), message="")
    stores = []
    muts = []
    container_names = {"result"}
    for n in body_nodes(j):
        if isinstance(n, ast.Assign):
            for t in n.targets:
                if isinstance(t, ast.Subscript) and isinstance(t.value, ast.Name) and t.value.id in container_names and n.lineno < (rdefs[1].lineno if len(rdefs) > 1 else 10 ** 9):
                    stores.append((n, t))
        if isinstance(n, ast.Call) and isinstance(n.func, ast.Attribute) and isinstance(n.func.value, ast.Name) and n.func.value.id in container_names and \
                n.func.attr in ("append", "insert", "extend", "sort", "reverse", "pop", "remove", "clear"):
            muts.append(n)
    chk.ob("C05.R1", "join never appends/sorts/reverses the results container", not muts, [short(m) for m in muts], key="%s | reordering mutation of the results container" % j.qname,
           where=j.where(muts[0]) if muts else j.where(), message="arrival order would leak into the result")
    chk.floor("C05.R1", len(stores), 1, "stores into the results container in the join")
    for n, t in stores:
        ok = norm(t.slice) == "index" and norm(n.value) == "data"
        chk.ob("C05.R1", "join store `%s`" % short(n, 40), ok, "", key="%s | results store `%s`" % (j.qname, norm(n)), where=j.where(n),
               message="the only write is result[Index of this branch] = this branch's output")
    rs = [c for c in body_nodes(j) if isinstance(c, ast.Call) and callname(c) == "evaluate_payload_template" and c.args and norm(c.args[0]) == "result"]
    ok = len(rs) == 1 and "ResultSelector" in norm(rs[0])
    chk.ob("C05.R1", "the list handed to ResultSelector is the results container", ok, "", key="%s | ResultSelector input" % j.qname, where=j.where(), message="")
    # the joined result is re-bound from that evaluation before merge
    mr = [c for c in body_nodes(j) if isinstance(c, ast.Call) and callname(c) == "merge_result"]
    ok = len(mr) == 1 and [norm(a) for a in mr[0].args] == ["data", "context", "result", "state"]
    dd = [x for x in name_defs(j, "data") if isinstance(x, ast.Assign)]
    ok = ok and any(norm(x.value) == "branch_info['Input']" for x in dd)
    chk.ob("C05.R1", "join merges the result into the fan-out state's saved raw input", ok, "", key="%s | merge arguments" % j.qname, where=j.where(), message="")


def pending_predicates(ctx, p, se):
    """every test that compares a results slot / container against None: (func, node, marker set)"""
    out = []
    funcs = [p.join, se.func("StateEngine.check_pending_results")]
    for f in funcs:
        seen = set()
        for n in body_nodes(f):
            if not isinstance(n, (ast.BoolOp, ast.Compare, ast.Call, ast.UnaryOp)):
                continue
            if id(n) in seen:
                continue
            ms = _markers(n)
            if ms is None:
                continue
            if f is p.join and not any(isinstance(c, ast.Compare) and isinstance(c.ops[0], ast.In) for c in ast.walk(n)):
                continue   # per-slot tests in the join choose history events (Aborted only for never-finished slots), not pending-ness
            # take the outermost BoolOp/Call that contains this compare
            par = se.parent(n)
            if isinstance(par, (ast.BoolOp, ast.UnaryOp)) and _markers(par) is not None:
                continue
            if isinstance(par, ast.GeneratorExp) or isinstance(par, ast.comprehension):
                continue
            for x in ast.walk(n):
                seen.add(id(x))
            out.append((f, n, ms))
    return out


def _markers(n):
    """marker constants a predicate tests a results slot/container against; None if it does not involve the None marker"""
    ms = set()
    hit = False
    for c in ast.walk(n):
        if isinstance(c, ast.Compare) and len(c.ops) == 1:
            l, r, op = c.left, c.comparators[0], c.ops[0]
            for a, b in ((l, r), (r, l)):
                if isinstance(a, ast.Constant) and (a.value is None or (isinstance(a.value, str) and a.value.startswith("__"))):
                    side = norm(b)
                    if any(k in side for k in ("result", "partial")):
                        if isinstance(op, (ast.In, ast.Eq, ast.Is, ast.NotEq, ast.IsNot, ast.NotIn)):
                            ms.add(a.value)
                            if a.value is None:
                                hit = True
    return ms if hit else None


def r2(chk, ctx, p, se):
    j = p.join
    g = p.eng.cfg(j)
    tests = [n for n in body_nodes(j) if isinstance(n, ast.If) and p._is_completeness_test(n.test)]
    outer = [t for t in tests if not any(t is not u and any(t is x for x in ast.walk(u)) for u in tests)]
    chk.ob("C05.R2", "join has one outer completeness test", len(outer) == 1, "", key="%s | completeness tests: %d" % (j.qname, len(outer)), where=j.where(), message="")
    if len(outer) == 1:
        ct = outer[0]
        ok = isinstance(ct.body[-1], ast.Return) and not ct.orelse
        chk.ob("C05.R2", "the pending arm of the completeness test returns", ok, "", key="%s | pending arm does not return" % j.qname, where=j.where(ct),
               message="the state after the join must start only after every branch/iteration has finished")
        cn = g.node_of(ct)
        succ = []
        for c in body_nodes(j):
            if isinstance(c, ast.Call) and (callname(c) in ("merge_result", "handle_terminal_state") or last(callname(c)) == "change_state"):
                succ.append(c)
        for c in succ:
            chk.ob("C05.R2", "%s dominated by the completeness test" % short(c, 40), g.dominates(cn, g.containing_stmt_node(c, se)), "",
                   key="%s | `%s` not dominated by the completeness test" % (j.qname, short(c, 40)), where=j.where(c), message="")
        chk.floor("C05.R2", len(succ), 3, "success continuations of the join")
        t = norm(ct.test)
        chk.ob("C05.R2", "pending only while no error was reported", t.startswith("not error and"), t, key="%s | completeness test shape `%s`" % (j.qname, t), where=j.where(ct), message="a failing branch fails the fan-out at once")
    preds = pending_predicates(ctx, p, se)
    chk.floor("C05.R2", len(preds), 3, "pending-slot predicates")
    for f, n, ms in preds:
        chk.ob("C05.R2", "%s: `%s` treats both None and '__CAUGHT__' as pending" % (f.name, short(n, 60)), ms == MARKERS_PENDING, str(sorted(map(str, ms))),
               key="%s | pending predicate `%s` tests markers %s" % (f.qname, norm(n), sorted(map(str, ms))), where=f.where(n),
               message="an iteration whose error was caught is still running its fallback: counting it as finished launches the next batch early / tidies the join state early")
    # the markers are the ones that are written
    written = set()
    for q, f in se.funcs.items():
        for n in body_nodes(f):
            if isinstance(n, ast.Assign) and isinstance(n.value, ast.Constant) and isinstance(n.value.value, str) and n.value.value.startswith("__") and any(isinstance(t, ast.Subscript) for t in n.targets):
                written.add(n.value.value)
    chk.ob("C05.R2", "markers written into results containers", written == {"__CAUGHT__", "__TERMINATED__"}, str(sorted(written)), key="marker strings written: %s" % sorted(written), where=se.rel, message="")


def r3(chk, ctx, p, se):
    par, mp = _delegates(p)
    j = p.join
    mc = [norm(x.value) for x in name_defs(mp, "max_concurrency") if isinstance(x, ast.Assign)]
    ok = mc == ["state.get('MaxConcurrency', 0)", "length"]
    chk.ob("C05.R3", "Map: MaxConcurrency from the state (default 0), 0 meaning length", ok, str(mc), key="%s | max_concurrency definitions %s" % (mp.qname, mc), where=mp.where(), message="")
    z = [n for n in body_nodes(mp) if isinstance(n, ast.If) and norm(n.test) == "max_concurrency == 0"]
    chk.ob("C05.R3", "Map: the 0 -> length substitution is guarded by == 0", len(z) == 1, "", key="%s | zero substitution guard" % mp.qname, where=mp.where(), message="")
    ed = [norm(x.value) for x in name_defs(mp, "end") if isinstance(x, ast.Assign)]
    chk.ob("C05.R3", "Map: end = min(start + max_concurrency, length)", ed == ["min(start + max_concurrency, length)"], str(ed), key="%s | end definition %s" % (mp.qname, ed), where=mp.where(),
           message="never more than MaxConcurrency iterations are launched per batch")
    # start is re-read from the context in every function that uses it
    users = [mp, j, p.handlers.get("Map")]
    for f in users:
        if f is None:
            continue
        uses = [n for n in body_nodes(f) if isinstance(n, ast.Name) and isinstance(n.ctx, ast.Load) and n.id == "start"]
        calls = [c for c in body_nodes(f) if isinstance(c, ast.Call) and callname(c) == "get_start_index"]
        if f is p.handlers.get("Map"):
            ok = len(calls) >= 1 and all(norm(c.args[0]) == "context" for c in calls)
        else:
            sd = [x for x in name_defs(f, "start") if isinstance(x, ast.Assign)]
            # the join reads the Range of its own iteration record (entering=False); a Map being entered reads only a re-entry record
            want = "get_start_index(context, entering=False)" if f is j else "get_start_index(context)"
            ok = len(sd) == 1 and norm(sd[0].value) == want
        chk.ob("C05.R3", "%s reads the batch start from the event's context itself" % f.name, ok, "",
               key="%s | batch start is not re-read by get_start_index(context) in this function" % f.qname, where=f.where(),
               message="the join recurses into the enclosing fan-out after popping the Branch stack within one notify call: a start index captured earlier belongs to the nested state")
    # also the StateEntered suppression in notify
    re_ = [x for x in name_defs(p.notify, "reentered_map") if isinstance(x, ast.Assign)]
    ok = len(re_) == 1 and norm(re_[0].value) == "state_type == 'Map' and get_start_index(context) != 0"
    chk.ob("C05.R3", "notify: re-entry recognised by get_start_index(context) != 0", ok, "", key="%s | reentered_map definition" % p.notify.qname, where=p.notify.where(), message="")
    gs = p.notify.children.get("get_start_index")
    if gs is None:
        raise AnalysisError("anchor not found: get_start_index")
    txt = [norm(s) for s in ast.walk(gs.node) if isinstance(s, ast.stmt)]
    ok = "iterator_range = branch_info.get('Range', '0:0')" in txt and "branch_info = context_state['Branch'][-1]" in txt and "start = int(iterator_range.split(':')[0])" in txt and "start = 0" in txt
    chk.ob("C05.R3", "Range reader: int(range.split(':')[0]) of the top Branch record, default 0", ok, "", key="%s | Range reader" % gs.qname, where=gs.where(), message="")
    # on entry only the record left by the Map's own previous block (ID + Range, no Index) is honoured
    prm = [a.arg for a in gs.node.args.args]
    dfl = [norm(d) for d in gs.node.args.defaults]
    guards = [i for i in ast.walk(gs.node) if isinstance(i, ast.If) and norm(i.test) == "entering and 'Index' in branch_info" and [norm(x) for x in i.body] == ["return 0"]]
    ok = prm == ["context", "entering"] and dfl == ["True"] and len(guards) == 1
    chk.ob("C05.R3", "Range reader: on entry a record with an Index (an enclosing fan-out's branch record) is not a start index", ok, "",
           key="%s | on entering a Map the Range of an enclosing branch record is taken for the Map's own start index" % gs.qname, where=gs.where(),
           message="a Map nested in an iteration of an outer Map with MaxConcurrency would start at the outer block's start index: its first items are never launched and the execution hangs")
    rec = [n for n in body_nodes(j) if isinstance(n, ast.Dict) and dict_literal_value(n, "Range") is not None]
    ok = len(rec) == 1 and sorted(dict_keys(rec[0])) == ["ID", "Range"]
    chk.ob("C05.R3", "the re-entry record has no Index (that is what distinguishes it from a branch record)", ok, "", key="%s | re-entry record keys" % j.qname, where=j.where(), message="")
    # writers
    lp = [n for n in body_nodes(mp) if isinstance(n, ast.For)]
    recs = [n for l in lp for n in ast.walk(l) if isinstance(n, ast.Dict) and dict_literal_value(n, "Range") is not None]
    ok = len(recs) == 1 and norm(dict_literal_value(recs[0], "Range")) == "str(start) + ':' + str(end)"
    chk.ob("C05.R3", "Range writer (fan-out): str(start) + ':' + str(end)", ok, "", key="%s | Range writer" % mp.qname, where=mp.where(), message="")
    recs = [n for n in body_nodes(j) if isinstance(n, ast.Dict) and dict_literal_value(n, "Range") is not None]
    ok = len(recs) == 1 and norm(dict_literal_value(recs[0], "Range")) == "str(end) + ':' + str(min(end + max_concurrency, len(result)))" and norm(dict_literal_value(recs[0], "ID")) == "current_id"
    chk.ob("C05.R3", "Range writer (re-entry): next batch starts at the previous end", ok, "", key="%s | re-entry Range" % j.qname, where=j.where(), message="each item is processed exactly once")
    if recs:
        pub = [c for c in body_nodes(j) if isinstance(c, ast.Call) and last(callname(c)) == "publish"]
        ok = len(pub) == 1
        if ok:
            gi = [norm(i.test) for i, arm in enclosing_ifs(se, pub[0], j.node) if arm == "body"]
            ok = any("not (None in partial or '__CAUGHT__' in partial)" == t for t in gi) and "max_concurrency" in gi
            pd = [norm(x.value) for x in name_defs(j, "partial") if isinstance(x, ast.Assign)]
            ok = ok and pd == ["result[start:end]"]
        chk.ob("C05.R3", "re-entry event published only when the batch result[start:end] is complete", ok, "", key="%s | re-entry guard" % j.qname, where=j.where(),
               message="the next batch must not start while an iteration of this one is still running")
        ed = [norm(x.value) for x in name_defs(j, "end") if isinstance(x, ast.Assign)]
        ok = ed == ["min(start + max_concurrency, len(result))", "len(result)"]
        chk.ob("C05.R3", "join: end = min(start + max_concurrency, len(result)) (or len(result) when unbounded)", ok, str(ed), key="%s | end definitions %s" % (j.qname, ed), where=j.where(), message="")
        re_in = [s for s in body_nodes(j) if isinstance(s, ast.Assign) and norm(s.targets[0]) == "event['data']" and norm(s.value) == "branch_info['Input']"]
        chk.ob("C05.R3", "re-entry event carries the Map state's saved raw input", len(re_in) == 1, "", key="%s | re-entry data" % j.qname, where=j.where(), message="")


def r4(chk, ctx, p, se):
    par, mp = _delegates(p)
    d = [norm(x.value) for x in name_defs(par, "parallel_state_id") if isinstance(x, ast.Assign)]
    chk.ob("C05.R4", "Parallel: fresh uuid per entry", d == ["str(uuid.uuid4())"], str(d), key="%s | fan-out id" % par.qname, where=par.where(), message="retries and nesting must not mix results")
    ds = [x for x in name_defs(mp, "map_state_id") if isinstance(x, ast.Assign)]
    vals = [norm(x.value) for x in ds]
    ok = "str(uuid.uuid4())" in vals and "context_state['Branch'][-1].get('ID', 0)" in vals
    chk.ob("C05.R4", "Map: fresh uuid on entry, previous ID on re-entry", ok, str(vals), key="%s | fan-out id definitions %s" % (mp.qname, vals), where=mp.where(), message="")
    for x in ds:
        if norm(x.value) == "str(uuid.uuid4())":
            gi = [(norm(i.test), arm) for i, arm in enclosing_ifs(se, x, mp.node)]
            ok = ("start == 0", "body") in gi
            chk.ob("C05.R4", "Map: the fresh uuid is minted only when start == 0", ok, str(gi), key="%s | uuid minted outside start == 0" % mp.qname, where=mp.where(x), message="")
    for f, v in ((par, "parallel_state_id"), (mp, "map_state_id")):
        recs = [n for n in body_nodes(f) if isinstance(n, ast.Dict) and dict_literal_value(n, "Index") is not None and dict_literal_value(n, "Length") is not None]
        ok = len(recs) == 1 and norm(dict_literal_value(recs[0], "ID")) == v
        chk.ob("C05.R4", "%s: branch records carry the fan-out id" % f.name, ok, "", key="%s | branch record ID" % f.qname, where=f.where(), message="")


def _name_conjuncts(test):
    out = set()
    if isinstance(test, ast.Name):
        out.add(test.id)
    elif isinstance(test, ast.BoolOp) and isinstance(test.op, ast.And):
        for v in test.values:
            out |= _name_conjuncts(v)
    return out


def r5(chk, ctx, p, se):
    """an empty Branch list is created only where an entry is pushed under the same non-emptiness condition"""
    par, mp = _delegates(p)
    n = 0
    for f in (par, mp):
        creates = [s for s in body_nodes(f) if isinstance(s, ast.Assign) and norm(s.targets[0]) == "context_state['Branch']" and isinstance(s.value, ast.List) and not s.value.elts]
        pushes = [c for c in body_nodes(f) if isinstance(c, ast.Call) and norm(c.func) == "context_state['Branch'].append"]
        chk.ob("C05.R5", "%s creates the Branch stack and pushes its entry" % f.name, len(creates) == 1 and len(pushes) == 1, "", key="%s | Branch stack creation/push sites" % f.qname, where=f.where(), message="")
        if len(creates) != 1 or len(pushes) != 1:
            continue
        n += 1
        gc, ga = set(), set()
        for i, arm in enclosing_ifs(se, creates[0], f.node):
            if arm == "body":
                gc |= _name_conjuncts(i.test)
        for i, arm in enclosing_ifs(se, pushes[0], f.node):
            if arm == "body":
                ga |= _name_conjuncts(i.test)
        ok = ga <= gc
        chk.ob("C05.R5", "%s: the empty Branch list is created only under the condition(s) %s that also guard the push" % (f.name, sorted(ga) or "none"), ok, "creation under %s" % sorted(gc),
               key="%s | an empty Branch stack can be left in the context (created under %s, entry pushed under %s)" % (f.qname, sorted(gc), sorted(ga)), where=f.where(creates[0]),
               message="the terminal path reads Branch[-1]: an empty list raises IndexError in the handler and again in its error arm, so no terminal notification is ever sent (e.g. a top-level Map over an empty array)")
    chk.floor("C05.R5", n, 2, "fan-out delegates with a Branch stack")


def run(chk, ctx):
    p = ctx.protocol()
    se = ctx.mod("state_engine")
    r5(chk, ctx, p, se)
    r1(chk, ctx, p, se)
    r2(chk, ctx, p, se)
    r3(chk, ctx, p, se)
    r4(chk, ctx, p, se)
    from . import round3
    from . import c04
    c04.r3(chk, ctx)                                         # correlation keys are unique per event: results land in the join of the iteration that asked
    round3.terminated_range(chk, ctx)
    round3.tidy_up_callers(chk, ctx)
    round3.pending_marker_not_data(chk, ctx)
    round3.sentinel_guard(chk, ctx)
    from . import round4, c06
    round4.fresh_iteration_input(chk, ctx)
    round4.gate_index_default(chk, ctx)              # a dropped Map re-entry event must not mark slot 0 / a batch that was never launched
    round4.teardown_scoped_to_terminated_groups(chk, ctx)   # retrying a nested fan-out leaves the enclosing join intact
    c06.r2(chk, ctx)                         # only replies of a terminated branch itself become Task.Terminated: healthy sibling joins complete
    chk.assume("one terminal event per branch reaches the join (C02/C03 clauses); indexed writes to distinct slots commute")
