"""C15 - child executions and task-token callbacks complete exactly their launching task (structural clauses)."""
import ast

from ..core import AnalysisError, dotted, callname, last, const, short, norm, kwarg
from ..cfg import CFG
from ..util import body_nodes, name_defs, enclosing_ifs, enclosing_stmt, dict_keys, dict_literal_value
from . import c03, c02

EXPLANATION = (
    "Static analysis of the current /repo source. Decides: (R1) the resource forms routed by the service dispatcher and the forms the "
    "child-launch function distinguishes are the same table, only plain startExecution is asynchronous, and only the asynchronous launch goes "
    "to the shared queue; (R2) the child-start publish is dominated by the three refusals (.sync from EXPRESS, unknown machine, "
    "startSyncExecution of a non-EXPRESS child), each of which reports the error to the task and returns; (R3) for the synchronous forms the "
    "pending key is the minted child ARN, which is the child context's Execution.Id, which is what end_execution hands to "
    "handle_sfn_response; (R4) the task-token codec agrees end to end (writer '<correlation id>:<reply queue>' + base64 at the path "
    "reader; decoder base64 -> split(':') of arity 2 -> suffix test), the suffix literal is spelled identically at all sites, and the REST "
    "front end sets exactly the header names the dispatcher tests; (R5) every completion path removes the pending entry before invoking the "
    "callback (at most once); (R6) the result-field renaming maps the record's camelCase keys to the documented PascalCase names (constant "
    "evaluation over the record's key set), and the :2 form replaces Output by the JSON value whenever the field is present; (R7) "
    "cancelling a synchronous child-launch task cancels every task/wait of the child, whether or not the pending request is still there; "
    "(R8) whether the 200 answer of SendTask* depends on a registry of outstanding tokens. Not decided: two-execution interleavings."
    ' (C08.R8) every removal of a pending request disarms its timer, so that a retried child execution registered under the same correlation id is not timed out by the cancelled attempt.')
RULE_TEXT = "obligation = one table entry / dominated site / codec fact / record key; non-trivial = distinct (rule, site)"

RECORD_KEYS = {"executionArn": "ExecutionArn", "input": "Input", "name": "Name", "output": "Output", "startDate": "StartDate",
               "stateMachineArn": "StateMachineArn", "status": "Status", "stopDate": "StopDate", "error": "Error", "cause": "Cause"}
SUFFIX = ".waitForTaskToken"


def _svc(ctx):
    td = ctx.mod("task_dispatcher")
    ext = td.func("TaskDispatcher.execute_task")
    st, se_ = ext.children.get("asl_service_states"), ext.children.get("asl_service_states_startExecution")
    if st is None or se_ is None:
        raise AnalysisError("anchor not found: asl_service_states / asl_service_states_startExecution")
    return td, ext, st, se_


def _resource_consts(f):
    out = set()
    for n in body_nodes(f):
        if isinstance(n, ast.Compare) and len(n.ops) == 1 and norm(n.left) == "resource" and isinstance(n.comparators[0], ast.Constant):
            out.add(n.comparators[0].value)
    return out


def r1(chk, ctx):
    td, ext, st, sx = _svc(ctx)
    routed = set()
    for n in body_nodes(st):
        if isinstance(n, ast.If):
            calls = [callname(c) for s in n.body for c in ast.walk(s) if isinstance(c, ast.Call)]
            if "asl_service_states_startExecution" in calls:
                routed |= {c.comparators[0].value for c in ast.walk(n.test) if isinstance(c, ast.Compare) and norm(c.left) == "resource" and isinstance(c.comparators[0], ast.Constant)}
    want = {"startExecution", "startExecution.sync", "startExecution.sync:2", "startExecution.waitForTaskToken", "sfn:startSyncExecution"}
    chk.ob("C15.R1", "service dispatcher routes the five child-launch forms", routed == want, str(sorted(routed)), key="%s | routed resource forms %s" % (st.qname, sorted(routed)), where=st.where(), message="")
    used = _resource_consts(sx)
    chk.ob("C15.R1", "child-launch function distinguishes only routed forms", used <= routed and used >= {"startExecution", "startExecution.sync", "startExecution.sync:2", "sfn:startSyncExecution"}, str(sorted(used)),
           key="%s | resource forms tested %s are not the routed ones %s" % (sx.qname, sorted(used), sorted(routed)), where=sx.where(), message="")
    ac = [norm(x.value) for x in name_defs(sx, "async_child") if isinstance(x, ast.Assign)]
    chk.ob("C15.R1", "async_child <=> resource == 'startExecution'", ac == ["True if resource == 'startExecution' else False"] or ac == ["resource == 'startExecution'"], str(ac),
           key="%s | async_child definition %s" % (sx.qname, ac), where=sx.where(), message="only the plain form returns at once with the child's ARN")
    pubs = [c for c in body_nodes(sx) if isinstance(c, ast.Call) and last(callname(c)) == "publish"]
    usq = kwarg(pubs[0], "use_shared_queue") if len(pubs) == 1 else None
    ok = usq is not None and norm(usq) == "async_child"
    chk.ob("C15.R1", "child start is published to the shared queue iff asynchronous", ok, "", key="%s | child start queue selection" % sx.qname, where=sx.where(),
           message="a synchronous child must run on the instance that holds the parent's pending request")
    # what happens per arm
    ifs = [n for n in body_nodes(sx) if isinstance(n, ast.If) and norm(n.test) == "not async_child"]
    ok = len(ifs) == 1 and any(isinstance(s, ast.Assign) and norm(s.targets[0]) == "self.pending_requests[correlation_id]" for s in ifs[0].body)
    chk.ob("C15.R1", "only synchronous launches register a pending request", ok, "", key="%s | pending registration arm" % sx.qname, where=sx.where(), message="")
    ifs = [n for n in body_nodes(sx) if isinstance(n, ast.If) and norm(n.test) == "async_child"]
    ok = len(ifs) == 1 and any(isinstance(c, ast.Call) and norm(c) == "callback(result)" for s in ifs[0].body for c in ast.walk(s))
    if ok:
        res = [s for s in ifs[0].body if isinstance(s, ast.Assign) and norm(s.targets[0]) == "result"]
        ok = len(res) == 1 and dict_keys(res[0].value) == ["executionArn", "startDate"] and norm(dict_literal_value(res[0].value, "executionArn")) == "child_execution_arn"
    chk.ob("C15.R1", "the asynchronous form completes at once with {executionArn, startDate}", ok, "", key="%s | async completion" % sx.qname, where=sx.where(), message="")


def r2(chk, ctx):
    td, ext, st, sx = _svc(ctx)
    g = CFG(sx.node)
    pubs = [c for c in body_nodes(sx) if isinstance(c, ast.Call) and last(callname(c)) == "publish"]
    if len(pubs) != 1:
        chk.ob("C15.R2", "one child-start publish", False, "", key="%s | publish sites %d" % (sx.qname, len(pubs)), where=sx.where(), message="")
        return
    pn = g.containing_stmt_node(pubs[0], td)
    refusals = []
    for n in body_nodes(sx):
        if isinstance(n, ast.If) and any(isinstance(s, ast.Return) for s in n.body) and any(isinstance(c, ast.Call) and callname(c) == "send_error_callback" for s in n.body for c in ast.walk(s)):
            refusals.append(n)
    tests = [norm(r.test) for r in refusals]
    want = {
        "sync from EXPRESS": lambda t: "startExecution.sync" in t and "state_machine.get('type') == 'EXPRESS'" in t,
        "StateMachineArn missing": lambda t: t == "not child_state_machine_arn",
        "startSyncExecution of a non-EXPRESS child": lambda t: "sfn:startSyncExecution" in t and "child_state_machine.get('type') != 'EXPRESS'" in t,
    }
    for what, pred in want.items():
        hit = [r for r in refusals if pred(norm(r.test))]
        ok = len(hit) == 1 and g.dominates(g.node_of(hit[0]), pn)
        chk.ob("C15.R2", "refusal '%s' dominates the child launch" % what, ok, str(tests)[:150], key="%s | refusal `%s` missing or not dominating the launch" % (sx.qname, what), where=sx.where(),
               message="invalid combinations must fail the task, not launch a child")
    # unknown machine: the else arm of `if child_state_machine:`
    cm = [n for n in body_nodes(sx) if isinstance(n, ast.If) and norm(n.test) == "child_state_machine"]
    ok = len(cm) == 1 and any(isinstance(s, ast.Return) for s in cm[0].orelse) and any(isinstance(c, ast.Call) and callname(c) == "send_error_callback" for s in cm[0].orelse for c in ast.walk(s)) \
        and g.dominates(g.node_of(cm[0]), pn)
    chk.ob("C15.R2", "refusal 'unknown machine' dominates the child launch", ok, "", key="%s | unknown-machine refusal" % sx.qname, where=sx.where(), message="")
    d = [norm(x.value) for x in name_defs(sx, "child_state_machine") if isinstance(x, ast.Assign)]
    chk.ob("C15.R2", "child machine looked up by Parameters.StateMachineArn", d == ["self.state_engine.asl_store.get_cached_view(child_state_machine_arn)"], str(d), key="%s | child lookup" % sx.qname, where=sx.where(), message="")
    sec = ext.children.get("send_error_callback")
    ok = sec is not None and any(isinstance(c, ast.Call) and norm(c) == "callback(error)" for c in body_nodes(sec))
    chk.ob("C15.R2", "send_error_callback reports the error to the task's callback", ok, "", key="%s | error callback" % ext.qname, where=ext.where(), message="")


def r3(chk, ctx):
    td, ext, st, sx = _svc(ctx)
    d = [x for x in name_defs(sx, "correlation_id") if isinstance(x, ast.Assign)]
    arms = {norm(x.value): [(norm(i.test), a) for i, a in enclosing_ifs(td, x, sx.node)] for x in d}
    ok = arms.get("child_execution_arn") == [("resource == 'startExecution.waitForTaskToken'", "orelse")] and arms.get("event_id + '.waitForTaskToken'") == [("resource == 'startExecution.waitForTaskToken'", "body")]
    chk.ob("C15.R3", "pending key: child ARN for sync forms, event id + suffix for the token form", ok, str(arms), key="%s | pending key definitions" % sx.qname, where=sx.where(), message="")
    ctxd = [n for n in body_nodes(sx) if isinstance(n, ast.Dict) and "Execution" in dict_keys(n) and "StateMachine" in dict_keys(n)]
    ok = len(ctxd) == 1
    if ok:
        ex = dict_literal_value(ctxd[0], "Execution")
        ok = norm(dict_literal_value(ex, "Id")) == "child_execution_arn" and norm(dict_literal_value(ex, "Name")) == "child_execution_name" and norm(dict_literal_value(ex, "Input")) == "parameters.get('Input', {})"
        smd = dict_literal_value(ctxd[0], "StateMachine")
        ok = ok and norm(dict_literal_value(smd, "Id")) == "child_state_machine_arn"
    chk.ob("C15.R3", "child context: Execution.Id = the minted child ARN, StateMachine.Id = the child machine", ok, "", key="%s | child context" % sx.qname, where=sx.where(), message="")
    se = ctx.mod("state_engine")
    _, writers = c02.find_end_execution(ctx)
    ee = se.func(writers[0])
    hs = [c for c in body_nodes(ee) if isinstance(c, ast.Call) and last(callname(c)) == "handle_sfn_response"]
    ok = len(hs) == 1 and norm(hs[0].args[0]) == "execution_arn" and norm(hs[0].args[2]) == "data" and norm(hs[0].args[1]) == "execution['Input']"
    ea = [norm(x.value) for x in name_defs(ee, "execution_arn") if isinstance(x, ast.Assign)]
    ok = ok and ea == ["context['Execution']['Id']"]
    chk.ob("C15.R3", "end_execution completes the launcher under the execution's own ARN", ok, "", key="%s | handle_sfn_response arguments" % ee.qname, where=ee.where(),
           message="the synchronous forms complete exactly when the child becomes terminal")
    h = td.func("TaskDispatcher.handle_sfn_response")
    rq = [norm(x.value) for x in name_defs(h, "request") if isinstance(x, ast.Assign)]
    chk.ob("C15.R3", "handle_sfn_response looks the request up under that id", rq == ["self.pending_requests.get(correlation_id)"], str(rq), key="%s | lookup" % h.qname, where=h.where(), message="")


def r4(chk, ctx):
    p = ctx.protocol()
    se = ctx.mod("state_engine")
    tdm = ctx.mod("task_dispatcher")
    tdel = p.deferred_targets[p.notify.qname + ".asl_state_Task_delegate"]
    txt = [norm(s) for s in ast.walk(tdel.node) if isinstance(s, ast.stmt)]
    ok = "correlation_id = id + '.waitForTaskToken'" in txt and "reply_to = self.task_dispatcher.reply_to.name" in txt and "raw_task_token = f'{correlation_id}:{reply_to}'" in txt \
        and "context['Task'] = {'Token': raw_task_token}" in txt
    chk.ob("C15.R4", "token writer: '<event id>.waitForTaskToken:<reply queue>' in $$.Task.Token", ok, "", key="%s | token writer" % tdel.qname, where=tdel.where(), message="")
    gd = [i for i in ast.walk(tdel.node) if isinstance(i, ast.If) and norm(i.test) == "resource_arn.endswith('.waitForTaskToken')"]
    chk.ob("C15.R4", "a token is minted only for .waitForTaskToken resources", len(gd) == 1, "", key="%s | token guard" % tdel.qname, where=tdel.where(), message="")
    sp = ctx.mod("state_engine_paths")
    ap = sp.func("apply_path")
    txt = [norm(s) for s in ast.walk(ap.node) if isinstance(s, ast.stmt)]
    ok = any(t.startswith("if path == '$.Task.Token'") for t in txt) and "input_bytes = bytes(raw_result, 'utf-8')" in txt and "return base64.b64encode(input_bytes).decode('utf-8')" in txt
    chk.ob("C15.R4", "token is made opaque (base64) where it is read", ok, "", key="apply_path | token encoding", where=ap.where(), message="")
    ra = ctx.mod("rest_api_asyncio")
    heads = {}
    for act, hdr in (("SendTaskSuccess", "x-SendTaskSuccess"), ("SendTaskFailure", "x-SendTaskFailure")):
        f = [f for q, f in ra.funcs.items() if f.name == "aws_api_" + act][0]
        txt = [norm(s) for s in ast.walk(f.node) if isinstance(s, ast.stmt)]
        ok = "task_token = base64.b64decode(input_bytes).decode('utf-8')" in txt and "split = task_token.split(':')" in txt and any(t.startswith("if len(split) != 2") for t in txt) \
            and "correlation_id = split[0]" in txt and "reply_to = split[1]" in txt and any(t.startswith("if not correlation_id.endswith('.waitForTaskToken')") for t in txt)
        chk.ob("C15.R4", "%s: decoder = base64 -> split(':') of arity 2 -> suffix test" % act, ok, "", key="%s | token decoder" % f.qname, where=f.where(), message="any other token is rejected as InvalidToken")
        msgs = [c for c in body_nodes(f) if isinstance(c, ast.Call) and callname(c) == "Message"]
        ok = len(msgs) == 1 and norm(kwarg(msgs[0], "subject")) == "reply_to" and norm(kwarg(msgs[0], "correlation_id")) == "correlation_id"
        props = kwarg(msgs[0], "properties") if msgs else None
        ok = ok and isinstance(props, ast.Dict) and dict_keys(props) == [hdr]
        heads[act] = dict_keys(props) if isinstance(props, ast.Dict) else []
        chk.ob("C15.R4", "%s: reply goes to the token's queue with the token's correlation id and header %s" % (act, hdr), ok, "", key="%s | reply message" % f.qname, where=f.where(), message="")
        # InvalidToken mapping
        tr = [t for t in ast.walk(f.node) if isinstance(t, ast.Try) and any("b64decode" in norm(s) for s in t.body)]
        ok = len(tr) == 1 and any("aws_error('InvalidToken')" in norm(s) for h in tr[0].handlers for s in h.body)
        chk.ob("C15.R4", "%s: a malformed token answers InvalidToken" % act, ok, "", key="%s | InvalidToken mapping" % f.qname, where=f.where(), message="")
    h = tdm.func("TaskDispatcher.handle_rpcmessage_response")
    tested = {c.left.value for c in body_nodes(h) if isinstance(c, ast.Compare) and isinstance(c.ops[0], ast.In) and isinstance(c.left, ast.Constant) and norm(c.comparators[0]) == "message.properties"}
    chk.ob("C15.R4", "dispatcher tests exactly the headers the API sets", tested == {"x-SendTaskSuccess", "x-SendTaskFailure"} == set(sum(heads.values(), [])) or tested == set(sum(heads.values(), [])), str(sorted(tested)),
           key="%s | callback headers tested %s vs set %s" % (h.qname, sorted(tested), sorted(sum(heads.values(), []))), where=h.where(), message="")
    # the suffix literal
    n = 0
    for mn in ("state_engine", "task_dispatcher", "rest_api_asyncio"):
        m = ctx.mod(mn)
        for c in ast.walk(m.tree):
            if isinstance(c, ast.Constant) and isinstance(c.value, str) and "waitfortasktoken" in c.value.lower() and len(c.value) < 60:
                n += 1
                ok = c.value == SUFFIX or c.value.endswith(SUFFIX) and not c.value.startswith(".") or "waitForTaskToken" in c.value
                exact = SUFFIX in c.value
                chk.ob("C15.R4", "%s: literal %r spells the suffix exactly" % (mn, c.value), exact, "", key="%s | suffix literal %r" % (mn, c.value), where=m.line(c), message="writer, dispatcher and API must agree on the suffix")
    chk.floor("C15.R4", n, 8, "occurrences of the token suffix literal")
    txt = [norm(s) for s in ast.walk(h.node) if isinstance(s, ast.stmt)]
    # since fix a4cb665 the guard tests truthiness (`not error_type`), like every other test of errorType on the path: "" and 0 are no error
    GUARDS = ("request_has_waitForTaskToken and (not error_type)", "request_has_waitForTaskToken and not error_type")
    ok = any(t.startswith(tuple("if " + g for g in GUARDS)) for t in txt)
    chk.ob("C15.R4", "the worker's own (non-error) reply does not complete a token task", ok, "", key="%s | token task completes only through the callback" % h.qname, where=h.where(), message="")
    guard = [i for i in body_nodes(h) if isinstance(i, ast.If) and norm(i.test).startswith(GUARDS)]
    eds = [x for x in name_defs(h, "error_type") if isinstance(x, ast.Assign) and guard and x.lineno < guard[0].lineno]
    vals = sorted(norm(x.value) for x in eds)
    ok = vals == ["None", "result.get('errorType')"]
    chk.ob("C15.R4", "before that guard error_type is None unless the reply is an object carrying errorType", ok, str(vals),
           key="%s | error_type definitions before the plain-reply guard: %s" % (h.qname, vals), where=h.where(),
           message="a non-object reply (\"accepted\", true, 202, [..]) must also count as 'no error': otherwise it completes the token task and the real SendTaskSuccess is orphaned")


def r6(chk, ctx):
    td = ctx.mod("task_dispatcher")
    h = td.func("TaskDispatcher.handle_sfn_response")
    comps = [n for n in body_nodes(h) if isinstance(n, ast.DictComp) and norm(n.generators[0].iter) == "execution_detail.items()"]
    chk.ob("C15.R6", "result fields are a renaming of the record's fields", len(comps) == 1, "", key="%s | renaming comprehension" % h.qname, where=h.where(), message="")
    if comps:
        c = comps[0]
        kvar = c.generators[0].target.elts[0].id if isinstance(c.generators[0].target, ast.Tuple) else "k"
        expr = c.key
        allowed = all(isinstance(x, (ast.Name, ast.Constant, ast.Subscript, ast.Slice, ast.BinOp, ast.Add, ast.Call, ast.Attribute, ast.Load, ast.UnaryOp, ast.USub)) for x in ast.walk(expr)) and \
            all(x.id == kvar for x in ast.walk(expr) if isinstance(x, ast.Name)) and \
            all(isinstance(x.func, ast.Attribute) and x.func.attr in ("capitalize", "upper", "lower", "title", "swapcase") for x in ast.walk(expr) if isinstance(x, ast.Call))
        chk.ob("C15.R6", "key transformation `%s` is a pure string expression" % norm(expr), allowed, "", key="%s | key transformation not foldable" % h.qname, where=td.line(expr), message="")
        if allowed:
            code = compile(ast.Expression(expr), "<fold>", "eval")
            bad = {}
            for k, want in RECORD_KEYS.items():
                got = eval(code, {"__builtins__": {}}, {kvar: k})   # constant folding of a whitelisted pure str expression
                if got != want:
                    bad[k] = got
            chk.ob("C15.R6", "record keys map to the documented names (10 keys folded)", not bad, str(bad),
                   key="%s | `%s` maps record keys to %s" % (h.qname, norm(expr), sorted(bad.values())), where=td.line(expr),
                   message="the task result must carry the child's DescribeExecution fields under their documented names (ExecutionArn, StartDate, ...)")
        chk.ob("C15.R6", "values are passed through unchanged", norm(c.value) == (c.generators[0].target.elts[1].id if isinstance(c.generators[0].target, ast.Tuple) else "v"), "", key="%s | value transformation" % h.qname, where=td.line(c), message="")
    arm = [n for n in body_nodes(h) if isinstance(n, ast.If) and norm(n.test) == "resource_arn.endswith('.sync:2')"]
    ok = len(arm) == 1
    if ok:
        body = arm[0].body
        txt = [norm(s) for s in body]
        ok = "result['Input'] = input" in txt
        oi = [s for s in body if isinstance(s, ast.If) and any(norm(x) == "result['Output'] = output" for x in s.body)]
        ok = ok and len(oi) == 1 and norm(oi[0].test) == "'Output' in result"
    chk.ob("C15.R6", ".sync:2: Input and (when present) Output are replaced by the JSON values", ok, "", key="%s | .sync:2 Output replacement is not guarded by presence of the field alone" % h.qname, where=h.where(),
           message="Output must be JSON for :2 whatever its value - {} [] 0 false \"\" included")
    txt = [norm(s) for s in ast.walk(h.node) if isinstance(s, ast.stmt)]
    ok = "error_type = result.get('Error')" in txt and "error_message = result.get('Cause')" in txt and any("'error': 'States.TaskFailed'" in t for t in txt)
    chk.ob("C15.R6", "a failed child fails the task with States.TaskFailed carrying the child's error", ok, "", key="%s | child failure mapping" % h.qname, where=h.where(), message="")
    p = ctx.protocol()
    orr = p.deferred_targets[p.notify.qname + ".asl_state_Task_delegate.on_response"]
    txt = [norm(s) for s in ast.walk(orr.node) if isinstance(s, ast.stmt)]
    ok = any(t.startswith("if result.get('Error')") for t in txt) and "error_type = 'States.TaskFailed'" in txt
    chk.ob("C15.R6", "on_response turns a child's Error into States.TaskFailed", ok, "", key="%s | child error" % orr.qname, where=orr.where(), message="")


def r7(chk, ctx):
    td = ctx.mod("task_dispatcher")
    ct = td.func("TaskDispatcher.cancel_task")
    casc = [n for n in body_nodes(ct) if isinstance(n, ast.If) and any(isinstance(c, ast.Call) and norm(c) == "self.cancel_task(child_id)" for s in n.body for c in ast.walk(s))]
    casc = [n for n in casc if not any(m is not n and any(m is x for x in ast.walk(n)) for m in casc)]   # innermost
    chk.ob("C15.R7", "cancel_task has the child cascade", len(casc) == 1, "", key="%s | cascade missing" % ct.qname, where=ct.where(), message="")
    if not casc:
        return
    c = casc[0]
    ok = norm(c.test) == "task_type == 'StepFunction'"
    chk.ob("C15.R7", "cascade runs for every StepFunction canceller", ok, norm(c.test), key="%s | cascade guard `%s`" % (ct.qname, norm(c.test)), where=td.line(c),
           message="on the timeout route the pending request is already gone when the Task's on_response calls cancel_task: the cascade must not depend on it")
    gi = [norm(i.test) for i, a in enclosing_ifs(td, c, ct.node)]
    chk.ob("C15.R7", "cascade is nested only under `if canceller`", gi == ["canceller"], str(gi), key="%s | cascade nesting %s" % (ct.qname, gi), where=td.line(c), message="")
    lc = [n for n in ast.walk(c) if isinstance(n, ast.ListComp)]
    ok = len(lc) == 1 and norm(lc[0].generators[0].iter) == "self.cancellers.items()" and [norm(i) for i in lc[0].generators[0].ifs] == ["v.get('Execution') == task_id"]
    chk.ob("C15.R7", "children = cancellers whose Execution is the child ARN (the task id)", ok, "", key="%s | cascade selection" % ct.qname, where=td.line(c), message="")
    _, ext, st, sx = _svc(ctx)
    sc = [x for x in body_nodes(sx) if isinstance(x, ast.Call) and callname(x) == "self.set_sfn_canceller"]
    ok = len(sc) == 1 and [norm(a) for a in sc[0].args] == ["event_id", "correlation_id", "execution_arn"]
    chk.ob("C15.R7", "sync launch registers a StepFunction canceller whose TaskID is the child ARN", ok, "", key="%s | sfn canceller registration" % sx.qname, where=sx.where(), message="")
    p = ctx.protocol()
    for qn in (".asl_state_Task_delegate.on_response",):
        f = p.deferred_targets[p.notify.qname + qn]
        err = [x for x in ast.walk(f.node) if isinstance(x, ast.Call) and norm(x) == "self.task_dispatcher.cancel_task(id)"]
        chk.ob("C15.R7", "on_response cancels the task's canceller on every error outcome (timeout, termination)", len(err) == 1, "", key="%s | cancel on error" % f.qname, where=f.where(), message="")


def r8(chk, ctx):
    ra = ctx.mod("rest_api_asyncio")
    for act in ("SendTaskSuccess", "SendTaskFailure"):
        f = [f for q, f in ra.funcs.items() if f.name == "aws_api_" + act][0]
        consults = [c for c in body_nodes(f) if isinstance(c, (ast.Attribute, ast.Name)) and last(dotted(c) or "") in ("pending_requests", "outstanding_tokens", "task_tokens")]
        chk.ob("C15.R8", "%s: the 200 answer depends on a lookup of the presented token" % act, bool(consults), "",
               key="%s | token accepted on format alone (no registry of outstanding tokens is consulted)" % f.qname, where=f.where(),
               message="a token that was never issued (or was already used) is answered 200 and a message is sent to the queue named inside the token")


def run(chk, ctx):
    from . import generic
    generic.definite_assignment(chk, ctx, ['task_dispatcher'], "C15.DA")   # no local is read before it is bound (UnboundLocalError = an arbitrary exception)
    r1(chk, ctx)
    r2(chk, ctx)
    r3(chk, ctx)
    r4(chk, ctx)
    c03.r6(chk, ctx)
    r6(chk, ctx)
    r7(chk, ctx)
    r8(chk, ctx)
    from . import round3
    round3.send_task_failure_error(chk, ctx)
    from . import round4, c04
    round4.canceller_removal_callers(chk, ctx)
    round4.task_outcome_once(chk, ctx)
    from . import round5
    round5.request_removal_clears_timer(chk, ctx)   # a retried child execution is not timed out by the cancelled attempt's timer
    round3.rest_no_instance_identity(chk, ctx)   # a token is honoured by whichever instance receives the call
    c04.r3(chk, ctx)                         # each launch has its own correlation key / child name
    chk.assume("base64 round-trips; ':' does not occur in event ids (uuid4) or reply queue names")
