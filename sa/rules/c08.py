"""C08 - waits and timeouts fire at the right instant, never early (structural clauses)."""
import ast

from ..core import AnalysisError, dotted, callname, last, const, short, norm
from ..cfg import CFG
from ..util import body_nodes, name_defs, enclosing_ifs, enclosing_stmt, derives_from
from . import c07

EXPLANATION = (
    "Static analysis of the current /repo source. Decides: (R1) parse_rfc3339_datetime reads every numeric field of the fixed-layout "
    "offset ±HH:MM at its full width (index-set computation on the constant slices) and parses fractional seconds as a decimal fraction; "
    "(R2) no exception handler on the def-use path to a timer delay manufactures a delay value; (R3) in Wait and Task the delay handed to "
    "the timer is the selection `t1 if t1 < t2 else t2` of two clamped millisecond values, t1 derived from Execution.StartTime + machine "
    "TimeoutSeconds - now and t2 from State.EnteredTime + Seconds/TimeoutSeconds - now (or Timestamp - now), the execution-timeout arm is "
    "selected by identity with t1, and the delay/flag reach set_timeout/execute_task unchanged; (R4) every completion path that removes a "
    "pending request clears its timer or is the timer callback guarded by a lookup miss, and cancelling a Wait clears its timer before the "
    "callback runs; (R5) States.ExecutionTimeout is unrecoverable and is mapped back to States.Timeout before the terminal record is written. "
    "Not decided: instants on a real clock; redelivery delays."
    " (R8) every function that removes an entry of pending_requests clears the timer stored in slot 6 of that entry (slot checked against the stores), except the timer's own handler.")
RULE_TEXT = "obligation = one field / definition / call site; non-trivial = distinct (rule, site)"


def _slice_indices(sl, length):
    """index set selected by a constant subscript on a string of known length"""
    def ival(n, default):
        if n is None:
            return default
        if isinstance(n, ast.UnaryOp) and isinstance(n.op, ast.USub) and isinstance(n.operand, ast.Constant):
            return -n.operand.value
        if isinstance(n, ast.Constant) and isinstance(n.value, int):
            return n.value
        return "?"
    if isinstance(sl, ast.Slice):
        lo, hi = ival(sl.lower, 0), ival(sl.upper, length)
        if "?" in (lo, hi) or sl.step is not None:
            return None
        return set(range(length)[lo:hi])
    v = ival(sl, "?")
    if v == "?":
        return None
    return {range(length)[v]}


def r1(chk, ctx):
    se = ctx.mod("state_engine")
    f = se.func("parse_rfc3339_datetime")
    # the offset variable: assigned a 6-character literal and a [-6:] slice
    offs = [x for x in name_defs(f, "offset") if isinstance(x, ast.Assign)]
    lit = [x for x in offs if isinstance(x.value, ast.Constant) and isinstance(x.value.value, str)]
    ok = bool(lit) and all(len(x.value.value) == 6 for x in lit) and any(isinstance(x.value, ast.Subscript) and norm(x.value.slice) == "-6:" for x in offs)
    chk.ob("C08.R1", "offset is the 6-character ±HH:MM suffix (or the literal for Z)", ok, [norm(x.value) for x in offs], key="parse_rfc3339_datetime | offset layout", where=f.where(), message="")
    reads = []
    for n in body_nodes(f):
        if isinstance(n, ast.Call) and isinstance(n.func, ast.Name) and n.func.id == "int" and n.args and isinstance(n.args[0], ast.Subscript) and norm(n.args[0].value) == "offset":
            reads.append(n)
    chk.floor("C08.R1", len(reads), 2, "numeric field reads of the offset")
    covered = set()
    fields = {"hours": {1, 2}, "minutes": {4, 5}}
    for r in reads:
        idx = _slice_indices(r.args[0].slice, 6)
        which = None
        par = se.parent(r)
        if isinstance(par, ast.keyword):
            which = par.arg
        want = fields.get(which)
        ok = idx is not None and want is not None and idx == want
        chk.ob("C08.R1", "offset field %s read at its full width (indices %s)" % (which, sorted(want) if want else "?"), ok, "reads indices %s via %s" % (sorted(idx) if idx else idx, norm(r)),
               key="parse_rfc3339_datetime | offset field %s read as `%s`" % (which, norm(r.args[0])), where=se.line(r),
               message="every legal offset must denote its true instant: +05:30 is 5 h 30 min")
        if idx:
            covered |= idx
    chk.ob("C08.R1", "all four offset digits are read", covered == {1, 2, 4, 5}, str(sorted(covered)), key="parse_rfc3339_datetime | offset digits read: %s" % sorted(covered), where=f.where(), message="")
    sign = [n for n in body_nodes(f) if isinstance(n, ast.Compare) and norm(n.left) == "offset[0]" and const(n.comparators[0]) == "-"]
    chk.ob("C08.R1", "sign taken from offset[0]", len(sign) == 1, "", key="parse_rfc3339_datetime | sign", where=f.where(), message="")
    # fractional seconds
    sp = [n for n in body_nodes(f) if isinstance(n, ast.Call) and last(callname(n)) == "strptime"]
    ok = len(sp) == 1 and isinstance(sp[0].args[1], ast.Constant) and sp[0].args[1].value == "%Y-%m-%dT%H:%M:%S.%f"
    ints_on_fraction = [n for n in body_nodes(f) if isinstance(n, ast.Call) and isinstance(n.func, ast.Name) and n.func.id == "int" and n not in reads]
    padded = any("ljust(6" in norm(n) for n in body_nodes(f) if isinstance(n, ast.Call))
    chk.ob("C08.R1", "fractional seconds parsed as a decimal fraction (%f, or right-padded digits)", ok and (not ints_on_fraction or padded), "",
           key="parse_rfc3339_datetime | fractional seconds not parsed as a decimal fraction", where=f.where(),
           message=".5 s is 500000 microseconds: digits must be right-padded, never read as an integer count of microseconds")
    # tzinfo applied
    ret = [s for s in f.node.body if isinstance(s, ast.Return)]
    ok = len(ret) == 1 and "replace(tzinfo=timezone(delta))" in norm(ret[0].value)
    chk.ob("C08.R1", "the offset becomes the tzinfo of the parsed wall time", ok, "", key="parse_rfc3339_datetime | tzinfo", where=f.where(), message="")


def _handler(ctx, t):
    p = ctx.protocol()
    return p, p.handlers[t]


def _deadline_defs(chk, ctx, f, se, rule="C08.R3"):
    """t1 (execution deadline) and the clamps; returns dict of facts"""
    def defs(name):
        return [x for x in name_defs(f, name) if isinstance(x, ast.Assign)]
    t1 = defs("t1")
    ok = len(t1) == 2 and norm(t1[0].value) == "(execution_timestamp + execution_timeout - current_timestamp) * 1000" and norm(t1[1].value) == "t1 if t1 > 0 else 0"
    chk.ob(rule, "%s: t1 = (StartTime + machine timeout - now) * 1000, clamped at 0" % f.name, ok, [norm(x.value) for x in t1],
           key="%s | execution deadline t1 definitions %s" % (f.qname, [norm(x.value) for x in t1]), where=f.where(),
           message="the execution deadline must come from Execution.StartTime, in ms, never negative")
    et = defs("execution_timestamp")
    st = defs("start_time")
    ok = len(et) == 1 and norm(et[0].value) == "parse_rfc3339_datetime(start_time).timestamp()" and len(st) == 1 and norm(st[0].value) == "context['Execution'].get('StartTime')"
    chk.ob(rule, "%s: execution_timestamp from $$.Execution.StartTime" % f.name, ok, "", key="%s | execution_timestamp source" % f.qname, where=f.where(), message="deadlines survive redelivery because they are anchored in the context")
    xo = defs("execution_timeout")
    ok = len(xo) == 1 and norm(xo[0].value) == "ASL.get('TimeoutSeconds', self.execution_ttl)"
    chk.ob(rule, "%s: machine TimeoutSeconds (default execution_ttl)" % f.name, ok, "", key="%s | execution_timeout source" % f.qname, where=f.where(), message="")
    stt = defs("state_timestamp")
    en = defs("entered_time")
    ok = len(stt) == 1 and norm(stt[0].value) == "parse_rfc3339_datetime(entered_time).timestamp()" and len(en) == 1 and norm(en[0].value) == "context['State'].get('EnteredTime')"
    chk.ob(rule, "%s: state_timestamp from $$.State.EnteredTime" % f.name, ok, "", key="%s | state_timestamp source" % f.qname, where=f.where(), message="a late or redelivered event must not restart the clock")
    now = defs("current_timestamp")
    ok = len(now) == 1 and norm(now[0].value) == "time.time()"
    chk.ob(rule, "%s: now = time.time()" % f.name, ok, "", key="%s | now" % f.qname, where=f.where(), message="")
    to = defs("timeout")
    ok = len(to) == 1 and norm(to[0].value) == "t1 if t1 < t2 else t2"
    chk.ob(rule, "%s: delay is the selection `t1 if t1 < t2 else t2`" % f.name, ok, [norm(x.value) for x in to],
           key="%s | delay is not a selection between t1 and t2: %s" % (f.qname, [norm(x.value) for x in to]), where=f.where(),
           message="the callbacks recognise the execution-timeout case by `timeout == t1`: the delay must be identical to the clamped t1 whenever the execution deadline is the nearer one")
    t2c = [x for x in defs("t2") if norm(x.value) == "t2 if t2 > 0 else 0"]
    ok = len(t2c) == 1 and bool(to) and t2c[0].lineno < to[0].lineno and all(x.lineno < to[0].lineno for x in t1)
    chk.ob(rule, "%s: t2 clamped at 0 before the selection" % f.name, ok, "", key="%s | t2 clamp" % f.qname, where=f.where(), message="a negative delay would otherwise be selected over the execution deadline")
    return to


def r2_r3(chk, ctx):
    se = ctx.mod("state_engine")
    p, w = _handler(ctx, "Wait")
    to = _deadline_defs(chk, ctx, w, se)
    # t2 definitions of Wait
    t2 = [x for x in name_defs(w, "t2") if isinstance(x, ast.Assign)]
    vals = [norm(x.value) for x in t2]
    want_rel = "(state_timestamp + seconds - current_timestamp) * 1000"
    ok = vals.count(want_rel) == 2 and vals.count("get_timeout_from_rfc3339_datetime(timestamp)") == 2 and "0" in vals
    chk.ob("C08.R3", "Wait: t2 = (EnteredTime + Seconds - now)*1000 or Timestamp - now", ok, str(vals), key="%s | t2 definitions %s" % (w.qname, vals), where=w.where(), message="")
    # selection chain: Seconds, SecondsPath, Timestamp, TimestampPath from the state
    for var, fld in (("seconds", "Seconds"), ("seconds_path", "SecondsPath"), ("timestamp", "Timestamp"), ("timestamp_path", "TimestampPath")):
        d = [x for x in name_defs(w, var) if isinstance(x, ast.Assign) and norm(x.value) == "state.get('%s')" % fld]
        chk.ob("C08.R3", "Wait: %s from the state's %s" % (var, fld), len(d) == 1, "", key="%s | %s source" % (w.qname, fld), where=w.where(), message="")
    d = [norm(x.value) for x in name_defs(w, "seconds") if isinstance(x, ast.Assign)]
    chk.ob("C08.R3", "Wait: SecondsPath evaluated against the effective input", "apply_path(input, context, seconds_path)" in d, "", key="%s | SecondsPath evaluation" % w.qname, where=w.where(), message="")
    d = [norm(x.value) for x in name_defs(w, "timestamp") if isinstance(x, ast.Assign)]
    chk.ob("C08.R3", "Wait: TimestampPath evaluated against the effective input", "apply_path(input, context, timestamp_path)" in d, "", key="%s | TimestampPath evaluation" % w.qname, where=w.where(), message="")
    gt = w.children.get("get_timeout_from_rfc3339_datetime")
    if gt is None:
        raise AnalysisError("anchor not found: get_timeout_from_rfc3339_datetime")
    txt = [norm(s) for s in ast.walk(gt.node) if isinstance(s, ast.stmt)]
    ok = "target_timestamp = parse_rfc3339_datetime(rfc3339).timestamp()" in txt and "return (target_timestamp - current_timestamp) * 1000" in txt and "current_timestamp = time.time()" in txt
    chk.ob("C08.R3", "Timestamp delay = (instant - now) * 1000", ok, "", key="%s | timestamp delay formula" % gt.qname, where=gt.where(), message="")
    # R2: handlers producing a delay
    for tr in [n for n in ast.walk(gt.node) if isinstance(n, ast.Try)]:
        for h in tr.handlers:
            for r in [s for s in ast.walk(h) if isinstance(s, ast.Return)]:
                made = isinstance(r.value, ast.Constant)
                chk.ob("C08.R2", "except %s does not manufacture a delay" % (norm(h.type) if h.type else "bare"), not made, norm(r),
                       key="%s | except %s returns the constant delay %s" % (gt.qname, norm(h.type) if h.type else "bare", norm(r.value)), where=gt.where(r),
                       message="a timestamp the parser rejects (e.g. more than 6 fraction digits) completes the Wait immediately instead of failing the state or waiting")
    # timer armed with the selected delay; canceller registered with the timer id
    st = [c for c in body_nodes(w) if isinstance(c, ast.Call) and last(callname(c)) == "set_timeout"]
    ok = len(st) == 1 and norm(st[0].args[0]) == "on_timeout" and norm(st[0].args[1]) == "timeout"
    chk.ob("C08.R3", "Wait arms set_timeout(on_timeout, timeout)", ok, "", key="%s | timer arming" % w.qname, where=w.where(), message="")
    sc = [c for c in body_nodes(w) if isinstance(c, ast.Call) and last(callname(c)) == "set_timeout_canceller"]
    ok = len(sc) == 1 and [norm(a) for a in sc[0].args[:3]] == ["id", "timeout_id", "on_timeout"]
    chk.ob("C08.R3", "Wait registers a canceller holding the timer id and callback", ok, "", key="%s | canceller registration" % w.qname, where=w.where(), message="")
    ot = w.children.get("on_timeout")
    arms = [n for n in body_nodes(ot) if isinstance(n, ast.If) and norm(n.test) == "timeout == t1"]
    ok = len(arms) == 1 and any("'States.ExecutionTimeout'" in norm(s) for s in arms[0].body)
    chk.ob("C08.R3", "on_timeout: execution-timeout arm selected by timeout == t1", ok, "", key="%s | execution-timeout arm" % ot.qname, where=ot.where(), message="")
    # Task
    td = p.deferred_targets.get(p.notify.qname + ".asl_state_Task_delegate")
    if td is None:
        raise AnalysisError("anchor not found: asl_state_Task_delegate")
    _deadline_defs(chk, ctx, td, se)
    t2 = [norm(x.value) for x in name_defs(td, "t2") if isinstance(x, ast.Assign)]
    chk.ob("C08.R3", "Task: t2 = (EnteredTime + state timeout - now) * 1000", "(state_timestamp + state_timeout - current_timestamp) * 1000" in t2, str(t2), key="%s | t2 definitions" % td.qname, where=td.where(), message="")
    sto = [norm(x.value) for x in name_defs(td, "state_timeout") if isinstance(x, ast.Assign)]
    ok = "state.get('TimeoutSecondsPath')" in sto and "state.get('TimeoutSeconds', 99999999)" in sto and "apply_path(data, context, state_timeout)" in sto
    chk.ob("C08.R3", "Task: state timeout from TimeoutSecondsPath / TimeoutSeconds", ok, str(sto), key="%s | state timeout sources %s" % (td.qname, sto), where=td.where(), message="")
    fl = [norm(x.value) for x in name_defs(td, "is_task_timeout") if isinstance(x, ast.Assign)]
    chk.ob("C08.R3", "Task: is_task_timeout = timeout == t2", fl == ["timeout == t2"], str(fl), key="%s | is_task_timeout" % td.qname, where=td.where(), message="")
    ex = [c for c in body_nodes(td) if isinstance(c, ast.Call) and last(callname(c)) == "execute_task"]
    ok = len(ex) == 1 and [norm(a) for a in ex[0].args] == ["resource_arn", "parameters", "on_response", "timeout", "is_task_timeout", "context", "id", "redelivered"]
    chk.ob("C08.R3", "Task forwards (timeout, is_task_timeout, id, redelivered) to execute_task", ok, "", key="%s | execute_task arguments" % td.qname, where=td.where(), message="")
    orr = td.children.get("on_response")
    arms = [n for n in ast.walk(orr.node) if isinstance(n, ast.If) and norm(n.test) == "timeout == t1"]
    ok = len(arms) == 1 and any("'States.ExecutionTimeout'" in norm(s) for s in arms[0].body)
    gi = enclosing_ifs(se, arms[0], orr.node) if arms else []
    ok = ok and any(norm(i.test) == "error_type == 'States.Timeout'" for i, arm in gi)
    chk.ob("C08.R3", "on_response: a States.Timeout with timeout == t1 becomes States.ExecutionTimeout", ok, "", key="%s | execution-timeout reclassification" % orr.qname, where=orr.where(),
           message="an execution that outlives the machine's TimeoutSeconds must fail with a timeout no Retry or Catch can intercept")
    # dispatcher arms the timer with the forwarded delay and uses it as expiration
    tdm = ctx.mod("task_dispatcher")
    ext = tdm.func("TaskDispatcher.execute_task")
    n = 0
    for q, f in tdm.funcs.items():
        if not q.startswith(ext.qname + ".asl_service_"):
            continue
        for c in body_nodes(f):
            if isinstance(c, ast.Call) and last(callname(c)) == "set_timeout":
                n += 1
                ok = norm(c.args[0]) == "on_timeout" and norm(c.args[1]) == "timeout"
                chk.ob("C08.R3", "%s arms set_timeout(on_timeout, timeout)" % f.name, ok, "", key="%s | timer arming" % q, where=tdm.line(c), message="")
                ot2 = f.children.get("on_timeout")
                ok = ot2 is not None and norm(ot2.node.body[-1]) == "timeout_callback(correlation_id)"
                chk.ob("C08.R3", "%s: timer fires timeout_callback(correlation_id)" % f.name, ok, "", key="%s | timer callback" % q, where=tdm.line(c), message="")
    chk.floor("C08.R3", n, 2, "dispatcher timers")
    tc = ext.children.get("timeout_callback")
    txt = " ".join(norm(s) for s in ast.walk(tc.node) if isinstance(s, ast.stmt))
    chk.ob("C08.R3", "timeout_callback reports States.Timeout", "'errorType': 'States.Timeout'" in txt, "", key="%s | error name" % tc.qname, where=tc.where(), message="")


def r4(chk, ctx):
    tdm = ctx.mod("task_dispatcher")
    for qn in ("TaskDispatcher.handle_rpcmessage_response", "TaskDispatcher.handle_sfn_response"):
        f = tdm.func(qn)
        g = CFG(f.node)
        clears = [c for c in body_nodes(f) if isinstance(c, ast.Call) and last(callname(c)) == "clear_timeout" and norm(c.args[0]) == "timeout_id"]
        cbs = [c for c in body_nodes(f) if isinstance(c, ast.Call) and isinstance(c.func, ast.Name) and c.func.id == "callback"]
        ok = bool(clears) and bool(cbs) and all(any(g.dominates(g.containing_stmt_node(cl, tdm), g.containing_stmt_node(cb, tdm)) for cl in clears) for cb in cbs)
        chk.ob("C08.R4", "%s clears the request's timer before completing it" % f.name, ok, "", key="%s | timer not cleared before the callback" % qn, where=f.where(),
               message="a superseded timer must never fire: the pending entry is gone, but the reply path must also disarm it")
        # the id cleared is the one unpacked from the request tuple (7th field)
        unp = [s for s in body_nodes(f) if isinstance(s, ast.Assign) and isinstance(s.targets[0], ast.Tuple) and norm(s.value) == "request"]
        ok = bool(unp) and len(unp[0].targets[0].elts) == 8 and norm(unp[0].targets[0].elts[6]) == "timeout_id"
        chk.ob("C08.R4", "%s: timeout_id is the 7th field of the request tuple" % f.name, ok, "", key="%s | request tuple layout" % qn, where=f.where(), message="")
    ext = tdm.func("TaskDispatcher.execute_task")
    # writer side: 7th field of the registered tuple is the timer id
    for q, f in tdm.funcs.items():
        for s in body_nodes(f):
            if isinstance(s, ast.Assign) and any(isinstance(t, ast.Subscript) and norm(t.value) == "self.pending_requests" for t in s.targets) and isinstance(s.value, ast.Tuple):
                ok = len(s.value.elts) == 8 and norm(s.value.elts[6]) == "timeout_id" and norm(s.value.elts[3]) == "callback"
                chk.ob("C08.R4", "%s registers (.., callback, .., timeout_id, span)" % f.name, ok, "", key="%s | registered tuple layout" % q, where=tdm.line(s), message="")
    tc = ext.children.get("timeout_callback")
    first = [s for s in tc.node.body if not (isinstance(s, ast.Expr) and isinstance(s.value, ast.Constant))]
    ok = len(first) == 2 and norm(first[0]) == "request = self.pending_requests.get(correlation_id)" and isinstance(first[1], ast.If) and norm(first[1].test) == "request" and not first[1].orelse
    chk.ob("C08.R4", "timeout_callback is a no-op when the request is gone (lookup-miss guard)", ok, "", key="%s | lookup-miss guard" % tc.qname, where=tc.where(),
           message="a timer that outlives its request must not report a timeout")
    ct = tdm.func("TaskDispatcher.cancel_task")
    g = CFG(ct.node)
    # the Wait arm clears the Wait's own timer (since fix 2930bfe the request arm clears the request's timer as well)
    cl = [c for c in body_nodes(ct) if isinstance(c, ast.Call) and last(callname(c)) == "clear_timeout" and c.args and norm(c.args[0]) == "task_id"]
    ok = len(cl) == 1
    if ok:
        gi = enclosing_ifs(tdm, cl[0], ct.node)
        ok = any(norm(i.test) == "task_type == 'Timeout'" and arm == "body" for i, arm in gi)
        cbs = [c for c in body_nodes(ct) if isinstance(c, ast.Call) and isinstance(c.func, ast.Name) and c.func.id == "callback" and any(norm(i.test) == "task_type == 'Timeout'" and arm == "body" for i, arm in enclosing_ifs(tdm, c, ct.node))]
        ok = ok and bool(cbs) and all(g.dominates(g.containing_stmt_node(cl[0], tdm), g.containing_stmt_node(cb, tdm)) for cb in cbs)
    chk.ob("C08.R4", "cancel_task clears a Wait's timer before invoking its callback", ok, "", key="TaskDispatcher.cancel_task | Wait timer not cleared", where=ct.where(),
           message="a cancelled Wait must never fire")
    tid = [x for x in name_defs(ct, "task_id") if isinstance(x, ast.Assign)]
    chk.ob("C08.R4", "cancel_task: task_id is the canceller's TaskID", len(tid) == 1 and norm(tid[0].value) == "canceller.get('TaskID')", "", key="TaskDispatcher.cancel_task | task id source", where=ct.where(), message="")


def r5(chk, ctx):
    p = ctx.protocol()
    se = ctx.mod("state_engine")
    c07.r5(chk, ctx, p, se)
    ee = se.func("StateEngine.end_execution")
    g = CFG(ee.node)
    maps = [s for s in body_nodes(ee) if isinstance(s, ast.Assign) and norm(s.targets[0]) == "data['Error']" and const(s.value) == "States.Timeout"]
    ok = len(maps) == 1
    if ok:
        gi = enclosing_ifs(se, maps[0], ee.node)
        ok = len(gi) == 1 and "== 'States.ExecutionTimeout'" in norm(gi[0][0].test)
        dumps = [s for s in body_nodes(ee) if isinstance(s, ast.Assign) and norm(s.value) == "json.dumps(data)"]
        ok = ok and bool(dumps) and all(g.dominates(g.node_of(gi[0][0]), g.node_of(d)) for d in dumps)
    chk.ob("C08.R5", "end_execution maps States.ExecutionTimeout back to States.Timeout before the record is written", ok, "",
           key="StateEngine.end_execution | ExecutionTimeout not mapped back before serialisation", where=ee.where(), message="the reported error name is States.Timeout")


def run(chk, ctx):
    r1(chk, ctx)
    r2_r3(chk, ctx)
    r4(chk, ctx)
    r5(chk, ctx)
    p = ctx.protocol()
    c07.r2(chk, ctx, p, ctx.mod("state_engine"))   # a retried attempt's timeout clock starts when it is re-run (EnteredTime = now + delay)
    from . import round3
    round3.timer_cleared_only_on_completion(chk, ctx)
    round3.timer_delay_unmodified(chk, ctx)
    from . import round5
    round5.request_removal_clears_timer(chk, ctx)
    chk.assume("time.time() and datetime.strptime('%f') behave as documented (%f right-pads up to 6 digits)")
    chk.assume("units: *Seconds fields and .timestamp() are seconds; set_timeout/execute_task/Message.expiration take milliseconds")
