"""C01 - executions compute what the States Language prescribes (structural clauses)."""
import ast

from ..core import AnalysisError, dotted, callname, last, const, short, norm, is_get
from ..util import body_nodes, name_defs, enclosing_ifs, enclosing_stmt, dict_literal_value
from . import c14, c05, c07

EXPLANATION = (
    "Static analysis of the current /repo source. Decides: (R1) in every state handler the data argument of each path/template stage is "
    "def-use-derived from the result of the stage the States Language puts before it (InputPath <- raw input; Parameters / ItemsPath / "
    "OutputPath of pass-through states <- effective input; ResultSelector <- the task result / the joined array; ResultPath placement "
    "(merge_result) <- raw input of the state - the saved raw input for joins - and the previous stage's result; OutputPath <- the placed "
    "document), with the spec's defaults ('$'); (R2) every non-terminal arm ends in change_state(.., state.get('Next'), ..) xor "
    "handle_terminal_state selected by state.get('End'), Choice scans its rules in order with first match / Default / NoChoiceMatched, "
    "Fail reports its Error/Cause, joins keep branch/item order (C05.R1); (R3) which functions decide success or failure from the CONTENT "
    "of the payload (the in-band Error convention, a recorded defect) - any new place doing so is a violation. Not decided: the value of "
    "every output for every machine x input.")
RULE_TEXT = "obligation = one stage call x argument, one Next/End arm, one payload-derived status decision; non-trivial = distinct (rule, site)"

RAW, IN, PARAMS, ITEMS, OUT, RSEL, MERGE, RESULTFIELD, SAVEDRAW, ITEM, TASKRESULT, JOINED, EMPTY = (
    "raw-input", "InputPath", "Parameters", "ItemsPath", "OutputPath", "ResultSelector", "ResultPath+OutputPath", "Result-field", "saved-raw-input",
    "item", "task-result", "results-container", "empty-array")


def _field_of(call):
    """the state field a stage call reads, e.g. 'InputPath' for apply_path(x, ctx, state.get('InputPath', '$'))"""
    for a in call.args[1:] + [k.value for k in call.keywords]:
        if is_get(a) and isinstance(a.func.value, ast.Name):
            return const(a.args[0]), (const(a.args[1]) if len(a.args) > 1 else None), len(a.args) > 1
    return None, None, False


class Stages:
    def __init__(self, ctx, p):
        self.ctx, self.p = ctx, p
        self.se = ctx.mod("state_engine")

    def _dominating_def(self, f, ds, use_line):
        return _dominating_def_impl(self.se, f, ds, use_line)

    def stage_of_call(self, f, call):
        nm = callname(call)
        fld, dflt, has = _field_of(call)
        if nm == "apply_path":
            if fld in ("InputPath", "OutputPath", "ItemsPath"):
                return {"InputPath": IN, "OutputPath": OUT, "ItemsPath": ITEMS}[fld]
        if nm == "evaluate_payload_template":
            if fld == "Parameters":
                return PARAMS
            if fld == "ResultSelector":
                return RSEL
            if len(call.args) > 2 and isinstance(call.args[2], ast.Name) and "selector" in call.args[2].id:
                return PARAMS
        if nm == "merge_result":
            return MERGE
        return None

    def source(self, f, expr, before=None, depth=0):
        """set of stage labels an expression's value may come from"""
        if depth > 6:
            return {"?"}
        if isinstance(expr, ast.Call):
            st = self.stage_of_call(f, expr)
            if st:
                return {st}
            if is_get(expr) and const(expr.args[0]) == "Result" and len(expr.args) > 1:
                return {RESULTFIELD} | self.source(f, expr.args[1], before, depth + 1)
            return {"call:" + callname(expr)}
        if isinstance(expr, ast.List) and not expr.elts:
            return {EMPTY}
        if isinstance(expr, ast.Subscript):
            s = norm(expr)
            if s == "branch_info['Input']":
                return {SAVEDRAW}
            if s in ("event['data']",):
                return {RAW}
            return {"sub:" + s}
        if isinstance(expr, ast.Name):
            nm = expr.id
            # closure lookup: nearest function (f or an enclosing one) that binds the name
            g = f
            while g is not None:
                params = [a.arg for a in g.node.args.args]
                ds = [d for d in name_defs(g, nm)]
                if nm in params and g is not self.p.notify:
                    if nm == "result" and g.name == "on_response":
                        base = {TASKRESULT}
                        if not ds:
                            return base
                        out = set(base)
                    else:
                        out = set()
                        if not ds:
                            return {"param:" + nm}
                else:
                    out = set()
                if ds and g is f and before is not None:
                    dom = self._dominating_def(g, ds, before)
                    if dom is not None:
                        ds = [dom]
                        out = set()
                if ds:
                    for d in ds:
                        if before is not None and g is f and getattr(d, "lineno", 0) >= before:
                            continue
                        if isinstance(d, ast.For):
                            out.add(ITEM if nm == "item" else "loopvar")
                            continue
                        v = getattr(d, "value", None)
                        if v is None:
                            continue
                        if isinstance(d, ast.Assign) and isinstance(d.targets[0], ast.Tuple):
                            out.add("tuple")
                            continue
                        s = norm(v)
                        if g is self.p.notify and nm == "data" and s.startswith("event.get('data'"):
                            out.add(RAW)
                        elif s == "event['data']" and nm == "data":
                            out.add(RAW)
                        elif s == "branch_results['results']":
                            out.add(JOINED)
                        else:
                            out |= self.source(g, v, getattr(d, "lineno", None) if g is f else None, depth + 1)
                    if out:
                        return out
                g = g.parent
            return {"name:" + nm}
        return {"expr"}


def _dominating_def_impl(m, f, ds, use_line):
    """latest definition that executes unconditionally before the use (straight-line in an enclosing block of the use)"""
    use_stmt = None
    for n in ast.walk(f.node):
        if isinstance(n, ast.stmt) and getattr(n, "lineno", 0) <= use_line <= getattr(n, "end_lineno", 0) and m.enclosing_func(n) is f:
            if use_stmt is None or (n.lineno >= use_stmt.lineno and n.end_lineno <= use_stmt.end_lineno):
                use_stmt = n
    if use_stmt is None:
        return None
    # chain of (block list, statement in that block) from the use outwards
    chain = []
    n = use_stmt
    while n is not None and n is not f.node:
        par = m.parent(n)
        for fld in ("body", "orelse", "finalbody"):
            b = getattr(par, fld, None)
            if isinstance(b, list) and any(x is n for x in b):
                chain.append((b, n))
        if isinstance(par, ast.ExceptHandler):
            pass
        n = par
    best = None
    for d in ds:
        if not isinstance(d, ast.Assign) or d.lineno >= use_line:
            continue
        for b, stmt in chain:
            if any(x is d for x in b) and b.index(d) < [i for i, x in enumerate(b) if x is stmt][0]:
                if best is None or d.lineno > best.lineno:
                    best = d
    return best


def _stage_calls(f):
    return [c for c in body_nodes(f) if isinstance(c, ast.Call) and callname(c) in ("apply_path", "evaluate_payload_template", "merge_result")]


def r1(chk, ctx, p, se):
    S = Stages(ctx, p)
    funcs = []
    for t in ("Pass", "Choice", "Wait", "Succeed"):
        funcs.append(p.handlers[t])
    for q, f in sorted(p.deferred_targets.items()):
        funcs.append(f)
    funcs.append(p.join)
    expected_arg0 = {IN: {RAW}, PARAMS: {IN}, ITEMS: {IN}, OUT: {IN}}
    n = 0
    seen_stage = {}
    for f in funcs:
        for c in _stage_calls(f):
            st = S.stage_of_call(f, c)
            if st is None:
                continue
            n += 1
            seen_stage.setdefault(f.qname, []).append(st)
            site = "%s: %s" % (f.qname.replace(p.notify.qname + ".", ""), short(c, 70))
            fld, dflt, has = _field_of(c)
            if st in expected_arg0:
                src = S.source(f, c.args[0], c.lineno)
                ok = src == expected_arg0[st]
                chk.ob("C01.R1", site + " reads " + "/".join(sorted(expected_arg0[st])), ok, "source: %s" % sorted(src),
                       key="%s | %s is applied to %s instead of %s" % (f.qname, st, sorted(src), sorted(expected_arg0[st])), where=f.where(c),
                       message="the States Language applies InputPath, Parameters, the work, ResultSelector, ResultPath and OutputPath in that order")
                if st in (IN, OUT, ITEMS):
                    ok = has and dflt == "$"
                    chk.ob("C01.R1", site + " defaults to '$'", ok, "", key="%s | default of %s is not '$'" % (f.qname, fld), where=f.where(c), message="")
            elif st == RSEL:
                src = S.source(f, c.args[0], c.lineno)
                want = {TASKRESULT} if f.name == "on_response" else ({JOINED} if f is p.join else {EMPTY})
                ok = src == want
                chk.ob("C01.R1", site + " reads " + "/".join(sorted(want)), ok, "source: %s" % sorted(src),
                       key="%s | ResultSelector is applied to %s instead of %s" % (f.qname, sorted(src), sorted(want)), where=f.where(c), message="")
            elif st == MERGE:
                a = c.args
                src0 = S.source(f, a[0], c.lineno)
                want0 = {SAVEDRAW} if f is p.join else {RAW}
                if f is p.he:
                    want0 = {RAW}
                ok = src0 == want0
                chk.ob("C01.R1", site + ": ResultPath is applied to the %s" % "/".join(sorted(want0)), ok, "source: %s" % sorted(src0),
                       key="%s | merge_result's document is %s instead of %s" % (f.qname, sorted(src0), sorted(want0)), where=f.where(c),
                       message="ResultPath combines the result with the state's RAW input (for a join: the fan-out state's saved raw input)")
                src2 = S.source(f, a[2], c.lineno)
                if f.name == "asl_state_Pass":
                    want2 = {RESULTFIELD, PARAMS}
                else:
                    want2 = {RSEL}
                ok = src2 == want2
                chk.ob("C01.R1", site + ": the placed result comes from %s" % "/".join(sorted(want2)), ok, "source: %s" % sorted(src2),
                       key="%s | merge_result places %s instead of %s" % (f.qname, sorted(src2), sorted(want2)), where=f.where(c), message="")
                ok = len(a) == 4 and norm(a[3]) == "state" and norm(a[1]) == "context"
                chk.ob("C01.R1", site + ": ResultPath/OutputPath of the state itself", ok, "", key="%s | merge_result state argument" % f.qname, where=f.where(c), message="")
                stt = enclosing_stmt(se, c)
                ok = isinstance(stt, ast.Assign) and norm(stt.targets[0]) == "event['data']"
                chk.ob("C01.R1", site + ": becomes the event data", ok, "", key="%s | merge_result target" % f.qname, where=f.where(c), message="")
    chk.floor("C01.R1", n, 20, "stage calls in the state handlers")
    # every handler has the stages its state type prescribes
    need = {"asl_state_Pass": [IN, PARAMS, MERGE], "asl_state_Choice": [IN, OUT], "asl_state_Wait": [IN], "asl_state_Succeed": [IN, OUT],
            "asl_state_Task_delegate": [IN, PARAMS], "on_response": [RSEL, MERGE], "on_timeout": [OUT],
            "asl_state_Parallel_delegate": [IN, PARAMS], "asl_state_Map_delegate": [IN, ITEMS, PARAMS, RSEL, MERGE], "asl_state_collect_results": [RSEL, MERGE]}
    for f in funcs:
        want = need.get(f.name)
        if not want:
            continue
        have = seen_stage.get(f.qname, [])
        for st in want:
            chk.ob("C01.R1", "%s has stage %s" % (f.name, st), st in have, str(have), key="%s | stage %s missing" % (f.qname, st), where=f.where(),
                   message="a state of this type must apply this stage")
        # order of first occurrence follows the spec
        order = [IN, PARAMS, ITEMS, RSEL, MERGE, OUT]
        firsts = []
        for st in have:
            if st not in firsts:
                firsts.append(st)
        idx = [order.index(s) for s in firsts if s in order and not (f.name == "asl_state_Map_delegate" and s in (ITEMS, PARAMS))]
        chk.ob("C01.R1", "%s: stages appear in pipeline order" % f.name, idx == sorted(idx), str(firsts), key="%s | stage order %s" % (f.qname, firsts), where=f.where(), message="")
    # what the task / the branches receive
    td = p.deferred_targets[p.notify.qname + ".asl_state_Task_delegate"]
    ex = [c for c in body_nodes(td) if isinstance(c, ast.Call) and last(callname(c)) == "execute_task"]
    ok = len(ex) == 1 and S.source(td, ex[0].args[1], ex[0].lineno) == {PARAMS}
    chk.ob("C01.R1", "the task receives the Parameters result", ok, "", key="%s | task input source" % td.qname, where=td.where(), message="")
    for nm in ("asl_state_Parallel_delegate", "asl_state_Map_delegate"):
        f = p.deferred_targets[p.notify.qname + "." + nm]
        loops = [l for l in body_nodes(f) if isinstance(l, ast.For) and any(isinstance(c, ast.Call) and last(callname(c)) == "publish" for c in ast.walk(l))]
        if len(loops) != 1:
            continue
        sets = [s for s in ast.walk(loops[0]) if isinstance(s, ast.Assign) and norm(s.targets[0]) == "event['data']"]
        ok = len(sets) == 1
        src = S.source(f, sets[0].value, sets[0].lineno) if ok else set()
        want = {PARAMS} if nm.startswith("asl_state_Parallel") else {PARAMS, ITEM}
        chk.ob("C01.R1", "%s: each branch receives %s" % (nm, "/".join(sorted(want))), ok and src == want, "source: %s" % sorted(src),
               key="%s | branch input is %s instead of %s" % (f.qname, sorted(src), sorted(want)), where=f.where(), message="")
        recs = [d for d in ast.walk(loops[0]) if isinstance(d, ast.Dict) and dict_literal_value(d, "Input") is not None and dict_literal_value(d, "Length") is not None]
        ok = len(recs) == 1 and S.source(f, dict_literal_value(recs[0], "Input"), recs[0].lineno) == {RAW}
        chk.ob("C01.R1", "%s: the branch record saves the RAW input of the fan-out state" % nm, ok, "",
               key="%s | the input saved for the join is not the state's raw input" % f.qname, where=f.where(),
               message="at the join ResultPath (and a catcher's ResultPath) is applied to this saved value: it must be the raw input, not the InputPath-filtered one")
    # merge_result itself
    mr = se.func("merge_result")
    txt = [norm(s) for s in mr.node.body if not (isinstance(s, ast.Expr) and isinstance(s.value, ast.Constant))]
    ok = txt == ["output = apply_resultpath(data, result, state.get('ResultPath', '$'))",
                 "output_path = output_path if output_path else state.get('OutputPath', '$')",
                 "return apply_path(output, context, output_path)"]
    if not ok:
        # def-use form of the same facts
        calls = [c for c in body_nodes(mr) if isinstance(c, ast.Call)]
        rp = [c for c in calls if callname(c) == "apply_resultpath"]
        ap = [c for c in calls if callname(c) == "apply_path"]
        ok = len(rp) == 1 and len(ap) == 1 and [norm(a) for a in rp[0].args[:2]] == ["data", "result"] and "state.get('ResultPath', '$')" in norm(rp[0]) and \
            isinstance(ap[0].args[0], ast.Name) and any(isinstance(d, ast.Assign) and d.value is rp[0] for d in name_defs(mr, ap[0].args[0].id)) and \
            isinstance(se.parent(ap[0]), ast.Return) and "state.get('OutputPath', '$')" in " ".join(txt) and "state.get('OutputPath') or" not in " ".join(txt)
    chk.ob("C01.R1", "merge_result = ResultPath placement, then OutputPath on the placed document", ok, "", key="merge_result | ResultPath then OutputPath", where=mr.where(), message="")


def r2(chk, ctx, p, se):
    targets = [p.handlers["Pass"], p.deferred_targets[p.notify.qname + ".asl_state_Task_delegate.on_response"], p.deferred_targets[p.notify.qname + ".asl_state_Wait.on_timeout"],
               p.deferred_targets[p.notify.qname + ".asl_state_Map_delegate"]]
    n = 0
    for f in targets:
        ifs = [i for i in ast.walk(f.node) if isinstance(i, ast.If) and norm(i.test) == "state.get('End')" and se.enclosing_func(i) is f]
        chk.ob("C01.R2", "%s chooses terminal vs transition by state.get('End')" % f.name, len(ifs) == 1, "", key="%s | End test" % f.qname, where=f.where(), message="")
        for i in ifs:
            n += 1
            hb = [c for s in i.body for c in ast.walk(s) if isinstance(c, ast.Call) and callname(c) == "handle_terminal_state"]
            cb = [c for s in i.orelse for c in ast.walk(s) if isinstance(c, ast.Call) and last(callname(c)) == "change_state"]
            ok = len(hb) == 1 and len(cb) == 1 and norm(cb[0].args[2]) == "state.get('Next')" and norm(cb[0].args[3]) == "event" and norm(hb[0].args[1]) == "event" \
                and not any(isinstance(c, ast.Call) and last(callname(c)) == "change_state" for s in i.body for c in ast.walk(s))
            chk.ob("C01.R2", "%s: End -> handle_terminal_state, else change_state(.., state.get('Next'), event)" % f.name, ok, "",
                   key="%s | Next/End arms" % f.qname, where=f.where(i), message="a state follows its Next unless it is marked End")
    j = p.join
    cs = [c for c in body_nodes(j) if isinstance(c, ast.Call) and last(callname(c)) == "change_state"]
    gcs = [(norm(i.test), arm) for i, arm in enclosing_ifs(se, cs[0], j.node)] if len(cs) == 1 else None
    ok = len(cs) == 1 and norm(cs[0].args[2]) == "state.get('Next')" and gcs in ([("not state.get('End')", "body")], [("state.get('End')", "orelse")])
    ht = [c for c in body_nodes(j) if isinstance(c, ast.Call) and callname(c) == "handle_terminal_state"]
    ok = ok and len(ht) == 1 and [(norm(i.test), arm) for i, arm in enclosing_ifs(se, ht[0], j.node)] == [("state.get('End')", "body")]
    chk.ob("C01.R2", "join: Next xor End of the fan-out state", ok, "", key="%s | Next/End arms" % j.qname, where=j.where(), message="")
    chk.floor("C01.R2", n, 4, "Next/End decisions")
    for t in ("Succeed", "Fail"):
        f = p.handlers[t]
        ht = [c for c in body_nodes(f) if isinstance(c, ast.Call) and callname(c) == "handle_terminal_state"]
        cs = [c for c in body_nodes(f) if isinstance(c, ast.Call) and last(callname(c)) == "change_state"]
        chk.ob("C01.R2", "%s is terminal" % t, len(ht) == 1 and not cs, "", key="%s | terminal handling" % f.qname, where=f.where(), message="")
    f = p.handlers["Fail"]
    d = [x for x in body_nodes(f) if isinstance(x, ast.Dict)]
    ok = len(d) == 1 and norm(dict_literal_value(d[0], "Error")).startswith("state.get('Error'") and norm(dict_literal_value(d[0], "Cause")).startswith("state.get('Cause'")
    chk.ob("C01.R2", "Fail reports the state's Error and Cause", ok, "", key="%s | Error/Cause source" % f.qname, where=f.where(), message="")
    handlers = c14.r1(chk, ctx)
    c14.r6(chk, ctx, handlers)
    c05.r1(chk, ctx, p, se)
    c07.r1(chk, ctx, p, se)   # which errors are 'unhandled' is decided by the retry/catch scan
    c07.r4(chk, ctx, p, se)   # a leaked retry counter changes how often an inner state is retried, hence the outcome
    from . import c08
    c08.r1(chk, ctx)          # Choice timestamp rules compare the instants this parser yields
    c07.r3(chk, ctx, p, se)


def r3(chk, ctx, p, se):
    """decisions taken from the CONTENT of the payload"""
    found = []
    for q, f in se.funcs.items():
        for n in body_nodes(f):
            if is_get(n) and const(n.args[0]) == "Error" and isinstance(n.func.value, ast.Name) and n.func.value.id in ("data", "result"):
                st = enclosing_stmt(se, n)
                controls = isinstance(st, (ast.If,)) and any(x is n for x in ast.walk(st.test))
                if isinstance(st, ast.Assign) and isinstance(st.targets[0], ast.Name):
                    v = st.targets[0].id
                    controls = any(isinstance(i, ast.If) and any(isinstance(x, ast.Name) and x.id == v for x in ast.walk(i.test)) for i in body_nodes(f))
                if controls:
                    found.append((f, n))
    seen = set()
    for f, n in found:
        if f.qname in seen:
            continue
        seen.add(f.qname)
        chk.ob("C01.R3", "%s does not decide success/failure from payload content" % f.qname, False, short(enclosing_stmt(se, n), 80),
               key="%s | success/failure decided from the payload's Error member" % f.qname, where=f.where(n),
               message="SUCCEEDED/FAILED must follow from which state was reached, not from whether the data happens to contain an 'Error' member")
    chk.floor("C01.R3", len(seen), 1, "payload-derived status decisions (the recorded in-band convention)")
    chk.sample({"rule": "C01.R3", "functions": sorted(seen)})


def run(chk, ctx):
    from . import generic
    generic.definite_assignment(chk, ctx, ['state_engine', 'state_engine_paths'], "C01.DA")   # no local is read before it is bound (UnboundLocalError = an arbitrary exception)
    p = ctx.protocol()
    se = ctx.mod("state_engine")
    r1(chk, ctx, p, se)
    r2(chk, ctx, p, se)
    r3(chk, ctx, p, se)
    from . import c06, c12, c14
    c12.r3(chk, ctx, ctx.mod('state_engine_paths'), p, se)   # a value selected by Parameters is a copy: placing it with ResultPath must not make the document contain itself
    c14.r2(chk, ctx, c14.r1(chk, ctx))                       # 'Choice takes the first matching rule': operators compare by type
    c06.r2(chk, ctx)                                         # only replies of the terminated branch itself become Task.Terminated: sibling branches keep their outputs
    chk.assume("apply_path / evaluate_payload_template / apply_resultpath compute what C12/C13 decide about them")
