"""C07 - Retry and Catch follow the States Language error-handling policy (structural clauses)."""
import ast

from ..core import AnalysisError, dotted, callname, last, const, short, norm, is_get
from ..cfg import CFG
from ..util import body_nodes, name_defs, enclosing_ifs, enclosing_stmt

EXPLANATION = (
    "Static analysis of the current /repo source (handle_error, change_state, the fan-out delegates, the join). Decides: (R1) retriers and "
    "catchers are scanned in list order, the first matching entry decides (its arm ends in an unconditional break whether or not a retry "
    "was issued), catchers are only scanned when no retry was issued, and both scans use the same matching predicate; (R2) the delay is "
    "IntervalSeconds * BackoffRate ** k with k the retry count BEFORE increment, defaults 1/3/2.0, strict `<` against MaxAttempts (0 means "
    "never), the delay is stored in ms and is what the Task/Parallel/Map handlers hand to the timer; (R3) the Error Output is a fresh "
    "{Error[,Cause]}, placed by the catcher's ResultPath into the state's input with no OutputPath, transition to the catcher's Next, a "
    "refused transition falls through to failure, and the join restores the fan-out state's raw input before handling its error; (R4) retry "
    "counters cannot leak: change_state deletes both before it publishes, the fan-out delegates move both out of the context before "
    "publishing to the branches; (R5) States.Runtime / States.ExecutionTimeout / Task.Terminated bypass both scans. Not decided: sequences "
    "of task outcomes."
    " (R8) in the join a removal of RetryCount and RetryTimeout from the context dominates every handle_error/change_state call, and what is restored is the fan-out state's own pair from the Branch record; (R9) nothing that can raise a catchable error is reachable from the push of the placeholder Branch record in a fan-out delegate unless the handlers pop it."
    " (R10) the attempt count compared with a Retrier's MaxAttempts is looked up through the loop variable of the retrier scan (each Retrier keeps its own count); reported on the current tree as D69.")
RULE_TEXT = "obligation = one structural fact of the retry/catch algorithm at a named site; non-trivial = distinct (rule, site)"

UNRECOVERABLE = {"States.Runtime", "States.ExecutionTimeout", "Task.Terminated", "States.ExecutionHistoryLimitExceeded"}   # the last one since fix d8e1785: a quota of the execution, not an error of the state entered


def _loops(p, se):
    he = p.he
    loops = {}
    for n in body_nodes(he):
        if isinstance(n, ast.For) and isinstance(n.iter, ast.Name):
            d = [x for x in name_defs(he, n.iter.id) if isinstance(x, ast.Assign)]
            if len(d) == 1 and is_get(d[0].value) and const(d[0].value.args[0]) in ("Retry", "Catch"):
                loops[const(d[0].value.args[0])] = n
    if set(loops) != {"Retry", "Catch"}:
        raise AnalysisError("anchor not found: retrier/catcher scan loops in handle_error")
    return loops


def _match_if(loop):
    for s in loop.body:
        if isinstance(s, ast.If) and "error_equals" in norm(s.test):
            return s
    return None


def r1(chk, ctx, p, se):
    he = p.he
    loops = _loops(p, se)
    preds = {}
    for kind, lp in loops.items():
        site = "%s scan" % kind
        ok = isinstance(lp.target, ast.Name) and not lp.orelse
        chk.ob("C07.R1", site + ": plain for-loop over the list (array order)", ok, norm(lp.iter), key="%s | %s loop shape" % (he.qname, kind), where=he.where(lp), message="")
        mi = _match_if(lp)
        chk.ob("C07.R1", site + ": has a matching test on ErrorEquals", mi is not None, "", key="%s | %s matching test missing" % (he.qname, kind), where=he.where(lp), message="")
        if mi is None:
            continue
        preds[kind] = norm(mi.test).replace(norm(lp.target), "_")
        endb = isinstance(mi.body[-1], ast.Break)
        chk.ob("C07.R1", site + ": the matching arm ends in an unconditional break", endb, short(mi.body[-1], 60),
               key="%s | the first matching %s does not end the scan unconditionally" % (he.qname, "retrier" if kind == "Retry" else "catcher"), where=he.where(mi),
               message="the FIRST entry whose ErrorEquals matches decides; when it is exhausted (or MaxAttempts is 0) a later matching entry must not take over")
        # error_equals comes from the loop variable
        d = [x for x in name_defs(he, "error_equals") if isinstance(x, ast.Assign) and any(x is s for s in lp.body)]
        ok = len(d) == 1 and norm(d[0].value) == "%s.get('ErrorEquals')" % norm(lp.target)
        chk.ob("C07.R1", site + ": ErrorEquals read from the scanned entry", ok, "", key="%s | %s ErrorEquals source" % (he.qname, kind), where=he.where(lp), message="")
        # guard of the loop
        gi = [i for i, arm in enclosing_ifs(se, lp, he.node) if arm == "body"]
        g = " and ".join(norm(i.test) for i in gi)
        ok = "not unrecoverable" in g
        if kind == "Catch":
            ok = ok and "not retry_matched" in g
        chk.ob("C07.R1", site + ": guarded by not unrecoverable%s" % (" and not retry_matched" if kind == "Catch" else ""), ok, g,
               key="%s | %s scan guard `%s`" % (he.qname, kind, g), where=he.where(lp), message="catchers are scanned only when no retry was issued; unrecoverable errors bypass both")
    if len(preds) == 2:
        chk.ob("C07.R1", "retrier and catcher scans use the same matching predicate", preds["Retry"] == preds["Catch"], str(preds),
               key="%s | matching predicates of the two scans differ" % he.qname, where=he.where(), message="")
        want = "error_type in error_equals or 'States.TaskFailed' in error_equals or (len(error_equals) == 1 and error_equals[0] == 'States.ALL')"
        chk.ob("C07.R1", "matching predicate: exact name, States.TaskFailed, or a lone States.ALL", preds["Retry"] == want, preds["Retry"],
               key="%s | matching predicate `%s`" % (he.qname, preds["Retry"]), where=he.where(), message="")
    # order: retry scan before catch scan; retry_matched set only next to the republish
    ok = loops["Retry"].lineno < loops["Catch"].lineno
    chk.ob("C07.R1", "retriers are scanned before catchers", ok, "", key="%s | scan order" % he.qname, where=he.where(), message="")
    sets = [x for x in name_defs(he, "retry_matched") if isinstance(x, ast.Assign) and const(x.value) is True]
    ok = len(sets) == 1
    if ok:
        blk = se.parent(sets[0])
        sib = [norm(s) for s in getattr(blk, "body", [])]
        ok = any("event_dispatcher.publish(event)" in s for s in sib)
    chk.ob("C07.R1", "retry_matched is set exactly where the retry is republished", ok, "", key="%s | retry_matched bookkeeping" % he.qname, where=he.where(), message="")


def r2(chk, ctx, p, se):
    he = p.he
    loops = _loops(p, se)
    lp = loops["Retry"]
    mi = _match_if(lp)
    if mi is None:
        return
    txt = [norm(s) for s in mi.body]
    defaults = {"interval_seconds": ("IntervalSeconds", "1"), "max_attempts": ("MaxAttempts", "3"), "backoff_rate": ("BackoffRate", "2.0")}
    rv = norm(lp.target)
    for var, (field, dv) in defaults.items():
        want = "%s = %s.get('%s', %s)" % (var, rv, field, dv)
        chk.ob("C07.R2", "%s defaults to %s" % (field, dv), want in txt, "", key="%s | %s default" % (he.qname, field), where=he.where(mi),
               message="defaults are the States Language's: IntervalSeconds 1, MaxAttempts 3, BackoffRate 2.0")
    attempt = [s for s in mi.body if isinstance(s, ast.If) and "max_attempts" in norm(s.test)]
    ok = len(attempt) == 1 and norm(attempt[0].test) == "retries < max_attempts"
    chk.ob("C07.R2", "attempt test is strict: retries < max_attempts", ok, norm(attempt[0].test) if attempt else "", key="%s | attempt test" % he.qname, where=he.where(mi),
           message="at most MaxAttempts retries; 0 means never")
    rd = [s for s in mi.body if isinstance(s, ast.Assign) and norm(s.targets[0]) == "retries"]
    ok = len(rd) == 1 and norm(rd[0].value) == "context['State'].get('RetryCount', 0)"
    chk.ob("C07.R2", "retries read from $$.State.RetryCount (default 0)", ok, "", key="%s | retry count source" % he.qname, where=he.where(mi), message="")
    if attempt:
        a = attempt[0]
        body = [norm(s) for s in a.body]
        i_t = [i for i, s in enumerate(body) if s.startswith("timeout = ")]
        i_inc = [i for i, s in enumerate(body) if s in ("retries += 1", "retries = retries + 1")]
        ok = bool(i_t) and bool(i_inc) and i_t[0] < i_inc[0]
        chk.ob("C07.R2", "delay computed from the count BEFORE it is incremented", ok, "", key="%s | delay computed after the increment" % he.qname, where=he.where(a),
               message="the k-th retry waits IntervalSeconds * BackoffRate^k with k starting at 0")
        if i_t:
            e = a.body[i_t[0]].value
            ok = (isinstance(e, ast.BinOp) and isinstance(e.op, ast.Mult) and
                  {norm(e.left), norm(e.right)} == {"interval_seconds", "backoff_rate ** retries"})
            chk.ob("C07.R2", "delay = interval_seconds * backoff_rate ** retries", ok, norm(e), key="%s | back-off formula `%s`" % (he.qname, norm(e)), where=he.where(a), message="")
        ok = "context['State']['RetryCount'] = retries" in body and "context['State']['RetryTimeout'] = timeout * 1000" in body
        chk.ob("C07.R2", "RetryCount stored after increment; RetryTimeout = delay in ms", ok, "", key="%s | stored retry fields" % he.qname, where=he.where(a), message="")
        chk.ob("C07.R2", "retry republishes the same event", any("event_dispatcher.publish(event)" in s for s in body), "", key="%s | retry republish" % he.qname, where=he.where(a), message="")
        et = [s for s in a.body if isinstance(s, ast.Assign) and norm(s.targets[0]) == "context['State']['EnteredTime']"]
        ok = len(et) == 1 and norm(et[0].value) == "datetime.fromtimestamp(time.time() + timeout, timezone.utc).astimezone().isoformat()"
        chk.ob("C07.R2", "the retried attempt's EnteredTime is now + delay (its timeout clock starts when it is re-run)", ok, norm(et[0].value) if et else "",
               key="%s | EnteredTime of the retried attempt is `%s`" % (he.qname, norm(et[0].value) if et else "unset"), where=he.where(a),
               message="the Task timeout of the re-run is computed from EnteredTime: without the delay it fires one retry interval early")
    # the three retriable handlers hand RetryTimeout to the timer
    n = 0
    for t in ("Task", "Parallel", "Map"):
        f = p.handlers.get(t)
        if f is None:
            continue
        calls = [c for c in body_nodes(f) if isinstance(c, ast.Call) and last(callname(c)) == "set_timeout"]
        ok = len(calls) == 1 and isinstance(calls[0].args[1], ast.Name)
        if ok:
            v = calls[0].args[1].id
            ds = [norm(x.value) for x in name_defs(f, v) if isinstance(x, ast.Assign)]
            ok = "context['State'].get('RetryTimeout', 0)" in ds and all(d in ("context['State'].get('RetryTimeout', 0)", "0") for d in ds)
            ok = ok and norm(calls[0].args[0]) == "asl_state_%s_delegate" % t
        n += 1
        chk.ob("C07.R2", "asl_state_%s defers its delegate by RetryTimeout (default 0)" % t, ok, "", key="%s | retry delay not honoured" % f.qname, where=f.where(),
               message="the re-run of a retried state must wait for the computed back-off")
    chk.floor("C07.R2", n, 3, "retriable state handlers")
    # back-off floor
    ok = any(isinstance(s, ast.If) and norm(s.test) == "backoff_rate < 1.0" for s in mi.body)
    chk.sample({"rule": "C07.R2", "backoff_rate_clamped_below_1": ok})


def r3(chk, ctx, p, se):
    he = p.he
    loops = _loops(p, se)
    lp = loops["Catch"]
    mi = _match_if(lp)
    if mi is None:
        return
    cv = norm(lp.target)
    res = [s for s in ast.walk(mi) if isinstance(s, ast.Assign) and norm(s.targets[0]) == "result" and isinstance(s.value, ast.Dict)]
    ok = len(res) == 1 and norm(res[0].value) == "{'Error': error_type}"
    chk.ob("C07.R3", "Error Output is a fresh {'Error': error_type}", ok, "", key="%s | Error Output literal" % he.qname, where=he.where(mi), message="")
    cause = [s for s in ast.walk(mi) if isinstance(s, ast.Assign) and norm(s.targets[0]) == "result['Cause']"]
    chk.ob("C07.R3", "Cause added when there is a message", len(cause) == 1, "", key="%s | Error Output Cause" % he.qname, where=he.where(mi), message="")
    mr = [c for c in ast.walk(mi) if isinstance(c, ast.Call) and callname(c) == "merge_result"]
    ok = len(mr) == 1 and [norm(a) for a in mr[0].args] == ["data", "context", "result", cv, "'$'"]
    chk.ob("C07.R3", "merge_result(data, context, result, catcher, '$'): catcher's ResultPath into the state's input, no OutputPath", ok, short(mr[0]) if mr else "",
           key="%s | catcher merge arguments" % he.qname, where=he.where(mi), message="")
    if mr:
        st = enclosing_stmt(se, mr[0])
        ok = isinstance(st, ast.Assign) and norm(st.targets[0]) == "event['data']"
        chk.ob("C07.R3", "merged document becomes the event data", ok, "", key="%s | catcher merge target" % he.qname, where=he.where(mi), message="")
    dd = [x for x in name_defs(he, "data") if isinstance(x, ast.Assign)]
    ok = len(dd) == 1 and norm(dd[0].value) == "event.get('data', {})"
    chk.ob("C07.R3", "data re-read from the event inside handle_error", ok, "", key="%s | data source" % he.qname, where=he.where(), message="")
    cs = [c for c in ast.walk(mi) if isinstance(c, ast.Call) and last(callname(c)) == "change_state"]
    ok = len(cs) == 1 and norm(cs[0].args[2]) == "%s.get('Next')" % cv and norm(cs[0].args[3]) == "event"
    chk.ob("C07.R3", "transition to the catcher's Next", ok, "", key="%s | catcher transition" % he.qname, where=he.where(mi), message="")
    if cs:
        st = enclosing_stmt(se, cs[0])
        ok = isinstance(st, ast.Assign) and isinstance(st.targets[0], ast.Tuple)
        nxt = None
        blk = se.parent(st)
        body = getattr(blk, "body", [])
        for i, s in enumerate(body):
            if s is st and i + 1 < len(body):
                nxt = body[i + 1]
        ok = ok and isinstance(nxt, ast.If) and norm(nxt.test) == norm(st.targets[0].elts[0]) and any("error_type = " in norm(x) for x in nxt.body) \
            and any(norm(x) == "catch_matched = True" for x in nxt.orelse)
        chk.ob("C07.R3", "a refused transition falls through to failure; otherwise catch_matched", ok, "", key="%s | change_state result handling in the catch arm" % he.qname, where=he.where(mi), message="")
    # final failure block
    fin = [n for n in he.node.body if isinstance(n, ast.If) and norm(n.test) == "not retry_matched and (not catch_matched)"]
    ok = len(fin) == 1 and any(isinstance(c, ast.Call) and callname(c) == "handle_terminal_state" for c in ast.walk(fin[0]))
    chk.ob("C07.R3", "otherwise the execution fails with E through handle_terminal_state", ok, "", key="%s | failure block" % he.qname, where=he.where(), message="")
    # the join restores raw input before handle_error
    j = p.join
    g = p.eng.cfg(j)
    hes = [c for c in body_nodes(j) if isinstance(c, ast.Call) and callname(c) == "handle_error" and norm(c.args[1]) == "error"]
    chk.ob("C07.R3", "join routes the branch's error to handle_error(state, error, cause)", len(hes) == 1, "", key="%s | error routing" % j.qname, where=j.where(), message="")
    if hes:
        rs = [s for s in body_nodes(j) if isinstance(s, ast.Assign) and norm(s.targets[0]) == "event['data']" and norm(s.value) == "data"]
        dd = [x for x in name_defs(j, "data") if isinstance(x, ast.Assign)]
        ok = bool(rs) and any(norm(x.value) == "branch_info['Input']" for x in dd)
        ok = ok and any(g.dominates(g.node_of(r), g.containing_stmt_node(hes[0], se)) for r in rs)
        chk.ob("C07.R3", "join restores the fan-out state's saved raw input before handling its error", ok, "", key="%s | raw input not restored before handle_error" % j.qname, where=j.where(hes[0]),
               message="the catcher's ResultPath must be applied to the Parallel/Map state's original input")
        # retry counters restored from the branch record
        for f_ in ("RetryCount", "RetryTimeout"):
            ok = any(isinstance(s, ast.Assign) and norm(s.targets[0]) == "context_state['%s']" % f_ and g.dominates(g.node_of(se.parent(s)), g.containing_stmt_node(hes[0], se)) for s in body_nodes(j))
            chk.ob("C07.R3", "join restores %s of the fan-out state before handling its error" % f_, ok, "", key="%s | %s not restored before handle_error" % (j.qname, f_), where=j.where(hes[0]), message="")


def r4(chk, ctx, p, se):
    cs = se.func("StateEngine.change_state")
    g = CFG(cs.node)
    pubs = [c for c in body_nodes(cs) if isinstance(c, ast.Call) and last(callname(c)) == "publish"]
    for f_ in ("RetryCount", "RetryTimeout"):
        dels = [s for s in body_nodes(cs) if isinstance(s, ast.Delete) and any(norm(t) == "state['%s']" % f_ for t in s.targets)]
        ok = len(dels) == 1 and len(pubs) == 1
        if ok:
            gi = enclosing_ifs(se, dels[0], cs.node)
            ok = len(gi) == 1 and norm(gi[0][0].test) == "'%s' in state" % f_ and g.dominates(g.node_of(gi[0][0]), g.containing_stmt_node(pubs[0], se))
        chk.ob("C07.R4", "change_state deletes %s before publishing the next state" % f_, ok, "", key="StateEngine.change_state | %s survives the transition" % f_, where=cs.where(),
               message="retry counters must not leak from one state to the next")
    n = 0
    for q, f in sorted(p.deferred_targets.items()):
        if not (f.name.endswith("Parallel_delegate") or f.name.endswith("Map_delegate")):
            continue
        n += 1
        g = p.eng.cfg(f)
        loop_pubs = [c for c in body_nodes(f) if isinstance(c, ast.Call) and last(callname(c)) == "publish" and p._in_loop(f, c)]
        for f_ in ("RetryCount", "RetryTimeout"):
            removed = []
            for s in body_nodes(f):
                if isinstance(s, ast.Delete) and any(norm(t).endswith("['%s']" % f_) and "Branch" not in norm(t) for t in s.targets):
                    removed.append(s)
                if isinstance(s, ast.Call) and isinstance(s.func, ast.Attribute) and s.func.attr == "pop" and s.args and const(s.args[0]) == f_ and "Branch" not in norm(s.func.value):
                    removed.append(enclosing_stmt(se, s))
            ok = bool(removed) and bool(loop_pubs)
            if ok:
                # removal happens on every path on which the field is present: guarded only by `field in context_state`
                r = removed[0]
                gi = enclosing_ifs(se, r, f.node)
                inner = [i for i, arm in gi if "'%s' in" % f_ in norm(i.test)]
                anchor = g.node_of(inner[0]) if inner else g.node_of(r)
                ok = all(g.dominates(anchor, g.containing_stmt_node(c, se)) for c in loop_pubs)
                # the only condition may be presence of the field: every batch / every entry must strip it
                ok = ok and all(isinstance(i.test, ast.Compare) and len(i.test.ops) == 1 and isinstance(i.test.ops[0], ast.In) and const(i.test.left) == f_ for i in inner)
                ok = ok and all(any(i is j for j in inner) for i, arm in gi)
            chk.ob("C07.R4", "%s removes %s from the context before publishing to the branches" % (f.name, f_), ok, "",
                   key="%s | %s stays in the context published to the branches" % (f.qname, f_), where=f.where(),
                   message="a retried Parallel/Map would start its branch states with its own retry count: their retriers get fewer attempts, wrong back-off, and StateEntered is suppressed")
            saved = any(isinstance(s, ast.Assign) and norm(s.targets[0]) == "branch_info['%s']" % f_ for s in body_nodes(f))
            chk.ob("C07.R4", "%s saves %s in the branch record" % (f.name, f_), saved, "", key="%s | %s not carried in the branch record" % (f.qname, f_), where=f.where(), message="")
    chk.floor("C07.R4", n, 2, "fan-out delegates")


def r5(chk, ctx, p, se):
    he = p.he
    d = [x for x in name_defs(he, "unrecoverable") if isinstance(x, ast.Assign)]
    ok = len(d) == 1 and isinstance(d[0].value, ast.BoolOp) and isinstance(d[0].value.op, ast.Or)
    got = set()
    if ok:
        for v in d[0].value.values:
            if isinstance(v, ast.Compare) and len(v.ops) == 1 and isinstance(v.ops[0], ast.Eq) and norm(v.left) == "error_type" and isinstance(v.comparators[0], ast.Constant):
                got.add(v.comparators[0].value)
            else:
                ok = False
    chk.ob("C07.R5", "unrecoverable = error_type is one of %s" % sorted(UNRECOVERABLE), ok and got == UNRECOVERABLE, str(sorted(got)),
           key="%s | unrecoverable set %s" % (he.qname, sorted(got)), where=he.where(),
           message="runtime errors, execution timeout and termination must not be retried or caught (not even by States.ALL)")


def r6(chk, ctx, p, se):
    """an execution timeout is recognised by identity of the delay with the clamped execution deadline (shared with C08.R3)"""
    for qn in (".asl_state_Task_delegate.on_response", ".asl_state_Wait.on_timeout"):
        f = p.deferred_targets[p.notify.qname + qn]
        arms = [n for n in ast.walk(f.node) if isinstance(n, ast.If) and any(isinstance(s, ast.Assign) and "'States.ExecutionTimeout'" in norm(s) for s in n.body)]
        ok = len(arms) == 1 and norm(arms[0].test) == "timeout == t1"
        chk.ob("C07.R5", "%s: States.ExecutionTimeout is selected by `timeout == t1`" % f.name, ok, norm(arms[0].test) if arms else "",
               key="%s | execution-timeout arm selected by `%s`" % (f.qname, norm(arms[0].test) if arms else "nothing"), where=f.where(),
               message="when both deadlines are clamped to 0 (late or redelivered event) or are equal, any other test reports an ordinary, catchable States.Timeout")


def run(chk, ctx):
    p = ctx.protocol()
    se = ctx.mod("state_engine")
    r6(chk, ctx, p, se)
    r1(chk, ctx, p, se)
    r2(chk, ctx, p, se)
    r3(chk, ctx, p, se)
    r4(chk, ctx, p, se)
    r5(chk, ctx, p, se)
    from . import round3
    round3.tidy_up_callers(chk, ctx)            # a retry inside a branch leaves its siblings alone
    from . import c06
    c06.r2(chk, ctx)                                         # a late sibling failure after the state was caught is Task.Terminated, so the catcher runs once
    from . import round4
    round4.batch_reentry_keeps_retry(chk, ctx)
    round4.teardown_scoped_to_terminated_groups(chk, ctx)   # 'the state is re-run': retrying a nested fan-out must not cancel the enclosing one
    from . import round5
    round5.join_drops_branch_retry_info(chk, ctx)
    round5.placeholder_not_visible_to_error_handling(chk, ctx)
    round5.retrier_counts_are_per_retrier(chk, ctx)
    chk.assume("one retry counter per state (the engine does not count per retrier; the property's wording does not pin this down)")
