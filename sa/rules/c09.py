"""C09 - execution history is a gap-free, ordered, faithful log (structural clauses)."""
import ast

from ..core import AnalysisError, dotted, callname, last, const, subscript_key, short, norm, walk_no_nested_incl
from ..cfg import CFG
from ..strenv import StrEnv, TOP
from ..j2119 import Schema
from ..util import body_nodes, dict_literal_value, dict_keys, enclosing_ifs

EXPLANATION = (
    "Static analysis of the current /repo source. Decides: (R1) only update_execution_history appends to a history list, once "
    "per call, numbering id = len(history)+1 and previousEventId = id-1, and both REST front ends only read it and implement "
    "reverseOrder as the exact reverse; (R2) the append is dominated by the EXPRESS early return and records/histories are "
    "created only for STANDARD machines; (R3) every event-type string that can reach update_execution_history at any of its call "
    "sites (guard-sensitive enumeration of the string-valued locals, parameter domains propagated over the call graph to a "
    "fixpoint) is a key of the log_dict table - an unknown type is silently dropped and would punch a hole in the log; (R4) "
    "ExecutionStarted is logged by start_execution before any StateEntered and StateEntered suppression is guarded exactly by "
    "RetryCount / Map re-entry; (R5) no history call sits in an arm selected by Task.Terminated. Not decided: timestamps, and "
    "'nothing appended after the end' under arbitrary schedules.")
RULE_TEXT = "obligation = one call site x possible event-type string, or one structural site; non-trivial = distinct (rule, site)"

HIST = "StateEngine.update_execution_history"


def hist_sites(ctx):
    """[(module, Func, call)] every resolved call of update_execution_history"""
    out = []
    res = ctx.res
    for name in ("state_engine", "task_dispatcher", "rest_api", "rest_api_asyncio", "event_dispatcher"):
        m = ctx.mod(name)
        for q, f in m.funcs.items():
            for n in body_nodes(f):
                if isinstance(n, ast.Call) and last(callname(n)) == "update_execution_history":
                    t = res.resolve(n, f)
                    if t is not None and t.qname == HIST:
                        out.append((m, f, n))
    return out


def update_type_arg(call):
    for k in call.keywords:
        if k.arg == "update_type":
            return k.value
    return call.args[2] if len(call.args) > 2 else None


def r1(chk, ctx):
    se = ctx.mod("state_engine")
    uh = se.func(HIST)
    # all appends on something derived from execution_history
    appenders = []
    for name in ("state_engine", "task_dispatcher", "rest_api", "rest_api_asyncio"):
        m = ctx.mod(name)
        for q, f in m.funcs.items():
            hist_names = set()
            for n in body_nodes(f):
                if isinstance(n, ast.Assign) and len(n.targets) == 1 and isinstance(n.targets[0], ast.Name):
                    v = n.value
                    src = None
                    if isinstance(v, ast.Subscript):
                        src = dotted(v.value)
                    elif isinstance(v, ast.Call) and isinstance(v.func, ast.Attribute) and v.func.attr in ("get", "get_cached_view"):
                        src = dotted(v.func.value)
                    if src and last(src) == "execution_history":
                        hist_names.add(n.targets[0].id)
            for n in body_nodes(f):
                if isinstance(n, ast.Call) and isinstance(n.func, ast.Attribute) and n.func.attr in ("append", "insert", "extend", "pop", "remove", "sort", "reverse", "clear"):
                    recv = n.func.value
                    if (isinstance(recv, ast.Name) and recv.id in hist_names) or (isinstance(recv, ast.Subscript) and last(dotted(recv.value) or "") == "execution_history"):
                        appenders.append((m, f, n))
    for m, f, n in appenders:
        chk.ob("C09.R1", "%s: %s" % (f.qname, short(n, 50)), f.qname == HIST and n.func.attr == "append", "",
               key="%s | mutates a history list (%s)" % (f.qname, n.func.attr), where=m.line(n),
               message="only update_execution_history may append to an execution's history, and nothing may reorder or remove events")
    own = [a for a in appenders if a[1].qname == HIST]
    chk.ob("C09.R1", "exactly one append in update_execution_history", len(own) == 1, "", key="%s | number of appends: %d" % (HIST, len(own)),
           where=uh.where(), message="one event per call")
    if len(own) != 1:
        return
    app = own[0][2]
    # not in a loop
    p = se.parent(app)
    inloop = False
    while p is not None and p is not uh.node:
        if isinstance(p, (ast.For, ast.While)):
            inloop = True
        p = se.parent(p)
    chk.ob("C09.R1", "append is not inside a loop", not inloop, "", key="%s | append inside a loop" % HIST, where=se.line(app), message="")
    ev = app.args[0] if app.args else None
    idv = dict_literal_value(ev, "id")
    prev = dict_literal_value(ev, "previousEventId")
    typ = dict_literal_value(ev, "type")
    ok = isinstance(idv, ast.Name) and norm(prev) == "%s - 1" % idv.id
    chk.ob("C09.R1", "event literal: id variable, previousEventId = id - 1", ok, short(ev) if ev is not None else "",
           key="%s | event id/previousEventId shape" % HIST, where=se.line(app), message="events must be chained id-1")
    if isinstance(idv, ast.Name):
        defs = [n for n in body_nodes(uh) if isinstance(n, ast.Assign) and any(isinstance(t, ast.Name) and t.id == idv.id for t in n.targets)]
        recv = norm(app.func.value)
        ok = len(defs) == 1 and norm(defs[0].value) in ("len(%s) + 1" % recv, "1 + len(%s)" % recv)
        chk.ob("C09.R1", "id = len(history) + 1 of the list that is appended to", ok, norm(defs[0].value) if defs else "",
               key="%s | id is not len(history)+1" % HIST, where=se.line(defs[0]) if defs else uh.where(), message="ids must be 1..n without gaps")
    ok = isinstance(typ, ast.Name) and typ.id == uh.node.args.args[3].arg
    chk.ob("C09.R1", "event 'type' is the update_type parameter", ok, "", key="%s | event type field" % HIST, where=se.line(app), message="")
    chk.ob("C09.R1", "event carries a timestamp", dict_literal_value(ev, "timestamp") is not None, "", key="%s | no timestamp" % HIST, where=se.line(app), message="")
    # REST readers
    for name in ("rest_api", "rest_api_asyncio"):
        m = ctx.mod(name)
        fs = [f for q, f in m.funcs.items() if f.name == "aws_api_GetExecutionHistory"]
        if not fs:
            raise AnalysisError("anchor not found: aws_api_GetExecutionHistory in " + name)
        f = fs[0]
        ifs = [n for n in body_nodes(f) if isinstance(n, ast.If) and isinstance(n.test, ast.Name) and "reverse" in n.test.id]
        ok = False
        if ifs:
            i = ifs[0]
            def sl(body):
                for s in body:
                    if isinstance(s, ast.Assign) and isinstance(s.value, ast.Subscript) and isinstance(s.value.slice, ast.Slice):
                        return s.value.slice
                return None
            a, b = sl(i.body), sl(i.orelse)
            ok = (a is not None and b is not None and a.lower is None and a.upper is None and isinstance(a.step, ast.UnaryOp)
                  and isinstance(a.step.op, ast.USub) and const(a.step.operand) == 1 and b.lower is None and b.upper is None and b.step is None)
        chk.ob("C09.R1", "%s: reverseOrder is history[::-1] else history[:]" % f.qname, ok, "",
               key="%s | reverseOrder slicing" % f.qname, where=f.where(), message="reverseOrder must return exactly the reverse list")
        # the flag tested is read from the request parameter reverseOrder
        defs = [n for n in body_nodes(f) if isinstance(n, ast.Assign) and ifs and any(isinstance(t, ast.Name) and t.id == ifs[0].test.id for t in n.targets)]
        ok = bool(defs) and "reverseOrder" in norm(defs[0].value)
        chk.ob("C09.R1", "%s: flag comes from params.reverseOrder" % f.qname, ok, "", key="%s | reverseOrder flag source" % f.qname, where=f.where(), message="")


def r2(chk, ctx):
    se = ctx.mod("state_engine")
    uh = se.func(HIST)
    g = CFG(uh.node)
    apps = [n for n in body_nodes(uh) if isinstance(n, ast.Call) and isinstance(n.func, ast.Attribute) and n.func.attr == "append"]
    gates = [n for n in body_nodes(uh) if isinstance(n, ast.If) and "EXPRESS" in norm(n.test) and any(isinstance(s, ast.Return) for s in n.body)]
    chk.ob("C09.R2", "EXPRESS early return exists", len(gates) >= 1, "", key="%s | no EXPRESS early return" % HIST, where=uh.where(),
           message="EXPRESS executions must not store history")
    if gates and apps:
        gn = g.node_of(gates[0])
        ret = [s for s in gates[0].body if isinstance(s, ast.Return)][0]
        for a in apps:
            an = g.containing_stmt_node(a, se)
            ok = g.dominates(gn, an) and not g.paths_avoiding(g.entry, an, {gn})
            chk.ob("C09.R2", "append dominated by the EXPRESS test", ok, "", key="%s | append not dominated by EXPRESS gate" % HIST, where=se.line(a), message="")
        # stores into executions / execution_history in this function also after the gate
        for n in body_nodes(uh):
            if isinstance(n, ast.Assign) and any(isinstance(t, ast.Subscript) and last(dotted(t.value) or "") in ("executions", "execution_history") for t in n.targets):
                chk.ob("C09.R2", "record re-creation dominated by the EXPRESS test", g.dominates(gn, g.node_of(n)), "",
                       key="%s | store not dominated by EXPRESS gate" % HIST, where=se.line(n), message="")
        t = gates[0].test
        ok = isinstance(t, ast.Compare) and isinstance(t.ops[0], ast.Eq)
        chk.ob("C09.R2", "gate compares the machine type for equality with EXPRESS", ok, norm(t), key="%s | EXPRESS gate shape" % HIST, where=se.line(gates[0]), message="")
    st = se.func("StateEngine.start_execution")
    n_st = 0
    for n in body_nodes(st):
        if isinstance(n, ast.Assign) and any(isinstance(t, ast.Subscript) and last(dotted(t.value) or "") in ("executions", "execution_history") for t in n.targets):
            n_st += 1
            gi = enclosing_ifs(se, n, st.node)
            ok = any(arm == "body" and "STANDARD" in norm(i.test) and isinstance(i.test, ast.Compare) and isinstance(i.test.ops[0], ast.Eq) for i, arm in gi)
            chk.ob("C09.R2", "start_execution: %s only for STANDARD" % short(n, 40), ok, "", key="StateEngine.start_execution | store outside the STANDARD arm",
                   where=se.line(n), message="EXPRESS executions store no record and no history")
    chk.floor("C09.R2", n_st, 2, "record/history creations in start_execution")


def _domains(ctx, p):
    """per-function initial domains of `state_type`"""
    types = list(Schema(ctx.repo).types)
    return types


def r3(chk, ctx):
    se = ctx.mod("state_engine")
    td = ctx.mod("task_dispatcher")
    uh = se.func(HIST)
    table = None
    for n in body_nodes(uh):
        if isinstance(n, ast.Assign) and isinstance(n.value, ast.Dict) and len(n.value.keys) > 20:
            table = set(dict_keys(n.value))
            tname = n.targets[0].id if isinstance(n.targets[0], ast.Name) else None
    if not table:
        raise AnalysisError("C09.R3: the event-type table (log_dict) was not found in update_execution_history")
    chk.floor("C09.R3", len(table), 40, "keys of the event-type table")
    # unknown types are silently dropped: confirm the shape the rule rests on
    drops = [n for n in body_nodes(uh) if isinstance(n, ast.If) and isinstance(n.test, ast.UnaryOp) and any(isinstance(s, ast.Return) for s in n.body)]
    chk.sample({"rule": "C09.R3", "table_keys": len(table), "silent_drop_guard": [norm(d.test) for d in drops]})
    types = _domains(ctx, None)
    p = ctx.protocol()
    notify = p.notify
    FANOUT = [t for t in types if t in ("Map", "Parallel")]
    # who pushes Branch entries? (justifies parent Type in {Map, Parallel})
    pushers = set()
    for q, f in se.funcs.items():
        for n in body_nodes(f):
            if isinstance(n, ast.Call) and isinstance(n.func, ast.Attribute) and n.func.attr == "append" and "Branch" in norm(n.func.value):
                pushers.add(q)
    ok = pushers and all(any(q.startswith(notify.qname + ".asl_state_%s_delegate" % t) for t in FANOUT) for q in pushers)
    chk.ob("C09.R3", "only the fan-out delegates push a Branch entry", bool(ok), sorted(pushers), key="Branch stack pushed outside the Map/Parallel delegates: %s" % sorted(pushers),
           where=se.rel, message="the join derives the parent's Type domain {Map, Parallel} from this")

    def handler_type(f):
        x = f
        while x is not None:
            if x.parent is notify and x.name.startswith("asl_state_") and x is not p.join:
                t = x.name[len("asl_state_"):]
                if t.endswith("_delegate"):
                    t = t[:-len("_delegate")]
                return t
            x = x.parent
        return None

    PARAM_FUNCS = {"StateEngine.change_state": 1, "StateEngine.end_execution": 1, p.ht.qname: 0, p.join.qname: 0}
    dom = {q: set() for q in PARAM_FUNCS}

    def make_env(f):
        ht = handler_type(f)
        domains = {}
        src = None
        if ht is not None:
            domains = {"state_type": [ht]}
        elif f.qname in PARAM_FUNCS:
            if not dom[f.qname]:
                return None
            domains = {"state_type": sorted(dom[f.qname], key=str)}
        if f is p.join:
            def src(e):
                s = norm(e)
                return FANOUT if s in ("state['Type']", "state.get('Type')") else None
        elif f is p.he:
            def src(e):
                s = norm(e)
                return types + [None] if s in ("state['Type']", "state.get('Type')") else None
        elif f is notify:
            def src(e):
                s = norm(e)
                return types if s in ("state['Type']", "state.get('Type')") else None
        try:
            return StrEnv(f.node, domains, src)
        except RuntimeError:
            raise AnalysisError("C09.R3: string environment explosion in " + f.qname)

    res = ctx.res
    funcs = [f for f in se.funcs.values()]
    for _ in range(6):
        changed = False
        for f in funcs:
            calls = []
            for n in body_nodes(f):
                if isinstance(n, ast.Call):
                    t = res.resolve(n, f)
                    if t is not None and t.qname in PARAM_FUNCS:
                        calls.append((n, t))
            if not calls:
                continue
            env = make_env(f)
            if env is None:
                continue
            for n, t in calls:
                idx = PARAM_FUNCS[t.qname]
                arg = n.args[idx] if len(n.args) > idx else None
                if arg is None:
                    continue
                nid = env.cfg.containing_stmt_node(n, se)
                vals = env.values_at(arg, nid)
                for v in vals:
                    if v == "" or v is None:
                        continue
                    if v == TOP:
                        v = TOP
                    if v not in dom[t.qname]:
                        dom[t.qname].add(v)
                        changed = True
        if not changed:
            break
    chk.sample({"rule": "C09.R3", "param_domains": {k: sorted(map(str, v)) for k, v in dom.items()}})
    sites = hist_sites(ctx)
    chk.floor("C09.R3", len(sites), 17, "update_execution_history call sites")
    envs = {}
    missing = {}
    nvals = 0
    for m, f, call in sites:
        arg = update_type_arg(call)
        if arg is None:
            chk.ob("C09.R3", "%s: update type argument present" % f.qname, False, "", key="%s | call without update type" % f.qname, where=m.line(call), message="")
            continue
        if f.qname not in envs:
            envs[f.qname] = make_env(f) if m is se else StrEnv(f.node, {}, None)
        env = envs[f.qname]
        if env is None:
            chk.notes.append("C09.R3: %s is never called with a resolvable state_type; call site skipped" % f.qname)
            continue
        nid = env.cfg.containing_stmt_node(call, m)
        vals = env.values_at(arg, nid)
        if not vals:
            chk.notes.append("C09.R3: call site %s unreachable in the abstract semantics" % m.line(call))
        for v in sorted(vals, key=str):
            nvals += 1
            if v == TOP:
                chk.ob("C09.R3", "%s @ %s resolvable" % (f.qname, short(arg, 40)), False, "",
                       key="%s | update type `%s` not statically resolvable" % (f.qname, norm(arg)), where=m.line(call),
                       message="the event type requested here cannot be enumerated; it may fall outside the table and be dropped silently")
                continue
            if not isinstance(v, str):
                continue
            ok = v in table
            chk.ob("C09.R3", "%s requests %s" % (f.qname, v), ok, "", nontrivial=True,
                   key="event type %s can be requested but is not in the history event table" % v, where=m.line(call),
                   message="update_execution_history silently drops unknown types (`if not level_set: return`): %s requested in %s would leave a hole in the log" % (v, f.qname))
    chk.extra["event_type_instances"] = nvals


def r4(chk, ctx):
    se = ctx.mod("state_engine")
    p = ctx.protocol()
    st = se.func("StateEngine.start_execution")
    res = ctx.res
    started = [n for n in body_nodes(st) if isinstance(n, ast.Call) and last(callname(n)) == "update_execution_history" and const(update_type_arg(n)) == "ExecutionStarted"]
    chk.ob("C09.R4", "start_execution logs ExecutionStarted exactly once", len(started) == 1, "", key="StateEngine.start_execution | ExecutionStarted count %d" % len(started),
           where=st.where(), message="the log must begin with ExecutionStarted")
    if started:
        d = started[0].args[3] if len(started[0].args) > 3 else None
        ok = d is not None and "input" in dict_keys(d)
        chk.ob("C09.R4", "ExecutionStarted carries the input", ok, "", key="StateEngine.start_execution | ExecutionStarted without input", where=se.line(started[0]), message="")
        # creation of the empty history precedes it
        g = CFG(st.node)
        creates = [n for n in body_nodes(st) if isinstance(n, ast.Assign) and any(isinstance(t, ast.Subscript) and last(dotted(t.value) or "") == "execution_history" for t in n.targets)]
        for c in creates:
            ok = isinstance(c.value, ast.List) and not c.value.elts
            chk.ob("C09.R4", "history created empty", ok, "", key="StateEngine.start_execution | history not created empty", where=se.line(c), message="")
            before = g.containing_stmt_node(started[0], se) in g.reachable_from(g.node_of(c)) and g.node_of(c) not in g.reachable_from(g.containing_stmt_node(started[0], se))
            chk.ob("C09.R4", "history creation precedes ExecutionStarted", before, "", key="StateEngine.start_execution | history created after ExecutionStarted", where=se.line(c), message="")
    # in notify: the start_execution call dominates the StateEntered update
    notify = p.notify
    g = p.eng.cfg(notify)
    entered = [n for n in body_nodes(notify) if isinstance(n, ast.Call) and last(callname(n)) == "update_execution_history" and "StateEntered" in norm(update_type_arg(n))]
    chk.ob("C09.R4", "notify logs StateEntered at exactly one site", len(entered) == 1, "", key="%s | StateEntered sites: %d" % (notify.qname, len(entered)), where=notify.where(), message="")
    starts = [n for n in body_nodes(notify) if isinstance(n, ast.Call) and last(callname(n)) == "start_execution"]
    if entered and starts:
        e = entered[0]
        sn, en = g.containing_stmt_node(starts[0], se), g.containing_stmt_node(e, se)
        chk.ob("C09.R4", "start_execution precedes StateEntered on every path that starts", en in g.reachable_from(sn) and sn not in g.reachable_from(en), "",
               key="%s | StateEntered can precede start_execution" % notify.qname, where=se.line(e), message="")
        gi = enclosing_ifs(se, e, notify.node)
        conds = " and ".join(norm(i.test) for i, arm in gi if arm == "body")
        ok = len(gi) == 1 and "RetryCount" in conds and ("reentered_map" in conds or "get_start_index" in conds)
        chk.ob("C09.R4", "StateEntered suppressed exactly on retry or Map re-entry", ok, conds, key="%s | StateEntered guard: %s" % (notify.qname, conds or "none"),
               where=se.line(e), message="every entered state logs StateEntered unless it is a retry or a MaxConcurrency re-entry")
        d = e.args[3] if len(e.args) > 3 else None
        ok = d is not None and set(dict_keys(d)) >= {"input", "name"}
        chk.ob("C09.R4", "StateEntered carries input and name", ok, "", key="%s | StateEntered details" % notify.qname, where=se.line(e), message="")
        # the gate (terminated branch) dominates it
        gate = [n for n in body_nodes(notify) if isinstance(n, ast.Call) and last(callname(n)) == "branch_has_terminated"]
        if gate:
            chk.ob("C09.R4", "termination gate dominates StateEntered", g.dominates(g.containing_stmt_node(gate[0], se), en), "",
                   key="%s | StateEntered not dominated by the termination gate" % notify.qname, where=se.line(e), message="events of terminated branches must add no history")


def r5(chk, ctx):
    """no history call in an arm selected by Task.Terminated (C06: a cancelled sibling adds no history)"""
    n_sites = 0
    for m, f, call in hist_sites(ctx):
        n_sites += 1
        bad = None
        for i, arm in enclosing_ifs(m, call, f.node):
            for c in ast.walk(i.test):
                if isinstance(c, ast.Compare) and len(c.ops) == 1 and any(const(x) == "Task.Terminated" for x in [c.left] + c.comparators):
                    eq = isinstance(c.ops[0], (ast.Eq, ast.Is))
                    # arm selected by equality => body; by inequality => orelse
                    neg = _negated(i.test, c)
                    selected = (arm == "body" and eq and not neg) or (arm == "orelse" and ((not eq) or neg) and _sole(i.test, c))
                    if selected:
                        bad = i
        chk.ob("C09.R5", "%s: %s not selected by Task.Terminated" % (f.qname, short(update_type_arg(call) or call, 30)), bad is None, "",
               key="%s | history update in an arm selected by Task.Terminated" % f.qname, where=m.line(call),
               message="Task.Terminated only arises after the fan-out has failed (possibly after the execution ended): logging there appends after the terminal event")


def _negated(test, cmp):
    """is cmp under a `not` in test?"""
    for n in ast.walk(test):
        if isinstance(n, ast.UnaryOp) and isinstance(n.op, ast.Not) and any(x is cmp for x in ast.walk(n.operand)):
            return True
    return False


def _sole(test, cmp):
    return test is cmp or (isinstance(test, ast.UnaryOp) and test.operand is cmp)


def run(chk, ctx):
    r1(chk, ctx)
    r2(chk, ctx)
    r3(chk, ctx)
    r4(chk, ctx)
    # StateEntered is suppressed whenever $$.State.RetryCount is set: the retry counters must therefore never
    # travel from a retried state into its successor or into the branch states of a retried fan-out (C07.R4)
    from . import c07
    c07.r4(chk, ctx, ctx.protocol(), ctx.mod("state_engine"))
    r5(chk, ctx)
    from . import c02, c05, c06
    c02.r3(chk, ctx)                                   # the terminal event agrees with the record (one status, one terminal event)
    c05.r2(chk, ctx, ctx.protocol(), ctx.mod("state_engine"))   # join state deleted early => late events append after the end
    c06.r3(chk, ctx, ctx.protocol(), ctx.mod("state_engine"))   # gate dominates every history update in notify
    from . import round3
    round3.start_resets_record(chk, ctx)
    from . import c11, c20
    c11.r1(chk, ctx)                         # what is recorded is what the caller handed in (input/output texts are JSON texts)
    c06.r4(chk, ctx, ctx.protocol(), ctx.mod('state_engine'))   # a cancelled Task's late reply appends nothing after the terminal event
    c20.r5(chk, ctx, ctx.mod('store'))       # a re-created history replaces the old list in every store kind
    chk.assume("state Types range over the J2119 schema's list (C18.R1 checks the engine has a handler for each)")
    chk.assume("a handler asl_state_X (and its delegate / nested callbacks) only runs with state_type == X (prefix dispatch)")
