"""E12: obligations, findings, known-findings matching, evidence, exit codes."""
import json
import os
import sys
import time

VERIF = os.path.dirname(os.path.dirname(os.path.abspath(__file__)))


def _load_known():
    p = os.path.join(VERIF, "known_findings.json")
    if not os.path.exists(p):
        return []
    with open(p) as f:
        return json.load(f).get("findings", [])


class Check:
    """One run of one property's rules."""

    def __init__(self, prop, tier, repo, seed=0):
        self.prop, self.tier, self.repo, self.seed = prop, tier, repo, seed
        self.t0 = time.time()
        self.obligations = []      # dict(rule, site, ok, detail, nontrivial)
        self.findings = []         # dict(rule, key, where, message, path)
        self.samples = []
        self.assumptions = []
        self.notes = []
        self.rules_run = {}
        self.floors = {}
        self.floor_failures = []
        self.extra = {}

    # -- recording
    def ob(self, rule, site, ok, detail="", nontrivial=True, key=None, where=None, message=None, path=None):
        """Record one discharged/failed obligation; a failed one becomes a finding."""
        self.obligations.append({"rule": rule, "site": site, "ok": bool(ok), "detail": detail, "nontrivial": nontrivial})
        self.rules_run[rule] = self.rules_run.get(rule, 0) + 1
        if not ok:
            self.finding(rule, key or site, where or site, message or detail, path)
        return ok

    def finding(self, rule, key, where, message, path=None):
        k = " ".join(str(key).split())
        for f in self.findings:
            if f["rule"] == rule and f["key"] == k:
                return
        self.findings.append({"rule": rule, "key": k, "where": where, "message": message, "path": path})

    def sample(self, s):
        if len(self.samples) < 40:
            self.samples.append(s)

    def assume(self, text):
        if text not in self.assumptions:
            self.assumptions.append(text)

    def floor(self, rule, count, minimum, what):
        """vacuity guard: fewer instances than confirmed by hand => the analysis is broken"""
        self.floors[rule] = {"count": count, "floor": minimum, "what": what}
        if count < minimum:
            self.floor_failures.append("%s: only %d %s found, floor is %d (rule would pass vacuously)" % (rule, count, what, minimum))

    # -- finishing
    def finish(self, explanation, rule_text, level="other"):
        known = _load_known()
        open_known = [k for k in known if k.get("status") == "open" and (self.prop == k.get("property") or self.prop in k.get("properties", []))]
        violations, known_hits = [], []
        for f in self.findings:
            hit = None
            for k in open_known:
                if k.get("rule") == f["rule"] and " ".join(k.get("key", "").split()) == f["key"]:
                    hit = k
                    break
            (known_hits if hit else violations).append((f, hit))
        if os.environ.get("VERIF_DUMP_KEYS") == "1":
            for f in self.findings:
                print("KEY\t%s | %s" % (f["rule"], f["key"]))
        outdir = os.path.join(VERIF, "evidence")
        os.makedirs(os.path.join(outdir, "violations"), exist_ok=True)
        lines = []
        for f, k in known_hits:
            lines.append("KNOWN-FINDING: property=%s %s [%s | %s] %s" % (self.prop, k.get("id", ""), f["rule"], f["key"], k.get("what", f["message"])))
        not_repro = [k for k in open_known if not any(h is k for _, h in known_hits)]
        for k in not_repro:
            # only mention entries whose rule ran in this property's check
            if k.get("rule") in self.rules_run or any(k.get("rule") == o["rule"] for o in self.obligations):
                lines.append("note: known finding %s (%s) not reproduced on this tree" % (k.get("id", ""), k.get("rule")))
        vpaths = []
        for i, (f, _) in enumerate(violations):
            rp = os.path.join(outdir, "violations", "%s-%d.json" % (self.prop, i))
            with open(rp, "w") as fh:
                json.dump({"property": self.prop, "rule": f["rule"], "key": f["key"], "where": f["where"],
                           "message": f["message"], "path": f["path"], "tier": self.tier,
                           "repo": self.repo.root}, fh, indent=1)
            vpaths.append(rp)
            lines.append("VIOLATION property=%s replay=%s" % (self.prop, rp))
            lines.append("  rule=%s at %s: %s" % (f["rule"], f["where"], f["message"]))
            lines.append("  construct: %s" % f["key"])
            if f["path"]:
                lines.append("  path: " + " -> ".join(f["path"][-12:]))
        n_ob = len(self.obligations)
        n_ok = sum(1 for o in self.obligations if o["ok"])
        distinct = len({(o["rule"], o["site"]) for o in self.obligations if o["nontrivial"]})
        ev = {
            "property_id": self.prop,
            "tier": self.tier,
            "seed": self.seed,
            "level": level,
            "coverage": {
                "explanation": explanation,
                "obligations": n_ob,
                "discharged": n_ok,
                "evaluations": max(n_ob, 1),
                "distinct_nontrivial": distinct,
                "rule": rule_text,
                "samples": self.samples[:40] or [o for o in self.obligations[:10]],
                "rules": self.rules_run,
                "floors": self.floors,
                "files": self.repo.digests(),
                "known_findings_reproduced": [k.get("id", k.get("key")) for _, k in known_hits],
                "findings": [{"rule": f["rule"], "key": f["key"], "where": f["where"], "known": bool(k)} for f, k in known_hits + violations],
                "notes": self.notes[:40],
                "repo_root": self.repo.root,
                "exhaustive": True,
            },
            "assumptions": self.assumptions,
            "wall_s": round(time.time() - self.t0, 3),
            "violations": len(violations),
        }
        ev["coverage"].update(self.extra)
        if os.environ.get("VERIF_NO_EVIDENCE") != "1":
            with open(os.path.join(outdir, self.prop + ".json"), "w") as fh:
                json.dump(ev, fh, indent=1, default=str)
        print("%s %s: %d obligations over %d rules, %d discharged, %d known finding(s), %d violation(s) [%.2fs]" % (
            self.prop, self.tier, n_ob, len(self.rules_run), n_ok, len(known_hits), len(violations), time.time() - self.t0))
        for l in lines:
            print(l)
        for ff in self.floor_failures:
            print("ANALYSIS-ERROR property=%s %s" % (self.prop, ff))
        if violations:
            return 1
        return 2 if self.floor_failures else 0
