"""E14: decision tables — a control-flow-insensitive normal form of statement sequences, and equivalence of two of them.

A statement sequence is turned into the set of its paths through the if/else structure.  Each path carries
  * the (boolean formula, polarity) literals it took, every formula built from normalised *atoms*,
  * the trace of its effects in order: calls that are not known to be pure (`$rK = f(..)`), constructions of fresh mutable
    objects (`$oK = {..}`), stores to attributes / subscripts, deletions, loops and try blocks (as nested tables), with
    every local temporary substituted by its definition and every call result / fresh object given a canonical name by
    evaluation order (so a temporary that is used twice and an expression that is evaluated twice are told apart),
  * how it ends (return <expr> / raise <expr> / falls off / break / continue) and the final value of the locals.
Two sequences are *interchangeable* when every pair of paths (one from each side) whose conditions can hold together has
equal traces, equal exits, equal final values of the names that are read afterwards, and evaluates no shared condition on
different sides of an effect.  That relation does not see: if/elif vs nested if vs guard clauses with early return, `and`
vs nested ifs, De Morgan rewrites, `==`/`!=`, `is None`/`== None`, `a > b`/`b < a`, `len(x) == 0`/`not x`, introduction or
removal of local temporaries, renaming of locals / loop variables / comprehension variables, string building by `+` /
`format` / `%` / f-strings, `await`, logging / tracing / metrics statements, docstrings, annotations, a list / dict
comprehension vs the explicit loop, `d.pop(k, None)` vs test-read-delete, boolean flag vs early exit, and extraction of a
block into a helper that only one side has (inlined, also inside conditions when the helper is pure).  It does see: a
changed, added, removed or reordered effect, a changed argument, a negated / weakened / strengthened / swapped guard, a
changed constant, operator or default, a second evaluation of a call, a second object where there was one.

Nothing of the repository is run: both sides are `ast` trees.
"""
import ast
import copy
import itertools

LOGGY = ("logger", "logging", "statsd", "opentracing", "tracer", "span", "scope", "metrics_logger")
PURE_FUNCS = {"_at", "len", "isinstance", "str", "int", "float", "bool", "tuple", "frozenset", "min", "max", "sum", "abs", "round",
              "range", "enumerate", "zip", "iter", "type", "repr", "hasattr", "getattr", "callable", "any", "all", "ord", "chr", "id", "reversed",
              "bytes", "divmod", "format", "hash", "issubclass", "next", "sorted", "_concat"}
PURE_METHODS = {"get", "startswith", "endswith", "format", "split", "rsplit", "join", "lower", "upper", "strip", "lstrip", "rstrip", "replace", "encode", "decode",
                "keys", "values", "items", "partition", "rpartition", "find", "rfind", "index", "count", "capitalize", "title", "isdigit", "isalpha",
                "isalnum", "zfill", "splitlines", "casefold", "ljust", "rjust", "timestamp", "total_seconds", "isoformat", "group", "groups", "match", "search",
                "fullmatch", "hexdigest", "digest"}
PURE_DOTTED = {"json.dumps", "os.environ.get", "os.path.join", "re.compile", "re.match", "re.search", "re.escape", "re.fullmatch", "re.sub", "re.split", "re.findall",
               "math.floor", "math.ceil", "math.pow", "base64.b64encode", "base64.b64decode", "stdjson.dumps"}
# not pure on purpose: time.time / uuid4 / random (a second evaluation gives another value); json.loads / deepcopy / dict() / list() / set()
# and displays (a second evaluation gives another object: they are `alloc` effects with a canonical object name)
ALLOC_FUNCS = {"dict", "list", "set", "bytearray", "OrderedDict", "defaultdict"}
ALLOC_DOTTED = {"json.loads", "stdjson.loads", "copy.deepcopy", "copy.copy", "collections.OrderedDict"}


REGEX_METHODS = {"search", "match", "fullmatch", "sub", "subn", "split", "findall", "finditer"}


class TooComplex(Exception):
    pass


import time as _time
DEADLINE = [None]       # monotonic deadline of the proof attempt in progress (set by the caller); exceeding it is TooComplex, never a verdict


def _tick():
    d = DEADLINE[0]
    if d is not None and _time.monotonic() > d:
        raise TooComplex("time budget of one proof attempt exhausted")


# ---------------------------------------------------------------------------------------------------------- expressions

def _chain_names(f):
    parts = []
    while isinstance(f, (ast.Attribute, ast.Call, ast.Subscript)):
        if isinstance(f, ast.Attribute):
            parts.append(f.attr)
            f = f.value
        elif isinstance(f, ast.Call):
            f = f.func
        else:
            f = f.value
    if isinstance(f, ast.Name):
        parts.append(f.id)
    return parts


LOGGY_EXACT = {"logger", "logging", "statsd", "opentracing", "tracer", "metrics_logger", "log"}


def _is_loggy_call(call):
    parts = _chain_names(call.func)
    if isinstance(call.func, ast.Name):
        return call.func.id == "print"
    # receiver chain (everything but the method name itself): self.logger.info(..), logging.getLogger(..).debug(..), span.set_tag(..), scope.close()
    recv = parts[1:]
    return any(p in LOGGY_EXACT or p.endswith("_logger") for p in recv) or (bool(recv) and recv[-1] in ("span", "scope") and len(recv) == 1)


def _dotted(node):
    parts = []
    while isinstance(node, ast.Attribute):
        parts.append(node.attr)
        node = node.value
    if isinstance(node, ast.Name):
        parts.append(node.id)
        return ".".join(reversed(parts))
    return None


def is_pure_call(call):
    f = call.func
    if isinstance(f, ast.Name):
        return f.id in PURE_FUNCS or (f.id[:1].isupper() and f.id.endswith(("Error", "Exception", "Failure")))
    if isinstance(f, ast.Attribute):
        d = _dotted(f)
        if d in PURE_DOTTED:
            return True
        if d in ALLOC_DOTTED:
            return False
        if f.attr in PURE_METHODS:
            return True
    return False


def is_alloc_call(call):
    f = call.func
    if isinstance(f, ast.Name):
        return f.id in ALLOC_FUNCS
    return _dotted(f) in ALLOC_DOTTED if isinstance(f, ast.Attribute) else False


def _const_display(n):
    if isinstance(n, ast.Call) and isinstance(n.func, ast.Name) and n.func.id in ("frozenset", "set", "tuple", "list") and len(n.args) == 1 and not n.keywords:
        return _const_display(n.args[0])
    return isinstance(n, (ast.Tuple, ast.List, ast.Set)) and all(isinstance(e, ast.Constant) for e in n.elts)


def _const_coll(n, top=True):
    """a non-empty display all of whose leaves are constants (a lookup table)"""
    if isinstance(n, ast.Constant):
        return not top
    if isinstance(n, (ast.Set, ast.List, ast.Tuple)):
        return bool(n.elts) and all(_const_coll(e, False) for e in n.elts)
    if isinstance(n, ast.Dict):
        return bool(n.keys) and all(isinstance(k, ast.Constant) for k in n.keys) and all(_const_coll(v, False) for v in n.values)
    if isinstance(n, ast.Call) and isinstance(n.func, ast.Name) and n.func.id in ("frozenset", "set", "tuple") and len(n.args) == 1 and not n.keywords:
        return _const_coll(n.args[0], top)
    return False


def _const_elts(n):
    while isinstance(n, ast.Call):
        n = n.args[0]
    return n.elts


class _Subst(ast.NodeTransformer):
    """substitute locals by their definitions; strip await; alpha-normalise comprehension variables"""

    def __init__(self, env):
        self.env = env
        self.ncomp = 0

    def visit_Name(self, node):
        if isinstance(node.ctx, ast.Load) and node.id in self.env:
            return copy.deepcopy(self.env[node.id])
        return node

    def visit_Await(self, node):
        return self.visit(node.value)

    def visit_Lambda(self, node):
        return node

    def visit_ListComp(self, node):
        return self._comp(node)

    visit_SetComp = visit_DictComp = visit_GeneratorExp = visit_ListComp

    def _comp(self, node):
        bound = []
        for g in node.generators:
            for n in ast.walk(g.target):
                if isinstance(n, ast.Name) and n.id not in bound:
                    bound.append(n.id)
        saved = self.env
        inner = dict(saved)
        ren = {}
        for b in bound:
            ren[b] = "_c%d" % self.ncomp
            self.ncomp += 1
            inner[b] = ast.Name(ren[b], ast.Load())
        try:
            for i, g in enumerate(node.generators):
                # the first iterable is evaluated in the enclosing scope
                self.env = saved if i == 0 else inner
                g.iter = self.visit(g.iter)
                self.env = inner
                for n in ast.walk(g.target):
                    if isinstance(n, ast.Name) and n.id in ren:
                        n.id = ren[n.id]
                g.ifs = [self.visit(x) for x in g.ifs]
            self.env = inner
            if isinstance(node, ast.DictComp):
                node.key, node.value = self.visit(node.key), self.visit(node.value)
            else:
                node.elt = self.visit(node.elt)
            return node
        finally:
            self.env = saved


def _duplicable(n):
    """may the expression be evaluated twice without anybody noticing (no calls except pure ones, no fresh objects)"""
    for x in ast.walk(n):
        if isinstance(x, ast.Call) and not is_pure_call(x):
            return False
        if isinstance(x, (ast.Dict, ast.List, ast.Set, ast.ListComp, ast.DictComp, ast.SetComp, ast.GeneratorExp, ast.Lambda, ast.Await, ast.Yield, ast.YieldFrom, ast.NamedExpr)):
            return False
    return True


def _is_boolean(n):
    if isinstance(n, ast.Compare):
        return True
    if isinstance(n, ast.UnaryOp) and isinstance(n.op, ast.Not):
        return True
    if isinstance(n, ast.BoolOp):
        return all(_is_boolean(v) for v in n.values)
    if isinstance(n, ast.Constant):
        return isinstance(n.value, bool)
    if isinstance(n, ast.Call) and isinstance(n.func, ast.Name) and n.func.id in ("isinstance", "bool", "callable", "hasattr", "any", "all", "issubclass"):
        return True
    if isinstance(n, ast.Call) and isinstance(n.func, ast.Attribute) and n.func.attr in ("startswith", "endswith", "isdigit", "isalpha", "isalnum"):
        return True
    return False


def _format_parts(tmpl, args, kwargs):
    """pieces of `tmpl.format(*args, **kwargs)` (auto / positional / named fields, {{ }} escapes; no conversions or format specs)"""
    import string
    out, auto = [], 0
    try:
        parsed = list(string.Formatter().parse(tmpl))
    except ValueError:
        return None
    for lit, field, spec, conv in parsed:
        if lit:
            out.append(ast.Constant(lit))
        if field is None:
            continue
        if spec or conv:
            return None
        if field == "":
            if auto >= len(args):
                return None
            v = args[auto]
            auto += 1
        elif field.isdigit():
            if int(field) >= len(args):
                return None
            v = args[int(field)]
        elif field.isidentifier():
            if field not in kwargs:
                return None
            v = kwargs[field]
        else:
            return None
        out.extend(_concat_parts(v) or [v])
    return out


def _concat_parts(node):
    """flatten string building into a list of parts, or None if `node` is not string building"""
    if isinstance(node, ast.JoinedStr):
        out = []
        for v in node.values:
            if isinstance(v, ast.Constant):
                out.append(v)
            elif isinstance(v, ast.FormattedValue) and v.conversion == -1 and v.format_spec is None:
                out.extend(_concat_parts(v.value) or [v.value])
            else:
                return None
        return out
    if isinstance(node, ast.BinOp) and isinstance(node.op, ast.Add):
        l, r = _concat_parts(node.left), _concat_parts(node.right)
        lstr = l is not None or (isinstance(node.left, ast.Constant) and isinstance(node.left.value, str))
        rstr = r is not None or (isinstance(node.right, ast.Constant) and isinstance(node.right.value, str))
        if lstr or rstr:
            return (l or [node.left]) + (r or [node.right])
        return None
    if isinstance(node, ast.Call) and isinstance(node.func, ast.Attribute) and node.func.attr == "format" and isinstance(node.func.value, ast.Constant) \
            and isinstance(node.func.value.value, str) and not any(isinstance(a, ast.Starred) for a in node.args) and all(k.arg for k in node.keywords):
        return _format_parts(node.func.value.value, list(node.args), {k.arg: k.value for k in node.keywords})
    if isinstance(node, ast.BinOp) and isinstance(node.op, ast.Mod) and isinstance(node.left, ast.Constant) and isinstance(node.left.value, str):
        args = node.right.elts if isinstance(node.right, ast.Tuple) else [node.right]
        pieces = node.left.value.split("%s")
        if len(pieces) - 1 != len(args) or "%" in "".join(pieces):
            return None
        out = []
        for i, p in enumerate(pieces):
            if p:
                out.append(ast.Constant(p))
            if i < len(args):
                out.append(args[i])
        return out
    return None


_PAIRS = set()      # iteration variables known to be 2-tuples (items(), enumerate())


class _Canon(ast.NodeTransformer):
    """algebraic normal forms of expressions (applied after substitution)"""

    def visit_Tuple(self, node):
        node = self.generic_visit(node)
        if isinstance(node.ctx, ast.Load) and len(node.elts) == 2 and all(isinstance(e, ast.Subscript) and isinstance(e.value, ast.Name) and isinstance(e.slice, ast.Constant) for e in node.elts):
            a, b = node.elts
            if a.value.id == b.value.id and a.value.id in _PAIRS and a.slice.value == 0 and b.slice.value == 1:
                return ast.Name(a.value.id, ast.Load())
        return node

    def visit_BinOp(self, node):
        parts = _concat_parts(node)
        if parts is not None:
            return self._concat(parts)
        return self.generic_visit(node)

    def visit_JoinedStr(self, node):
        parts = _concat_parts(node)
        if parts is not None:
            return self._concat(parts)
        return self.generic_visit(node)

    def visit_Call(self, node):
        parts = _concat_parts(node)
        if parts is not None:
            return self._concat(parts)
        node = self.generic_visit(node)
        if isinstance(node.func, ast.Name) and node.func.id == "bool" and len(node.args) == 1 and not node.keywords and _is_boolean(node.args[0]):
            return node.args[0]
        if isinstance(node.func, ast.Name) and node.func.id == "len" and len(node.args) == 1 and isinstance(node.args[0], ast.Constant) and isinstance(node.args[0].value, (str, bytes)):
            return ast.Constant(len(node.args[0].value))
        # re.compile(P).search(x) is re.search(P, x)
        f = node.func
        if isinstance(f, ast.Attribute) and f.attr in REGEX_METHODS and isinstance(f.value, ast.Call) and _dotted(f.value.func) == "re.compile" and not f.value.keywords:
            return ast.Call(ast.Attribute(ast.Name("re", ast.Load()), f.attr, ast.Load()), list(f.value.args[:1]) + list(node.args) + list(f.value.args[1:]), node.keywords)
        return node

    def visit_Lambda(self, node):
        return node

    def _concat(self, parts):
        parts = [self.visit(p) if not isinstance(p, ast.Constant) else p for p in parts]
        merged = []
        for p in parts:
            # inside string building str(x) and x denote the same text whenever both forms are legal (x is a str for `+`)
            if isinstance(p, ast.Call) and isinstance(p.func, ast.Name) and p.func.id == "str" and len(p.args) == 1 and not p.keywords:
                p = p.args[0]
            if isinstance(p, ast.Call) and isinstance(p.func, ast.Name) and p.func.id == "_concat":
                merged.extend(p.args)
                continue
            if isinstance(p, ast.Constant) and isinstance(p.value, str) and merged and isinstance(merged[-1], ast.Constant) and isinstance(merged[-1].value, str):
                merged[-1] = ast.Constant(merged[-1].value + p.value)
            else:
                merged.append(p)
        if len(merged) == 1 and isinstance(merged[0], ast.Constant):
            return merged[0]
        return ast.Call(ast.Name("_concat", ast.Load()), merged, [])

    def visit_Compare(self, node):
        node = self.generic_visit(node)
        if len(node.ops) == 1:
            op, l, r = node.ops[0], node.left, node.comparators[0]
            none_r = isinstance(r, ast.Constant) and r.value is None
            none_l = isinstance(l, ast.Constant) and l.value is None
            if isinstance(op, (ast.Eq, ast.Is)) and (none_r or none_l):
                return ast.Compare(l if none_r else r, [ast.Is()], [ast.Constant(None)])
            if isinstance(op, (ast.NotEq, ast.IsNot)) and (none_r or none_l):
                return ast.Compare(l if none_r else r, [ast.IsNot()], [ast.Constant(None)])
        return node

    def visit_UnaryOp(self, node):
        node = self.generic_visit(node)
        if isinstance(node.op, ast.USub) and isinstance(node.operand, ast.Constant) and type(node.operand.value) in (int, float):
            return ast.Constant(-node.operand.value)
        return node

    def visit_IfExp(self, node):
        node = self.generic_visit(node)
        # `True if c else False` is bool(c); `a if a else b` is `a or b`
        if isinstance(node.body, ast.Constant) and node.body.value is True and isinstance(node.orelse, ast.Constant) and node.orelse.value is False:
            return ast.Call(ast.Name("bool", ast.Load()), [node.test], [])
        if ast.dump(node.test) == ast.dump(node.body):
            return ast.BoolOp(ast.Or(), [node.body, node.orelse])
        return node


def _replace_node(root, target, repl):
    """copy of `root` in which the node `target` (by identity) is replaced by `repl`"""
    if root is target:
        return repl

    def rec(n):
        if n is target:
            return repl
        if not isinstance(n, ast.AST):
            return n
        new = copy.copy(n)
        for fld, val in ast.iter_fields(n):
            if isinstance(val, list):
                setattr(new, fld, [rec(x) for x in val])
            elif isinstance(val, ast.AST):
                setattr(new, fld, rec(val))
        return new
    return rec(root)


def norm_expr(node, env):
    n = _Subst(env).visit(copy.deepcopy(node))
    n = _Canon().visit(n)
    return ast.fix_missing_locations(n)


def text(node):
    if node is None:
        return "None"
    if isinstance(node, str):
        return node
    return " ".join(ast.unparse(node).split())


# ---------------------------------------------------------------------------------------------------------- formulas

def _never_none(n):
    if isinstance(n, ast.Constant):
        return n.value is not None
    if isinstance(n, (ast.JoinedStr, ast.Dict, ast.List, ast.Set, ast.Tuple, ast.ListComp, ast.DictComp, ast.SetComp, ast.Compare)):
        return True
    if isinstance(n, ast.Call) and isinstance(n.func, ast.Name) and n.func.id in ("_concat", "str", "len", "int", "bool", "isinstance", "dict", "list", "set", "tuple"):
        return True
    if isinstance(n, ast.Name) and n.id.startswith("$o"):
        return True
    return False


def formula(node):
    """boolean formula over atoms: ('atom', text) | ('not', f) | ('and', [f]) | ('or', [f]) | ('const', bool)"""
    if isinstance(node, ast.BoolOp):
        return ("and" if isinstance(node.op, ast.And) else "or", [formula(v) for v in node.values])
    if isinstance(node, ast.UnaryOp) and isinstance(node.op, ast.Not):
        return ("not", formula(node.operand))
    if isinstance(node, ast.Constant):
        return ("const", bool(node.value))
    if isinstance(node, ast.Compare) and len(node.ops) == 1 and isinstance(node.left, ast.Constant) and isinstance(node.comparators[0], ast.Constant) \
            and type(node.left.value) in (int, float, str, bool) and type(node.comparators[0].value) in (int, float, str, bool):
        a, b, o = node.left.value, node.comparators[0].value, node.ops[0]
        try:
            v = {ast.Eq: a == b, ast.NotEq: a != b}.get(type(o))
            if v is None and type(a) in (int, float) and type(b) in (int, float):
                v = {ast.Lt: a < b, ast.LtE: a <= b, ast.Gt: a > b, ast.GtE: a >= b}.get(type(o))
            if v is not None:
                return ("const", bool(v))
        except Exception:
            pass
    if isinstance(node, ast.Compare) and len(node.ops) == 1:
        op, l, r = node.ops[0], node.left, node.comparators[0]
        # len(x) == 0 / len(x) > 0 ... are the truth value of a sized container
        for a, b, flip in ((l, r, False), (r, l, True)):
            if isinstance(a, ast.Call) and isinstance(a.func, ast.Name) and a.func.id == "len" and len(a.args) == 1 and isinstance(b, ast.Constant) and type(b.value) is int:
                truth = ("atom", "bool(%s)" % text(a.args[0]))
                k = b.value
                o = type(op)
                if flip:
                    o = {ast.Lt: ast.Gt, ast.Gt: ast.Lt, ast.LtE: ast.GtE, ast.GtE: ast.LtE}.get(o, o)
                if (o is ast.Eq and k == 0) or (o is ast.LtE and k == 0) or (o is ast.Lt and k == 1):
                    return ("not", truth)
                if (o is ast.NotEq and k == 0) or (o is ast.Gt and k == 0) or (o is ast.GtE and k == 1):
                    return truth
        for a, b, flip in ((l, r, False), (r, l, True)):
            if isinstance(a, ast.Call) and isinstance(a.func, ast.Name) and a.func.id == "len" and len(a.args) == 1 and isinstance(b, ast.Constant) and type(b.value) is int \
                    and isinstance(op, (ast.Lt, ast.Gt, ast.LtE, ast.GtE)):
                o = type(op)
                if flip:
                    o = {ast.Lt: ast.Gt, ast.Gt: ast.Lt, ast.LtE: ast.GtE, ast.GtE: ast.LtE}[o]
                k = b.value
                la = text(a)
                if o is ast.Lt:
                    return ("atom", "%s < %d" % (la, k))
                if o is ast.LtE:
                    return ("atom", "%s < %d" % (la, k + 1))
                if o is ast.GtE:
                    return ("not", ("atom", "%s < %d" % (la, k)))
                return ("not", ("atom", "%s < %d" % (la, k + 1)))
        lt, rt = text(l), text(r)
        if isinstance(op, ast.Eq):
            a, b = sorted((lt, rt))
            return ("atom", "%s == %s" % (a, b))
        if isinstance(op, ast.NotEq):
            a, b = sorted((lt, rt))
            return ("not", ("atom", "%s == %s" % (a, b)))
        if isinstance(op, (ast.Is, ast.IsNot)) and isinstance(r, ast.Constant) and r.value is None and _never_none(l):
            return ("const", isinstance(op, ast.IsNot))
        if isinstance(op, ast.Is):
            return ("atom", "%s is %s" % (lt, rt))
        if isinstance(op, ast.IsNot):
            return ("not", ("atom", "%s is %s" % (lt, rt)))
        if isinstance(op, ast.In):
            if _const_display(r) and _const_elts(r):
                return ("or", [("atom", "%s == %s" % tuple(sorted((lt, text(e))))) for e in _const_elts(r)])
            return ("atom", "%s in %s" % (lt, rt))
        if isinstance(op, ast.NotIn):
            return ("not", formula(ast.Compare(l, [ast.In()], [r])))
        if isinstance(op, ast.Lt):
            return ("atom", "%s < %s" % (lt, rt))
        if isinstance(op, ast.Gt):
            return ("atom", "%s < %s" % (rt, lt))
        if isinstance(op, ast.GtE):
            return ("not", ("atom", "%s < %s" % (lt, rt)))
        if isinstance(op, ast.LtE):
            return ("not", ("atom", "%s < %s" % (rt, lt)))
    if isinstance(node, ast.Compare) and len(node.ops) > 1:
        fs, l = [], node.left
        for op, r in zip(node.ops, node.comparators):
            fs.append(formula(ast.Compare(l, [op], [r])))
            l = r
        return ("and", fs)
    if isinstance(node, ast.Call) and isinstance(node.func, ast.Name) and node.func.id == "isinstance" and len(node.args) == 2 and isinstance(node.args[1], ast.Tuple):
        return ("or", [("atom", "isinstance(%s, %s)" % (text(node.args[0]), text(e))) for e in node.args[1].elts])
    if isinstance(node, ast.Call) and isinstance(node.func, ast.Name) and node.func.id == "bool" and len(node.args) == 1:
        return formula(node.args[0])
    if isinstance(node, ast.IfExp):
        c, a, b = formula(node.test), formula(node.body), formula(node.orelse)
        return ("or", [("and", [c, a]), ("and", [("not", c), b])])
    if _never_none(node) and isinstance(node, ast.Call) and isinstance(node.func, ast.Name) and node.func.id == "_concat" and any(
            isinstance(a, ast.Constant) and a.value for a in node.args):
        return ("const", True)      # a string with a non-empty literal part is truthy
    return ("atom", "bool(%s)" % text(node))


def atoms_of(f, out=None):
    out = set() if out is None else out
    if f[0] == "atom":
        out.add(f[1])
    elif f[0] == "not":
        atoms_of(f[1], out)
    elif f[0] in ("and", "or"):
        for g in f[1]:
            atoms_of(g, out)
    return out


def evalf(f, asg):
    k = f[0]
    if k == "atom":
        return asg[f[1]]
    if k == "const":
        return f[1]
    if k == "not":
        return not evalf(f[1], asg)
    if k == "and":
        return all(evalf(g, asg) for g in f[1])
    return any(evalf(g, asg) for g in f[1])


def ftext(f):
    k = f[0]
    if k == "atom":
        return f[1]
    if k == "const":
        return str(f[1])
    if k == "not":
        return "not (%s)" % ftext(f[1])
    return "(" + (" %s " % k).join(ftext(g) for g in f[1]) + ")"


def _to_ast(f):
    k = f[0]
    if k == "atom":
        return ast.parse(f[1].replace("$", "__D_"), mode="eval").body
    if k == "const":
        return ast.Constant(f[1])
    if k == "not":
        return ast.UnaryOp(ast.Not(), _to_ast(f[1]))
    return ast.BoolOp(ast.And() if k == "and" else ast.Or(), [_to_ast(g) for g in f[1]])


# ---------------------------------------------------------------------------------------------------------- tables

class Path:
    __slots__ = ("cond", "trace", "exit", "env", "nres", "nobj", "retval")

    def __init__(self, cond=(), trace=(), exit=None, env=None, nres=0, nobj=0):
        self.cond, self.trace, self.exit, self.env = list(cond), list(trace), exit, dict(env or {})
        self.nres, self.nobj, self.retval = nres, nobj, None

    def fork(self):
        p = Path(self.cond, self.trace, self.exit, self.env, self.nres, self.nobj)
        p.retval = self.retval
        return p


class Table:
    def __init__(self, paths):
        self.paths = paths

    def describe(self, limit=12):
        out = []
        for p in self.paths[:limit]:
            out.append("if %s: %s => %s" % (" and ".join(("" if pol else "not ") + ftext(f) for f, pol in p.cond) or "True",
                                             "; ".join(event_text(e) for e in p.trace if e[0] != "test") or "-", exit_text(p.exit)))
        return out


def event_text(ev):
    k = ev[0]
    if k in ("call", "del", "yield", "alloc", "test", "with"):
        return "%s %s" % (k, ev[1])
    if k == "store":
        return "%s = %s" % (ev[1], ev[2])
    if k == "set":
        return "%s := %s" % (ev[1], ev[2])
    if k == "for":
        return "for %s in %s {%s}" % (ev[1], ev[2], " | ".join(ev[3].describe(6)))
    if k == "while":
        return "while %s {%s}" % (ev[1], " | ".join(ev[2].describe(6)))
    if k == "endwith":
        return "endwith"
    if k == "try":
        return "try#%d raised %s after one of %s" % (ev[1], ev[2], list(ev[3])[:2])
    return str(ev)


def exit_text(ex, fall="return"):
    """`fall`: what running off the end of the sequence means - 'return' (a function body), 'continue' (a loop body) or None (the
    statements that follow the sequence run next)"""
    if ex is None:
        return {"return": "return None", "continue": "continue"}.get(fall, "<falls through>")
    if ex[0] == "return" and ex[1] in (None, "None"):
        return "return None"
    return "%s %s" % (ex[0], ex[1]) if len(ex) > 1 and ex[1] is not None else ex[0]


def _root(e):
    """the variable (or self attribute) an expression reads from: `context['State'].get('x')` -> 'context', `self.a.b[c]` -> 'self.a'"""
    chain = []
    while True:
        if isinstance(e, ast.Attribute):
            chain.append(e.attr)
            e = e.value
        elif isinstance(e, ast.Subscript):
            chain.append(None)
            e = e.value
        elif isinstance(e, ast.Call):
            chain.append(None)
            e = e.func
        else:
            break
    if isinstance(e, ast.Name):
        if e.id in ("self", "cls") and chain and chain[-1]:
            return e.id + "." + chain[-1]
        return e.id
    return None


def _reads_from(val, roots):
    """does the (substituted) expression read a member / item / attribute of one of `roots`?"""
    if isinstance(val, ast.Call) and isinstance(val.func, ast.Name) and val.func.id == "_at":
        return False        # already pinned to an earlier moment
    for n in ast.walk(val):
        if isinstance(n, (ast.Subscript, ast.Attribute)) or (isinstance(n, ast.Call) and isinstance(n.func, ast.Attribute)):
            if isinstance(n, ast.Attribute) and isinstance(n.value, ast.Name) and n.value.id in ("self", "cls"):
                r = n.value.id + "." + n.attr
            else:
                r = _root(n)
            if r in roots:
                return True
    return False


def _invalidate(p, roots):
    """an effect that may change what `roots` hold has just been recorded: substituted reads of them are pinned to the moment before it"""
    roots = {r for r in roots if r}
    if not roots:
        return
    k = sum(1 for e in p.trace if e[0] != "test") - 1        # index of the effect that has just been recorded
    for name, val in list(p.env.items()):
        if isinstance(val, ast.AST) and _reads_from(val, roots):
            p.env[name] = ast.Call(ast.Name("_at", ast.Load()), [ast.Constant(k), val], [])


def _call_roots(call):
    roots = set()
    if isinstance(call.func, ast.Attribute):
        roots.add(_root(call.func.value))
    for a in list(call.args) + [k.value for k in call.keywords]:
        if isinstance(a, ast.Starred):
            a = a.value
        if isinstance(a, (ast.Name, ast.Attribute, ast.Subscript)):
            roots.add(_root(a) if not isinstance(a, ast.Name) else a.id)
    return roots


class _Eval(ast.NodeTransformer):
    """evaluate an already substituted expression on a path: every call that is not known pure and every construction of a fresh mutable
    object becomes an event with a canonical result name (by evaluation order) and is replaced by that name"""

    def __init__(self, summ, path):
        self.s, self.p = summ, path

    def visit_Lambda(self, node):
        return node

    def visit_Call(self, node):
        if isinstance(node.func, ast.Attribute) and node.func.attr in ("get", "keys", "values", "items") and _const_coll(node.func.value):
            node.args = [self.visit(a) for a in node.args]
            return node
        node = self.generic_visit(node)
        if _is_loggy_call(node):
            return ast.Constant(None)
        if is_pure_call(node):
            return node
        if is_alloc_call(node):
            return self._obj(node)
        nm = "$r%d" % self.p.nres
        self.p.nres += 1
        self.p.trace.append(("call", "%s = %s" % (nm, text(node))))
        _invalidate(self.p, _call_roots(node))
        return ast.Name(nm, ast.Load())

    def _obj(self, node):
        nm = "$o%d" % self.p.nobj
        self.p.nobj += 1
        self.p.trace.append(("alloc", "%s = %s" % (nm, text(node))))
        return ast.Name(nm, ast.Load())

    def visit_Dict(self, node):
        return self._obj(self.generic_visit(node))

    def visit_List(self, node):
        if isinstance(node.ctx, ast.Store):
            return node
        return self._obj(self.generic_visit(node))

    def visit_Set(self, node):
        return self._obj(self.generic_visit(node))

    def visit_Compare(self, node):
        # a display of constants as the right operand of `in` is a membership test, not an object anybody can alias
        node.left = self.visit(node.left)
        node.comparators = [c if ((_const_display(c) or _const_coll(c)) and isinstance(op, (ast.In, ast.NotIn))) else self.visit(c) for op, c in zip(node.ops, node.comparators)]
        return node

    def visit_Subscript(self, node):
        # indexing a table of constants reads it; nobody can keep a reference to the table itself
        if _const_coll(node.value) and isinstance(node.ctx, ast.Load):
            node.slice = self.visit(node.slice)
            return node
        return self.generic_visit(node)

    def visit_ListComp(self, node):
        # opaque: one fresh object; its element expressions are part of the text
        node.generators[0].iter = self.visit(node.generators[0].iter)
        return self._obj(node)

    visit_SetComp = visit_DictComp = visit_ListComp

    def visit_GeneratorExp(self, node):
        node.generators[0].iter = self.visit(node.generators[0].iter)
        return node


class Summariser:
    def __init__(self, func_node, helpers=None, keep=(), max_paths=600, extra_carried=()):
        """helpers: name -> FunctionDef that may be inlined ('name' for plain calls, 'self.name' for method calls; nested
        functions of func_node are added); keep: names of callables that must NOT be inlined"""
        self.func = func_node
        self.helpers = dict(helpers or {})
        self.keep = set(keep)
        self.max_paths = max_paths
        self.ntry = 0
        self.nloop = 0
        self.inline_depth = 0
        for n in func_node.body:
            if isinstance(n, (ast.FunctionDef, ast.AsyncFunctionDef)):
                self.helpers.setdefault(n.name, n)
        self.carried = self._carried_names(func_node) | set(extra_carried)
        self.tables = self._readonly_tables(func_node)

    # -- which locals are loop-carried (cannot be substituted across iterations)
    def _carried_names(self, func):
        carried = set()

        def visit(stmts):
            for s in stmts:
                if isinstance(s, (ast.For, ast.AsyncFor, ast.While)):
                    assigned = set()
                    for n in ast.walk(s):
                        if isinstance(n, ast.Name) and isinstance(n.ctx, ast.Store):
                            assigned.add(n.id)
                    if isinstance(s, (ast.For, ast.AsyncFor)):
                        for n in ast.walk(s.target):
                            if isinstance(n, ast.Name):
                                assigned.discard(n.id)
                    seen_w, rbw, nodes = set(), set(), []
                    for b in ([s.test] if isinstance(s, ast.While) else []) + s.body:
                        nodes.extend(sorted((n for n in ast.walk(b) if isinstance(n, ast.Name)),
                                            key=lambda n: (getattr(n, "lineno", 0), getattr(n, "col_offset", 0), isinstance(n.ctx, ast.Store))))
                    for b in s.body:
                        for n in ast.walk(b):
                            if isinstance(n, ast.AugAssign) and isinstance(n.target, ast.Name):
                                rbw.add(n.target.id)
                    for n in nodes:
                        if isinstance(n.ctx, ast.Store):
                            seen_w.add(n.id)
                        elif n.id in assigned and n.id not in seen_w:
                            rbw.add(n.id)
                    after = set()
                    end = getattr(s, "end_lineno", None)
                    if end is not None:
                        for n in ast.walk(func):
                            if isinstance(n, ast.Name) and isinstance(n.ctx, ast.Load) and n.id in assigned and getattr(n, "lineno", 0) > end:
                                after.add(n.id)
                    else:
                        after = set(assigned)
                    carried.update(rbw & assigned)
                    carried.update(after)
                for fld in ("body", "orelse", "finalbody"):
                    b = getattr(s, fld, None)
                    if isinstance(b, list) and b and isinstance(b[0], ast.stmt) and not isinstance(s, (ast.FunctionDef, ast.AsyncFunctionDef, ast.ClassDef)):
                        visit(b)
                if isinstance(s, ast.Try):
                    for h in s.handlers:
                        visit(h.body)
        visit(func.body)
        return carried

    def _readonly_tables(self, func):
        """locals bound exactly once to a display of constants and only ever read (membership, iteration, .get, indexing)"""
        counts, vals = {}, {}
        for n in ast.walk(func):
            if isinstance(n, ast.Name) and isinstance(n.ctx, (ast.Store, ast.Del)):
                counts[n.id] = counts.get(n.id, 0) + 1
            if isinstance(n, ast.Assign) and len(n.targets) == 1 and isinstance(n.targets[0], ast.Name) and _const_coll(n.value):
                vals[n.targets[0].id] = n.value
        cand = {k for k in vals if counts.get(k) == 1}
        if not cand:
            return set()
        parents = {}
        for n in ast.walk(func):
            for c in ast.iter_child_nodes(n):
                parents[id(c)] = n
        for n in ast.walk(func):
            if isinstance(n, ast.Name) and n.id in cand and isinstance(n.ctx, ast.Load):
                par = parents.get(id(n))
                ok = (isinstance(par, ast.Compare) and len(par.ops) == 1 and isinstance(par.ops[0], (ast.In, ast.NotIn)) and par.comparators[0] is n) or \
                     (isinstance(par, (ast.For, ast.comprehension)) and par.iter is n) or \
                     (isinstance(par, ast.Attribute) and par.value is n and par.attr in ("get", "keys", "values", "items") and isinstance(parents.get(id(par)), ast.Call)) or \
                     (isinstance(par, ast.Subscript) and par.value is n and isinstance(par.ctx, ast.Load))
                if not ok:
                    cand.discard(n.id)
        return cand

    # -- entry
    def table(self, start=None):
        paths = self._seq(self.func.body, [start or Path()], in_loop=False)
        return Table(paths)

    def _ev(self, p, node):
        """substitute, normalise, then evaluate `node` on path p; -> AST in which effects are replaced by canonical names"""
        n = norm_expr(node, p.env)
        n = self._inline_pure_helpers(n)
        return _Eval(self, p).visit(n)

    def _ev_multi(self, p, node, in_loop=False, depth=0):
        """like _ev, but helpers with effects that are called somewhere inside `node` are inlined first (their paths fork the path)
        -> list of (path, value AST)"""
        target = None
        if self.helpers and depth < 4:
            for n in ast.walk(node):
                if isinstance(n, ast.Lambda):
                    continue
                if isinstance(n, ast.Call) and not _is_loggy_call(n):
                    h, _ = self._resolve_helper(n)
                    if h is not None:
                        target = n
                        break
        if target is None:
            return [(p, self._ev(p, node))]
        # a pure helper is handled inside _ev; an effectful one is expanded here
        inl = self._try_inline(target, p, in_loop)
        if inl is None:
            return [(p, self._ev(p, node))]
        outs = []
        for q, rv in inl:
            if q.exit is not None:
                outs.append((q, None))
                continue
            rv = rv if rv is not None else ast.Constant(None)
            hole = "__hole%d" % depth
            repl = _replace_node(node, target, ast.Name(hole, ast.Load()))
            q.env[hole] = rv
            sub = self._ev_multi(q, repl, in_loop, depth + 1)
            for r, v in sub:
                r.env.pop(hole, None)
                outs.append((r, v))
        return outs

    def _seq(self, stmts, paths, in_loop):
        for s in stmts:
            _tick()
            nxt = []
            for p in paths:
                if p.exit is not None:
                    nxt.append(p)
                else:
                    nxt.extend(self._stmt(s, p, in_loop))
            paths = nxt
            if len(paths) > self.max_paths:
                raise TooComplex("more than %d paths" % self.max_paths)
        return paths

    def _stmt(self, s, p, in_loop):
        if isinstance(s, (ast.Pass, ast.Global, ast.Nonlocal, ast.Import, ast.ImportFrom, ast.Assert, ast.FunctionDef, ast.AsyncFunctionDef, ast.ClassDef)):
            return [p]
        if isinstance(s, ast.Expr):
            v = s.value
            while isinstance(v, ast.Await):
                v = v.value
            if isinstance(v, ast.Constant):
                return [p]
            if isinstance(v, (ast.Yield, ast.YieldFrom)):
                val = self._ev(p, v.value) if v.value is not None else None
                p.trace.append(("yield", ("from " if isinstance(v, ast.YieldFrom) else "") + text(val)))
                return [p]
            if isinstance(v, ast.Call):
                if _is_loggy_call(v):
                    return [p]
                pop = self._as_pop(v, p)
                if pop is not None:
                    return [q for q, _ in pop]
                inl = self._try_inline(v, p, in_loop)
                if inl is not None:
                    return [q for q, _ in inl]
            return [q for q, _ in self._ev_multi(p, v, in_loop)]
        if isinstance(s, (ast.Assign, ast.AnnAssign)):
            if isinstance(s, ast.AnnAssign):
                if s.value is None:
                    return [p]
                targets, value = [s.target], s.value
            else:
                targets, value = s.targets, s.value
            while isinstance(value, ast.Await):
                value = value.value
            if isinstance(value, (ast.BoolOp, ast.Compare, ast.UnaryOp)) and _is_boolean(value) and len(targets) == 1 and isinstance(targets[0], ast.Name):
                mk = lambda c: ast.fix_missing_locations(ast.copy_location(ast.Assign(copy.deepcopy(targets), ast.Constant(c)), s))
                return self._stmt(ast.fix_missing_locations(ast.copy_location(ast.If(value, [mk(True)], [mk(False)]), s)), p, in_loop)
            if isinstance(value, ast.BoolOp) and isinstance(value.op, ast.Or) and len(value.values) == 2 and not _is_boolean(value) and _duplicable(value.values[0]):
                mk = lambda v: ast.fix_missing_locations(ast.copy_location(ast.Assign(copy.deepcopy(targets), v), s))
                return self._stmt(ast.fix_missing_locations(ast.copy_location(ast.If(value.values[0], [mk(value.values[0])], [mk(value.values[1])]), s)), p, in_loop)
            if isinstance(value, ast.IfExp):
                mk = lambda v: ast.fix_missing_locations(ast.copy_location(ast.Assign(copy.deepcopy(targets), v), s))
                return self._stmt(ast.fix_missing_locations(ast.copy_location(ast.If(value.test, [mk(value.body)], [mk(value.orelse)]), s)), p, in_loop)
            # name = [elt for x in xs if c]  ==  name = []; for x in xs: if c: name.append(elt)
            if len(targets) == 1 and isinstance(targets[0], ast.Name) and isinstance(value, (ast.ListComp, ast.DictComp, ast.SetComp)) and len(value.generators) == 1 \
                    and not value.generators[0].is_async:
                return self._seq(self._desugar_comp(targets[0].id, value), [p], in_loop)
            if len(targets) == 1 and isinstance(targets[0], ast.Name) and targets[0].id in self.tables and _const_coll(value):
                p.env[targets[0].id] = copy.deepcopy(value)
                return [p]
            outs = None
            if isinstance(value, ast.Call) and not _is_loggy_call(value):
                outs = self._as_pop(value, p)
                if outs is None:
                    outs = self._try_inline(value, p, in_loop)
            if outs is None:
                outs = [(p, None)]
            res = []
            for q, rv in outs:
                if q.exit is not None:
                    res.append(q)
                    continue
                if rv is not None:
                    vals = [(q, rv)]
                else:
                    vals = self._ev_multi(q, value, in_loop)
                for r, vn in vals:
                    if r.exit is not None:
                        res.append(r)
                        continue
                    for r2, v2 in self._split_conditional(r, vn):
                        for t in targets:
                            self._assign(t, v2, r2, in_loop)
                        res.append(r2)
            return res
        if isinstance(s, ast.AugAssign):
            cur = self._load(s.target)
            vn = self._ev(p, ast.BinOp(cur, s.op, s.value))
            self._assign(s.target, vn, p, in_loop)
            return [p]
        if isinstance(s, ast.Delete):
            for t in s.targets:
                if isinstance(t, ast.Name):
                    p.env.pop(t.id, None)
                else:
                    tn = self._ev(p, self._load(t))
                    p.trace.append(("del", text(tn)))
                    _invalidate(p, {_root(tn)})
            return [p]
        if isinstance(s, ast.Return):
            v = s.value
            while isinstance(v, ast.Await):
                v = v.value
            if isinstance(v, ast.IfExp):
                mk = lambda x: ast.fix_missing_locations(ast.copy_location(ast.Return(x), s))
                return self._stmt(ast.fix_missing_locations(ast.copy_location(ast.If(v.test, [mk(v.body)], [mk(v.orelse)]), s)), p, in_loop)
            if isinstance(v, ast.Call) and isinstance(v.func, ast.Name) and v.func.id == "bool" and len(v.args) == 1 and not v.keywords:
                mk = lambda c: ast.fix_missing_locations(ast.copy_location(ast.Return(ast.Constant(c)), s))
                return self._stmt(ast.fix_missing_locations(ast.copy_location(ast.If(v.args[0], [mk(True)], [mk(False)]), s)), p, in_loop)
            if isinstance(v, (ast.BoolOp, ast.Compare, ast.UnaryOp)) and _is_boolean(v):
                mk = lambda c: ast.fix_missing_locations(ast.copy_location(ast.Return(ast.Constant(c)), s))
                return self._stmt(ast.fix_missing_locations(ast.copy_location(ast.If(v, [mk(True)], [mk(False)]), s)), p, in_loop)
            if isinstance(v, ast.BoolOp) and isinstance(v.op, ast.And) and len(v.values) > 1 and all(_is_boolean(x) for x in v.values[:-1]):
                # `A and B and X` with boolean A, B is X when they hold and False otherwise
                guard = v.values[0] if len(v.values) == 2 else ast.BoolOp(ast.And(), list(v.values[:-1]))
                st = ast.If(guard, [ast.Return(v.values[-1])], [ast.Return(ast.Constant(False))])
                return self._stmt(ast.fix_missing_locations(ast.copy_location(st, s)), p, in_loop)
            if isinstance(v, ast.Call) and not _is_loggy_call(v):
                inl = self._as_pop(v, p) or self._try_inline(v, p, in_loop)
                if inl is not None:
                    res = []
                    for q, rv in inl:
                        if q.exit is None:
                            q.retval = rv if rv is not None else ast.Constant(None)
                            q.exit = ("return", text(q.retval))
                        res.append(q)
                    return res
            if v is None:
                p.retval = ast.Constant(None)
                p.exit = ("return", "None")
                return [p]
            res = []
            for q, vn in self._ev_multi(p, v, in_loop):
                if q.exit is None:
                    q.retval = vn
                    q.exit = ("return", text(vn))
                res.append(q)
            return res
        if isinstance(s, ast.Raise):
            vn = self._ev(p, s.exc) if s.exc is not None else None
            cause = (" from " + text(self._ev(p, s.cause))) if getattr(s, "cause", None) is not None else ""
            p.exit = ("raise", (text(vn) if vn is not None else "<re-raise>") + cause)
            return [p]
        if isinstance(s, ast.Break):
            p.exit = ("break", None)
            return [p]
        if isinstance(s, ast.Continue):
            p.exit = ("continue", None)
            return [p]
        if isinstance(s, ast.If):
            multi = self._ev_multi(p, s.test, in_loop)
            if len(multi) != 1 or multi[0][0] is not p:
                outs = []
                for q, tn in multi:
                    if q.exit is not None:
                        outs.append(q)
                        continue
                    outs.extend(self._if(s, q, tn, in_loop))
                return outs
            return self._if(s, p, multi[0][1], in_loop)
        if False:
            tn = None
            f = formula(tn)
            outs = []
            known = self._known(f, p)
            if known is None:
                for a in sorted(atoms_of(f)):
                    p.trace.append(("test", a))
            if known is not False:
                a = p.fork()
                if known is None:
                    a.cond.append((f, True))
                outs.extend(self._seq(s.body, [a], in_loop))
            if known is not True:
                b = p.fork()
                if known is None:
                    b.cond.append((f, False))
                outs.extend(self._seq(s.orelse, [b], in_loop))
            return outs
        if isinstance(s, (ast.For, ast.AsyncFor)) and isinstance(s.iter, ast.Call) and not s.orelse:
            spliced = self._splice_generator(s, p)
            if spliced is not None:
                return self._seq(spliced, [p], in_loop)
        if isinstance(s, (ast.For, ast.AsyncFor)):
            itn0 = norm_expr(s.iter, p.env)
            itn = itn0 if _const_coll(itn0) else self._ev(p, s.iter)
            self.nloop += 1
            body_env = dict(p.env)
            tnames = []
            itv = ast.Name("$i%d" % self.nloop, ast.Load())

            def bind_target(t, val):
                if isinstance(t, ast.Name):
                    tnames.append(t.id)
                    body_env[t.id] = val
                elif isinstance(t, (ast.Tuple, ast.List)):
                    for i, e in enumerate(t.elts):
                        bind_target(e, ast.Subscript(val, ast.Constant(i), ast.Load()))
                elif isinstance(t, ast.Starred):
                    bind_target(t.value, val)
            bind_target(s.target, itv)
            tt = itv.id if tnames or isinstance(s.target, (ast.Tuple, ast.List)) else text(self._load(s.target))
            it_txt = text(itn)
            if it_txt.endswith(".items()") or it_txt.startswith("enumerate("):
                _PAIRS.add(itv.id)
            start = Path(env=body_env, nres=p.nres, nobj=p.nobj)
            sub = Table(self._seq(s.body, [start], in_loop=True))
            outs = []
            for q, subq in self._unswitch(p, sub, s):
                # a loop over a side-effect-free iterable whose body does nothing is nothing
                if not (all(not [e for e in r.trace if e[0] != "test"] and (r.exit is None or r.exit[0] == "continue") for r in subq.paths)):
                    q.trace.append(("for", tt, text(itn), subq))
                self._forget_assigned(s, q)
                for nm in tnames:
                    q.env[nm] = body_env[nm]
                outs.append(q)
            if s.orelse:
                return self._seq(s.orelse, outs, in_loop)
            return outs
        if isinstance(s, ast.While):
            tn = norm_expr(s.test, {k: v for k, v in p.env.items() if k not in self.carried})
            start = Path(env=dict(p.env), nres=p.nres, nobj=p.nobj)
            sub = Table(self._seq(s.body, [start], in_loop=True))
            p.trace.append(("while", ftext(formula(tn)), sub))
            self._forget_assigned(s, p)
            if s.orelse:
                return self._seq(s.orelse, [p], in_loop)
            return [p]
        if isinstance(s, (ast.With, ast.AsyncWith)):
            for it in s.items:
                if isinstance(it.context_expr, ast.Call) and _is_loggy_call(it.context_expr):
                    continue
                cn = self._ev(p, it.context_expr)
                p.trace.append(("with", text(cn)))
                if it.optional_vars is not None:
                    self._assign(it.optional_vars, cn, p, in_loop)
            outs = self._seq(s.body, [p], in_loop)
            for q in outs:
                if q.exit is None:
                    q.trace.append(("endwith",))
            return outs
        if isinstance(s, ast.Try) and s.handlers and not s.finalbody and not s.orelse and all(
                len(h.body) == 1 and isinstance(h.body[0], ast.Raise) and h.body[0].exc is None for h in s.handlers):
            # every handler only re-raises: the try statement is its body
            return self._seq(s.body, [p], in_loop)
        if isinstance(s, ast.Try):
            self.ntry += 1
            k = self.ntry
            entry = p.fork()
            htypes = [text(h.type) if h.type is not None else "BaseException" for h in s.handlers]
            normal = p
            for t in htypes:
                normal.cond.append((("atom", "try#%d raises %s" % (k, t)), False))
            outs = self._seq(s.body, [normal], in_loop)
            if s.orelse:
                outs = self._seq(s.orelse, outs, in_loop)
            body_fx = self._body_effects(s.body, entry) if s.handlers else ()
            for i, h in enumerate(s.handlers):
                q = entry.fork()
                for j, t in enumerate(htypes):
                    q.cond.append((("atom", "try#%d raises %s" % (k, t)), j == i))
                    if j == i:
                        break
                # the effects of the try body that precede the raising statement are not known: record the body's effects in the
                # event, so that moving an effect into / out of the try block is seen
                q.trace.append(("try", k, htypes[i], body_fx))
                if h.name:
                    q.env[h.name] = ast.Name("$e%d" % k, ast.Load())
                outs.extend(self._seq(h.body, [q], in_loop))
            if s.finalbody:
                res = []
                for q in outs:
                    ex, q.exit = q.exit, None
                    for r in self._seq(s.finalbody, [q], in_loop):
                        if r.exit is None:
                            r.exit = ex
                        res.append(r)
                outs = res
            return outs
        raise TooComplex("statement %s" % type(s).__name__)

    def _unswitch(self, p, sub, loop):
        """[(outer path, body table)]: when every path of the loop body first decides a formula over plain local names that the loop does
        not assign (and constants), that decision is the same in every iteration: it is moved in front of the loop"""
        assigned = {n.id for n in ast.walk(loop) if isinstance(n, ast.Name) and isinstance(n.ctx, ast.Store)}
        for _ in range(3):
            if not sub.paths or not all(q.cond for q in sub.paths):
                break
            f0 = sub.paths[0].cond[0][0]
            ft = ftext(f0)
            if not all(ftext(q.cond[0][0]) == ft for q in sub.paths):
                break
            ok = True
            for a in atoms_of(f0):
                try:
                    e = ast.parse(a.replace("$", "__D_"), mode="eval").body
                except SyntaxError:
                    ok = False
                    break
                for n in ast.walk(e):
                    if isinstance(n, (ast.Attribute, ast.Subscript)) or (isinstance(n, ast.Call) and not (isinstance(n.func, ast.Name) and n.func.id in ("bool", "len", "isinstance"))):
                        ok = False
                    if isinstance(n, ast.Name) and (n.id.startswith("__D_") or n.id in assigned or n.id in self.carried):
                        ok = False
            # the test must be the first thing every path does
            if not ok or any(q.trace and q.trace[0][0] != "test" for q in sub.paths):
                break
            known = self._known(f0, p)
            res = []
            for pol in (True, False):
                if known is not None and known != pol:
                    continue
                sel = []
                for q in sub.paths:
                    if q.cond[0][1] == pol:
                        r = q.fork()
                        r.cond = r.cond[1:]
                        ats = atoms_of(f0)
                        r.trace = [e for e in r.trace if not (e[0] == "test" and e[1] in ats)]
                        sel.append(r)
                outer = p.fork()
                if known is None:
                    for a in sorted(atoms_of(f0)):
                        outer.trace.append(("test", a))
                    outer.cond.append((f0, pol))
                res.extend(self._unswitch(outer, Table(sel), loop))
            return res
        return [(p, sub)]

    def _splice_generator(self, loop, p):
        """`for T in helper(args): BODY` where helper is a generator only this side has: the helper's statements with every `yield E`
        replaced by `T = E; BODY` (and `yield from X` by `for T in X: BODY`); None when that is not a faithful rewriting"""
        h, is_method = self._resolve_helper(loop.iter)
        if h is None or self.inline_depth >= 2:
            return None
        ys = [n for n in ast.walk(h) if isinstance(n, (ast.Yield, ast.YieldFrom))]
        if not ys:
            return None
        if any(isinstance(n, ast.Return) for n in ast.walk(h)):
            return None
        for st in loop.body:
            for n in ast.walk(st):
                if isinstance(n, (ast.Break, ast.Continue, ast.Return)):
                    return None         # they would bind to the helper's own loops
        call = loop.iter
        if any(isinstance(a, ast.Starred) for a in call.args) or any(k.arg is None for k in call.keywords):
            return None
        bind = self._bind(h, is_method, list(call.args), {k.arg: k.value for k in call.keywords})
        if bind is None:
            return None
        ok = [True]

        class T(ast.NodeTransformer):
            def visit_Expr(self, node):
                v = node.value
                if isinstance(v, ast.Yield):
                    return [ast.Assign([copy.deepcopy(loop.target)], v.value if v.value is not None else ast.Constant(None))] + copy.deepcopy(loop.body)
                if isinstance(v, ast.YieldFrom):
                    return ast.For(copy.deepcopy(loop.target), v.value, copy.deepcopy(loop.body), [])
                if any(isinstance(x, (ast.Yield, ast.YieldFrom)) for x in ast.walk(node)):
                    ok[0] = False
                return node

            def visit_Assign(self, node):
                if any(isinstance(x, (ast.Yield, ast.YieldFrom)) for x in ast.walk(node)):
                    ok[0] = False
                return node

            def visit_FunctionDef(self, node):
                return node
        body = [T().visit(copy.deepcopy(st)) for st in h.body]
        flat = []
        for b in body:
            flat.extend(b if isinstance(b, list) else [b])
        if not ok[0]:
            return None
        pre = [ast.Assign([ast.Name(k, ast.Store())], v) for k, v in bind.items()]
        out = pre + flat
        for n in out:
            ast.fix_missing_locations(n)
        # locals of the helper that its own loops carry from one iteration to the next stay opaque
        for n in flat:
            for lp in ast.walk(n):
                if isinstance(lp, (ast.While, ast.For)):
                    for x in ast.walk(lp):
                        if isinstance(x, ast.Name) and isinstance(x.ctx, ast.Store):
                            self.carried = self.carried | {x.id}
        tn = {x.id for x in ast.walk(loop.target) if isinstance(x, ast.Name)}
        self.carried = self.carried - tn
        return out

    def _split_conditional(self, p, vn, depth=0):
        """[(path, value)]: a value `a if c else b` (already evaluated) decides c on the path"""
        if not isinstance(vn, ast.IfExp) or depth > 3:
            return [(p, vn)]
        f = formula(vn.test)
        known = self._known(f, p)
        outs = []
        if known is None:
            for a in sorted(atoms_of(f)):
                p.trace.append(("test", a))
        for pol, val in ((True, vn.body), (False, vn.orelse)):
            if known is not None and known != pol:
                continue
            q = p.fork()
            if known is None:
                q.cond.append((f, pol))
            outs.extend(self._split_conditional(q, val, depth + 1))
        return outs

    def _if(self, s, p, tn, in_loop):
        f = formula(tn)
        outs = []
        known = self._known(f, p)
        if known is None:
            for a in sorted(atoms_of(f)):
                p.trace.append(("test", a))
        if known is not False:
            a = p.fork()
            if known is None:
                a.cond.append((f, True))
            outs.extend(self._seq(s.body, [a], in_loop))
        if known is not True:
            b = p.fork()
            if known is None:
                b.cond.append((f, False))
            outs.extend(self._seq(s.orelse, [b], in_loop))
        return outs

    def _desugar_comp(self, name, comp):
        g = comp.generators[0]
        if isinstance(comp, ast.ListComp):
            init = ast.List([], ast.Load())
            add = ast.Expr(ast.Call(ast.Attribute(ast.Name(name, ast.Load()), "append", ast.Load()), [comp.elt], []))
        elif isinstance(comp, ast.SetComp):
            init = ast.Call(ast.Name("set", ast.Load()), [], [])
            add = ast.Expr(ast.Call(ast.Attribute(ast.Name(name, ast.Load()), "add", ast.Load()), [comp.elt], []))
        else:
            init = ast.Dict([], [])
            add = ast.Assign([ast.Subscript(ast.Name(name, ast.Load()), comp.key, ast.Store())], comp.value)
        body = add
        for c in reversed(g.ifs):
            body = ast.If(c, [body], [])
        loop = ast.For(g.target, g.iter, [body], [])
        out = [ast.Assign([ast.Name(name, ast.Store())], init), loop]
        for n in out:
            ast.fix_missing_locations(n)
        return out

    def _body_effects(self, body, entry):
        try:
            sub = Summariser.__new__(Summariser)
            sub.__dict__.update(self.__dict__)
            paths = sub._seq(body, [entry.fork()], in_loop=False)
            n0 = len(entry.trace)
            return tuple(sorted({"; ".join(event_text(e) for e in q.trace[n0:] if e[0] != "test") for q in paths}))
        except TooComplex:
            return ("<complex>",)

    def _forget_assigned(self, loop, p):
        for n in ast.walk(loop):
            if isinstance(n, ast.Name) and isinstance(n.ctx, ast.Store):
                p.env.pop(n.id, None)

    def _load(self, t):
        t = copy.deepcopy(t)
        for n in ast.walk(t):
            if hasattr(n, "ctx"):
                n.ctx = ast.Load()
        return t

    def _assign(self, target, vn, p, in_loop):
        if isinstance(target, ast.Name):
            if target.id in self.carried:
                p.trace.append(("set", target.id, text(vn)))
                p.env.pop(target.id, None)
            else:
                p.env[target.id] = vn
            return
        if isinstance(target, (ast.Tuple, ast.List)):
            if isinstance(vn, (ast.Tuple, ast.List)) and len(vn.elts) == len(target.elts):
                for t, v in zip(target.elts, vn.elts):
                    self._assign(t, v, p, in_loop)
            else:
                for i, t in enumerate(target.elts):
                    self._assign(t, ast.Subscript(vn, ast.Constant(i), ast.Load()), p, in_loop)
            return
        if isinstance(target, ast.Starred):
            self._assign(target.value, vn, p, in_loop)
            return
        tn = self._ev(p, self._load(target))
        p.trace.append(("store", text(tn), text(vn)))
        _invalidate(p, {_root(tn)})

    def _known(self, f, p):
        ft = ftext(f)
        for g, pol in p.cond:
            gt = ftext(g)
            if gt == ft:
                return pol
            if g[0] == "not" and ftext(g[1]) == ft:
                return not pol
            if f[0] == "not" and ftext(f[1]) == gt:
                return not pol
        if f[0] == "const":
            return f[1]
        # decided by the literals the path has already fixed?
        fixed = {}
        for g, pol in p.cond:
            v = pol
            while g[0] == "not":
                g, v = g[1], not v
            if g[0] == "atom":
                fixed[g[1]] = v
            elif g[0] == "or" and not v:
                for h in g[1]:
                    if h[0] == "atom":
                        fixed[h[1]] = False
            elif g[0] == "and" and v:
                for h in g[1]:
                    if h[0] == "atom":
                        fixed[h[1]] = True
        ats = atoms_of(f)
        if ats and ats <= set(fixed):
            return evalf(f, fixed)
        return None

    # -- d.pop(k, default): remove the member if it is there
    def _as_pop(self, call, p):
        if not (isinstance(call.func, ast.Attribute) and call.func.attr == "pop" and len(call.args) == 2 and not call.keywords):
            return None
        d = self._ev(p, call.func.value)
        k = self._ev(p, call.args[0])
        dflt = self._ev(p, call.args[1])
        f = ("atom", "%s in %s" % (text(k), text(d)))
        known = self._known(f, p)
        outs = []
        if known is None:
            p.trace.append(("test", f[1]))
        if known is not False:
            a = p.fork()
            if known is None:
                a.cond.append((f, True))
            item = ast.Subscript(d, k, ast.Load())
            a.trace.append(("del", text(item)))
            _invalidate(a, {_root(item)})
            outs.append((a, ast.Call(ast.Name("_at", ast.Load()), [ast.Constant(sum(1 for e in a.trace if e[0] != "test") - 1), item], [])))
        if known is not True:
            b = p.fork()
            if known is None:
                b.cond.append((f, False))
            outs.append((b, dflt))
        return outs

    # -- inlining of helpers only one side has
    def _resolve_helper(self, call):
        f = call.func
        if isinstance(f, ast.Name) and f.id in self.helpers and f.id not in self.keep:
            return self.helpers[f.id], False
        if isinstance(f, ast.Attribute) and isinstance(f.value, ast.Name) and f.value.id in ("self", "cls") and ("self." + f.attr) in self.helpers \
                and ("self." + f.attr) not in self.keep:
            return self.helpers["self." + f.attr], True
        return None, False

    def _bind(self, h, is_method, argvals, kwvals):
        params = [a.arg for a in h.args.posonlyargs + h.args.args]
        if is_method and params and params[0] in ("self", "cls"):
            params = params[1:]
        if h.args.vararg or h.args.kwarg:
            return None
        bind = {}
        for name, a in zip(params, argvals):
            bind[name] = a
        kwonly = [a.arg for a in h.args.kwonlyargs]
        for k, v in kwvals.items():
            if k in params or k in kwonly:
                bind[k] = v
            else:
                return None
        defaults = h.args.defaults
        for name, d in zip(params[len(params) - len(defaults):], defaults):
            bind.setdefault(name, d)
        for a, d in zip(h.args.kwonlyargs, h.args.kw_defaults):
            if d is not None:
                bind.setdefault(a.arg, d)
        if len(argvals) > len(params) or any(n not in bind for n in params + kwonly):
            return None
        return bind

    def _try_inline(self, call, p, in_loop):
        """-> list of (path, return value AST or None) or None when the call is not inlined"""
        h, is_method = self._resolve_helper(call)
        if h is None or self.inline_depth >= 3:
            return None
        if any(isinstance(a, ast.Starred) for a in call.args) or any(k.arg is None for k in call.keywords):
            return None
        if any(isinstance(n, (ast.Yield, ast.YieldFrom)) for n in ast.walk(h)):
            return None
        argvals = [self._ev(p, a) for a in call.args]
        kwvals = {k.arg: self._ev(p, k.value) for k in call.keywords}
        bind = self._bind(h, is_method, argvals, kwvals)
        if bind is None:
            return None
        env = dict(p.env) if not is_method else {}
        env.update(bind)
        start = p.fork()
        start.env = env
        self.inline_depth += 1
        saved_carried, saved_helpers = self.carried, self.helpers
        try:
            self.carried = self._carried_names(h)
            self.helpers = dict(self.helpers)
            for n in h.body:
                if isinstance(n, (ast.FunctionDef, ast.AsyncFunctionDef)):
                    self.helpers.setdefault(n.name, n)
            outs = self._seq(h.body, [start], in_loop=False)
        finally:
            self.carried, self.helpers = saved_carried, saved_helpers
            self.inline_depth -= 1
        res = []
        for q in outs:
            rv = None
            if q.exit is not None and q.exit[0] == "return":
                rv = q.retval if q.retval is not None else ast.Constant(None)
                q.exit = None
            elif q.exit is None:
                rv = ast.Constant(None)
            q.retval = None
            q.env = dict(p.env)     # the helper's locals do not survive (closure writes via nonlocal are not modelled)
            res.append((q, rv))
        return res

    def _inline_pure_helpers(self, node):
        """calls (anywhere in an expression) to helpers only this side has whose body has no effects are replaced by their value"""
        if not self.helpers:
            return node
        summ = self

        class T(ast.NodeTransformer):
            def visit_Lambda(self, n):
                return n

            def visit_Call(self, n):
                n = self.generic_visit(n)
                h, is_method = summ._resolve_helper(n)
                if h is None or summ.inline_depth >= 3:
                    return n
                if any(isinstance(a, ast.Starred) for a in n.args) or any(k.arg is None for k in n.keywords):
                    return n
                bind = summ._bind(h, is_method, list(n.args), {k.arg: k.value for k in n.keywords})
                if bind is None:
                    return n
                val = summ._pure_value(h, bind)
                return val if val is not None else n
        return T().visit(node)

    def _pure_value(self, h, bind):
        """the value of helper h as one expression over its (already bound) parameters, or None if it has effects"""
        if any(isinstance(n, (ast.Yield, ast.YieldFrom)) for n in ast.walk(h)):
            return None
        self.inline_depth += 1
        saved_carried, saved_helpers = self.carried, self.helpers
        try:
            self.carried = self._carried_names(h)
            try:
                outs = self._seq(h.body, [Path(env=dict(bind))], in_loop=False)
            except TooComplex:
                return None
        finally:
            self.carried, self.helpers = saved_carried, saved_helpers
            self.inline_depth -= 1
        if any(e[0] != "test" for q in outs for e in q.trace):
            return None
        if any(q.exit is not None and q.exit[0] != "return" for q in outs):
            return None
        expr = None
        for q in reversed(outs):
            v = q.retval if q.retval is not None else ast.Constant(None)
            if expr is None:
                expr = v
                continue
            conds = [(_to_ast(f) if pol else ast.UnaryOp(ast.Not(), _to_ast(f))) for f, pol in q.cond]
            c = conds[0] if len(conds) == 1 else (ast.BoolOp(ast.And(), conds) if conds else ast.Constant(True))
            expr = ast.IfExp(c, v, expr)
        return ast.fix_missing_locations(expr) if expr is not None else None


# ---------------------------------------------------------------------------------------------------------- equivalence

def _split(trace):
    eff, before, cur = [], [], set()
    for e in trace:
        if e[0] == "test":
            cur.add(e[1])
        else:
            eff.append(e)
            before.append(frozenset(cur))
    return eff, before


def events_equal(a, b, diffs, ctx):
    if a[0] != b[0]:
        return False
    k = a[0]
    if k == "for":
        return a[1] == b[1] and a[2] == b[2] and tables_equal(a[3], b[3], diffs, ctx + " > for %s" % a[1], fall="continue")
    if k == "while":
        return a[1] == b[1] and tables_equal(a[2], b[2], diffs, ctx + " > while", fall="continue")
    return a == b


def _literals(cond):
    """(fixed atoms, complex formulas) of a path condition; None if the literals contradict each other"""
    fixed, rest = {}, []
    for f, pol in cond:
        g, v = f, pol
        while g[0] == "not":
            g, v = g[1], not v
        if g[0] == "atom":
            if fixed.get(g[1], v) != v:
                return None
            fixed[g[1]] = v
        elif g[0] == "const":
            if g[1] != v:
                return None
        else:
            rest.append((g, v))
    if not _exclusive_ok(fixed):
        return None     # `x == 'a'` and `x == 'b'` on one path: the path cannot be taken
    return fixed, rest


def _eq_key(atom):
    """('expr', 'const') for an atom `const == expr` / `expr == const` with a literal constant"""
    if " == " not in atom:
        return None
    a, b = atom.split(" == ", 1)
    lit = lambda t: t[:1] in "'\"" or t.lstrip("-").replace(".", "", 1).isdigit() or t in ("True", "False", "None")
    if lit(a) and not lit(b):
        return b, a
    if lit(b) and not lit(a):
        return a, b
    return None


def _exclusive_ok(asg):
    seen = {}
    for atom, v in asg.items():
        if v:
            k = _eq_key(atom)
            if k:
                if seen.get(k[0], k[1]) != k[1]:
                    return False
                seen[k[0]] = k[1]
    return True


def _compatible(la, lb, max_free=16):
    """can the two path conditions hold together? -> a witness assignment or None"""
    fa, ra = la
    fb, rb = lb
    for k, v in fa.items():
        if fb.get(k, v) != v:
            return None
    fixed = dict(fa)
    fixed.update(fb)
    if not _exclusive_ok(fixed):
        return None
    rest = ra + rb
    if not rest:
        return fixed
    free = sorted(set().union(*[atoms_of(g) for g, _ in rest]) - set(fixed))
    if len(free) > max_free:
        raise TooComplex("%d free atoms in one pair of paths" % len(free))
    for n_, bits in enumerate(itertools.product((False, True), repeat=len(free))):
        if n_ % 2048 == 0:
            _tick()
        asg = dict(fixed)
        asg.update(zip(free, bits))
        if all(evalf(g, asg) == v for g, v in rest) and _exclusive_ok(asg):
            return asg
    return None


def tables_equal(ta, tb, diffs, ctx="", live=(), fall="return"):
    la = [_literals(p.cond) for p in ta.paths]
    lb = [_literals(p.cond) for p in tb.paths]
    ok = True
    seen_a, seen_b = set(), set()
    for i, pa in enumerate(ta.paths):
        if la[i] is None:
            continue
        _tick()
        for j, pb in enumerate(tb.paths):
            if lb[j] is None:
                continue
            asg = _compatible(la[i], lb[j])
            if asg is None:
                continue
            seen_a.add(i)
            seen_b.add(j)
            why = None
            if exit_text(pa.exit, fall) != exit_text(pb.exit, fall):
                why = "ends differently: `%s` vs reference `%s`" % (exit_text(pa.exit, fall), exit_text(pb.exit, fall))
            else:
                (efa, tsa), (efb, tsb) = _split(pa.trace), _split(pb.trace)
                alla = {e[1] for e in pa.trace if e[0] == "test"}
                allb = {e[1] for e in pb.trace if e[0] == "test"}
                if len(efa) != len(efb):
                    why = "effects differ: [%s] vs reference [%s]" % ("; ".join(event_text(e) for e in efa)[:400], "; ".join(event_text(e) for e in efb)[:400])
                else:
                    both = alla & allb
                    for k, (ea, eb) in enumerate(zip(efa, efb)):
                        sub = []
                        if not events_equal(ea, eb, sub, ctx):
                            why = sub[0] if sub else "effect differs: `%s` vs reference `%s`" % (event_text(ea)[:200], event_text(eb)[:200])
                            break
                        if (tsa[k] & both) != (tsb[k] & both):
                            why = "a condition is evaluated on the other side of effect `%s`: %s" % (event_text(ea)[:120], sorted((tsa[k] ^ tsb[k]) & both)[:3])
                            break
                if why is None and live:
                    for n in sorted(live):
                        va = text(pa.env[n]) if n in pa.env else n
                        vb = text(pb.env[n]) if n in pb.env else n
                        if va != vb:
                            why = "`%s` ends as `%s` vs reference `%s`" % (n, va[:160], vb[:160])
                            break
            if why:
                ok = False
                rel = set()
                for f, _ in pa.cond + pb.cond:
                    atoms_of(f, rel)
                when = " and ".join(("" if v else "not ") + a for a, v in sorted(asg.items()) if a in rel) or "always"
                diffs.append("%s[when %s] %s" % ((ctx + " ") if ctx else "", when[:300], why))
                if len(diffs) > 6:
                    return False
    for i, pa in enumerate(ta.paths):
        if la[i] is not None and i not in seen_a:
            ok = False
            diffs.append("%sno reference path for `%s`" % ((ctx + " ") if ctx else "", " and ".join(("" if pol else "not ") + ftext(f) for f, pol in pa.cond)[:200]))
    for j, pb in enumerate(tb.paths):
        if lb[j] is not None and j not in seen_b:
            ok = False
            diffs.append("%sreference path `%s` has no counterpart" % ((ctx + " ") if ctx else "", " and ".join(("" if pol else "not ") + ftext(f) for f, pol in pb.cond)[:200]))
    return ok


def parse_reference(src):
    tree = ast.parse(src)
    fn = [n for n in tree.body if isinstance(n, (ast.FunctionDef, ast.AsyncFunctionDef))]
    if len(fn) < 1:
        raise ValueError("reference has no function")
    return fn[0], {n.name: n for n in fn[1:]}


def _strip_annotations(args):
    a = copy.deepcopy(args)
    for x in a.posonlyargs + a.args + a.kwonlyargs + ([a.vararg] if a.vararg else []) + ([a.kwarg] if a.kwarg else []):
        x.annotation = None
    return a


def compare(func_node, ref_src, helpers=None, keep=()):
    """-> (equal: bool, diffs: [str], stats: dict).  Raises TooComplex when either side is outside the fragment."""
    ref_fn, ref_helpers = parse_reference(ref_src)
    named = set(keep)
    for n in ast.walk(ref_fn):
        if isinstance(n, ast.Call):
            d = _dotted(n.func)
            if d:
                named.add(d)
    ta = Summariser(func_node, helpers=helpers, keep=named).table()
    tb = Summariser(ref_fn, helpers=ref_helpers, keep=()).table()
    diffs = []
    eq = tables_equal(ta, tb, diffs)
    if ast.dump(_strip_annotations(func_node.args)) != ast.dump(_strip_annotations(ref_fn.args)):
        eq = False
        diffs.insert(0, "signature `%s` vs reference `%s`" % (text(func_node.args), text(ref_fn.args)))
    atoms = set()
    for t in (ta, tb):
        for p in t.paths:
            for f, _ in p.cond:
                atoms_of(f, atoms)
    return eq, diffs, {"paths": len(ta.paths), "ref_paths": len(tb.paths), "atoms": len(atoms)}


# ---------------------------------------------------------------------------------------------------------- regions

def _region_fn(stmts):
    fn = ast.FunctionDef(name="_region", args=ast.arguments(posonlyargs=[], args=[], vararg=None, kwonlyargs=[], kw_defaults=[], kwarg=None, defaults=[]),
                         body=list(stmts), decorator_list=[], returns=None, type_comment=None)
    if hasattr(fn, "type_params"):
        fn.type_params = []
    return fn


def regions_equal(fstmts, rstmts, live, helpers_f=None, helpers_r=None, keep=(), env_f=None, env_r=None, fall=None):
    """are two statement sequences interchangeable?  -> (equal, diffs).  Raises TooComplex outside the fragment."""
    carried = set()     # names assigned inside loops and read after the region stay opaque `set` events
    for stmts in (fstmts, rstmts):
        for s in stmts:
            for lp in ast.walk(s):
                if isinstance(lp, (ast.For, ast.AsyncFor, ast.While)):
                    for n in ast.walk(lp):
                        if isinstance(n, ast.Name) and isinstance(n.ctx, ast.Store) and n.id in live:
                            carried.add(n.id)
                    if isinstance(lp, (ast.For, ast.AsyncFor)):
                        for n in ast.walk(lp.target):
                            if isinstance(n, ast.Name):
                                carried.discard(n.id)
    ta = Summariser(_region_fn(fstmts), helpers=helpers_f, keep=keep, extra_carried=carried).table(Path(env=dict(env_f or {})))
    tb = Summariser(_region_fn(rstmts), helpers=helpers_r, keep=keep, extra_carried=carried).table(Path(env=dict(env_r or {})))
    diffs = []
    eq = tables_equal(ta, tb, diffs, live=set(live) - carried, fall=fall)
    return eq, diffs
