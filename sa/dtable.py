"""E14: decision tables — a control-flow-insensitive normal form of small functions, and equivalence against a reference.

A function body is turned into the set of its paths through the if/else structure.  Each path carries
  * the list of (boolean formula, polarity) literals it took, every formula built from normalised *atoms*,
  * the trace of its effects (calls with side effects, stores to attributes / subscripts, loops and try blocks as nested
    tables), with every local temporary substituted by its definition, and
  * how it ends (return <expr> / raise <expr> / falls off / break / continue).
Two functions are *equivalent* when, for every truth assignment of the union of their atoms, the paths selected on both
sides have equal traces and exits.  That relation does not see: if/elif vs nested if vs guard clauses with early return,
`and` vs nested ifs, De Morgan rewrites, `==`/`!=`, `is None`/`== None`, `a > b`/`b < a`, introduction or removal of local
temporaries, renaming of locals, string building by `+` / `format` / `%` / f-strings, `await`, logging / tracing / metrics
statements, docstrings, comments and layout, and extraction of a block into a local or same-class helper (helpers that the
reference does not know are inlined).  It does see: a changed, added, removed or reordered effect, a changed argument, a
negated / weakened / strengthened / swapped guard, a changed constant, operator or default.

No code of the repository is run: both sides are `ast` trees; the reference is a snippet held in the rule that owns it and
states what the property demands of that function (the oracle is the property / the protocol the function implements, not
today's text — a reference is only written for functions whose whole behaviour is a necessary condition of the property).
"""
import ast
import copy
import itertools

LOGGY = ("logger", "logging", "statsd", "opentracing", "tracer", "span", "scope", "metrics_logger")
PURE_FUNCS = {"len", "isinstance", "str", "int", "float", "bool", "dict", "list", "tuple", "set", "frozenset", "min", "max", "sorted", "sum", "abs", "round",
              "range", "enumerate", "zip", "iter", "type", "repr", "hasattr", "getattr", "callable", "any", "all", "ord", "chr", "id", "reversed", "map", "filter",
              "bytes", "bytearray", "divmod", "format", "hash", "issubclass", "next"}
PURE_METHODS = {"get", "startswith", "endswith", "format", "split", "rsplit", "join", "lower", "upper", "strip", "lstrip", "rstrip", "replace", "encode", "decode",
                "keys", "values", "items", "partition", "rpartition", "find", "rfind", "index", "count", "copy", "capitalize", "title", "isdigit", "isalpha",
                "isalnum", "zfill", "splitlines", "casefold", "ljust", "rjust", "timestamp", "total_seconds", "isoformat", "group", "groups", "match", "search",
                "fullmatch", "hexdigest", "digest"}
PURE_DOTTED = {"json.dumps", "json.loads", "time.time", "os.environ.get", "os.path.join", "re.compile", "re.match", "re.search", "re.escape", "re.fullmatch",
               "copy.deepcopy", "math.floor", "math.ceil", "math.pow", "base64.b64encode", "base64.b64decode", "uuid.uuid4", "datetime.now", "stdjson.loads", "stdjson.dumps"}


class TooComplex(Exception):
    pass


# ---------------------------------------------------------------------------------------------------------- expressions

def _is_loggy_call(call):
    f = call.func
    parts = []
    while isinstance(f, (ast.Attribute, ast.Call, ast.Subscript)):
        if isinstance(f, ast.Attribute):
            parts.append(f.attr)
            f = f.value
        elif isinstance(f, ast.Call):
            f = f.func
        else:
            f = f.value
    if isinstance(f, ast.Name):
        parts.append(f.id)
    return any(any(w in p for w in LOGGY) for p in parts) or (isinstance(call.func, ast.Name) and call.func.id == "print")


class _Subst(ast.NodeTransformer):
    """substitute locals by their definitions; strip await; canonicalise string building"""

    def __init__(self, env):
        self.env = env

    def visit_Name(self, node):
        if isinstance(node.ctx, ast.Load) and node.id in self.env:
            return copy.deepcopy(self.env[node.id])
        return node

    def visit_Await(self, node):
        return self.visit(node.value)

    def visit_Lambda(self, node):
        return node

    def visit_ListComp(self, node):
        return self._comp(node)

    visit_SetComp = visit_DictComp = visit_GeneratorExp = visit_ListComp

    def _comp(self, node):
        # names bound by the comprehension shadow the environment
        bound = set()
        for g in node.generators:
            for n in ast.walk(g.target):
                if isinstance(n, ast.Name):
                    bound.add(n.id)
        saved = self.env
        self.env = {k: v for k, v in saved.items() if k not in bound}
        try:
            return self.generic_visit(node)
        finally:
            self.env = saved


def _concat_parts(node):
    """flatten string building into a list of parts (Constant str or expression) or None if `node` is not string building"""
    if isinstance(node, ast.JoinedStr):
        out = []
        for v in node.values:
            if isinstance(v, ast.Constant):
                out.append(v)
            elif isinstance(v, ast.FormattedValue) and v.conversion == -1 and v.format_spec is None:
                out.extend(_concat_parts(v.value) or [v.value])
            else:
                return None
        return out
    if isinstance(node, ast.BinOp) and isinstance(node.op, ast.Add):
        l, r = _concat_parts(node.left), _concat_parts(node.right)
        lstr = l is not None or (isinstance(node.left, ast.Constant) and isinstance(node.left.value, str))
        rstr = r is not None or (isinstance(node.right, ast.Constant) and isinstance(node.right.value, str))
        if lstr or rstr:
            return (l or [node.left]) + (r or [node.right])
        return None
    if isinstance(node, ast.Call) and isinstance(node.func, ast.Attribute) and node.func.attr == "format" and isinstance(node.func.value, ast.Constant) \
            and isinstance(node.func.value.value, str) and not node.keywords:
        tmpl = node.func.value.value
        pieces = tmpl.split("{}")
        if len(pieces) - 1 != len(node.args) or "{" in "".join(pieces) or "}" in "".join(pieces):
            return None
        out = []
        for i, p in enumerate(pieces):
            if p:
                out.append(ast.Constant(p))
            if i < len(node.args):
                a = node.args[i]
                out.extend(_concat_parts(a) or [a])
        return out
    if isinstance(node, ast.BinOp) and isinstance(node.op, ast.Mod) and isinstance(node.left, ast.Constant) and isinstance(node.left.value, str):
        tmpl = node.left.value
        args = node.right.elts if isinstance(node.right, ast.Tuple) else [node.right]
        pieces = tmpl.split("%s")
        if len(pieces) - 1 != len(args) or "%" in "".join(pieces):
            return None
        out = []
        for i, p in enumerate(pieces):
            if p:
                out.append(ast.Constant(p))
            if i < len(args):
                out.append(args[i])
        return out
    return None


class _Canon(ast.NodeTransformer):
    """algebraic normal forms of expressions (applied bottom-up after substitution)"""

    def visit_BinOp(self, node):
        parts = _concat_parts(node)
        if parts is not None:
            return self._concat(parts)
        return self.generic_visit(node)

    def visit_JoinedStr(self, node):
        parts = _concat_parts(node)
        if parts is not None:
            return self._concat(parts)
        return self.generic_visit(node)

    def visit_Call(self, node):
        parts = _concat_parts(node)
        if parts is not None:
            return self._concat(parts)
        node = self.generic_visit(node)
        # str(<str concat>) == the concat; bool(bool(x)) etc. are left alone
        return node

    def _concat(self, parts):
        parts = [self.visit(p) if not isinstance(p, ast.Constant) else p for p in parts]
        merged = []
        for p in parts:
            # inside string building str(x) and x denote the same text whenever both forms are legal (x is a str for `+`)
            if isinstance(p, ast.Call) and isinstance(p.func, ast.Name) and p.func.id == "str" and len(p.args) == 1 and not p.keywords:
                p = p.args[0]
            if isinstance(p, ast.Call) and isinstance(p.func, ast.Name) and p.func.id == "_concat":
                merged.extend(p.args)
                continue
            if isinstance(p, ast.Constant) and isinstance(p.value, str) and merged and isinstance(merged[-1], ast.Constant) and isinstance(merged[-1].value, str):
                merged[-1] = ast.Constant(merged[-1].value + p.value)
            else:
                merged.append(p)
        if len(merged) == 1 and isinstance(merged[0], ast.Constant):
            return merged[0]
        return ast.Call(ast.Name("_concat", ast.Load()), merged, [])

    def visit_Compare(self, node):
        node = self.generic_visit(node)
        if len(node.ops) == 1:
            op, l, r = node.ops[0], node.left, node.comparators[0]
            none_r = isinstance(r, ast.Constant) and r.value is None
            none_l = isinstance(l, ast.Constant) and l.value is None
            if isinstance(op, (ast.Eq, ast.Is)) and (none_r or none_l):
                return ast.Compare(l if none_r else r, [ast.Is()], [ast.Constant(None)])
            if isinstance(op, (ast.NotEq, ast.IsNot)) and (none_r or none_l):
                return ast.Compare(l if none_r else r, [ast.IsNot()], [ast.Constant(None)])
        return node


def norm_expr(node, env):
    """normalised AST of an expression under the substitution `env`"""
    n = _Subst(env).visit(copy.deepcopy(node))
    n = _Canon().visit(n)
    return ast.fix_missing_locations(n)


def text(node):
    if node is None:
        return "None"
    if isinstance(node, str):
        return node
    return " ".join(ast.unparse(node).split())


def impure_calls(node):
    """calls in `node` (evaluation order approximated by source order) that may have effects"""
    out = []
    for n in ast.walk(node):
        if isinstance(n, ast.Lambda):
            continue
        if isinstance(n, ast.Call) and not is_pure_call(n):
            out.append(n)
    out.sort(key=lambda c: (getattr(c, "end_lineno", 0), getattr(c, "end_col_offset", 0)))
    return out


def is_pure_call(call):
    f = call.func
    if isinstance(f, ast.Name):
        return f.id in PURE_FUNCS or f.id == "_concat" or (f.id[:1].isupper() and f.id.endswith(("Error", "Exception", "Failure")))
    if isinstance(f, ast.Attribute):
        d = _dotted(f)
        if d in PURE_DOTTED:
            return True
        if f.attr in PURE_METHODS:
            return True
    return False


def _dotted(node):
    parts = []
    while isinstance(node, ast.Attribute):
        parts.append(node.attr)
        node = node.value
    if isinstance(node, ast.Name):
        parts.append(node.id)
        return ".".join(reversed(parts))
    return None


# ---------------------------------------------------------------------------------------------------------- formulas

def formula(node):
    """boolean formula over atoms: ('atom', text) | ('not', f) | ('and', [f]) | ('or', [f]) | ('const', bool)"""
    if isinstance(node, ast.BoolOp):
        fs = [formula(v) for v in node.values]
        return ("and" if isinstance(node.op, ast.And) else "or", fs)
    if isinstance(node, ast.UnaryOp) and isinstance(node.op, ast.Not):
        return ("not", formula(node.operand))
    if isinstance(node, ast.Constant):
        return ("const", bool(node.value))
    if isinstance(node, ast.Compare) and len(node.ops) == 1:
        op, l, r = node.ops[0], node.left, node.comparators[0]
        lt, rt = text(l), text(r)
        if isinstance(op, ast.Eq):
            a, b = sorted((lt, rt))
            return ("atom", "%s == %s" % (a, b))
        if isinstance(op, ast.NotEq):
            a, b = sorted((lt, rt))
            return ("not", ("atom", "%s == %s" % (a, b)))
        if isinstance(op, ast.Is):
            return ("atom", "%s is %s" % (lt, rt))
        if isinstance(op, ast.IsNot):
            return ("not", ("atom", "%s is %s" % (lt, rt)))
        if isinstance(op, ast.In):
            if isinstance(r, (ast.Tuple, ast.List, ast.Set)) and r.elts and all(isinstance(e, ast.Constant) for e in r.elts):
                return ("or", [("atom", "%s == %s" % tuple(sorted((lt, text(e))))) for e in r.elts])
            return ("atom", "%s in %s" % (lt, rt))
        if isinstance(op, ast.NotIn):
            return ("not", formula(ast.Compare(l, [ast.In()], [r])))
        if isinstance(op, ast.Lt):
            return ("atom", "%s < %s" % (lt, rt))
        if isinstance(op, ast.Gt):
            return ("atom", "%s < %s" % (rt, lt))
        if isinstance(op, ast.GtE):
            return ("not", ("atom", "%s < %s" % (lt, rt)))
        if isinstance(op, ast.LtE):
            return ("not", ("atom", "%s < %s" % (rt, lt)))
    if isinstance(node, ast.Compare) and len(node.ops) > 1:
        fs, l = [], node.left
        for op, r in zip(node.ops, node.comparators):
            fs.append(formula(ast.Compare(l, [op], [r])))
            l = r
        return ("and", fs)
    if isinstance(node, ast.Call) and isinstance(node.func, ast.Name) and node.func.id == "isinstance" and len(node.args) == 2 and isinstance(node.args[1], ast.Tuple):
        return ("or", [("atom", "isinstance(%s, %s)" % (text(node.args[0]), text(e))) for e in node.args[1].elts])
    if isinstance(node, ast.Call) and isinstance(node.func, ast.Name) and node.func.id == "bool" and len(node.args) == 1:
        return formula(node.args[0])
    if isinstance(node, ast.IfExp):
        c, a, b = formula(node.test), formula(node.body), formula(node.orelse)
        return ("or", [("and", [c, a]), ("and", [("not", c), b])])
    return ("atom", text(node))


def atoms_of(f, out=None):
    out = set() if out is None else out
    if f[0] == "atom":
        out.add(f[1])
    elif f[0] == "not":
        atoms_of(f[1], out)
    elif f[0] in ("and", "or"):
        for g in f[1]:
            atoms_of(g, out)
    return out


def evalf(f, asg):
    k = f[0]
    if k == "atom":
        return asg[f[1]]
    if k == "const":
        return f[1]
    if k == "not":
        return not evalf(f[1], asg)
    if k == "and":
        return all(evalf(g, asg) for g in f[1])
    return any(evalf(g, asg) for g in f[1])


def ftext(f):
    k = f[0]
    if k == "atom":
        return f[1]
    if k == "const":
        return str(f[1])
    if k == "not":
        return "not (%s)" % ftext(f[1])
    return "(" + (" %s " % k).join(ftext(g) for g in f[1]) + ")"


# ---------------------------------------------------------------------------------------------------------- tables

class Path:
    __slots__ = ("cond", "trace", "exit", "env")

    def __init__(self, cond=(), trace=(), exit=None, env=None):
        self.cond, self.trace, self.exit, self.env = list(cond), list(trace), exit, dict(env or {})

    def fork(self):
        return Path(self.cond, self.trace, self.exit, self.env)


class Table:
    """the normal form of a statement list"""

    def __init__(self, paths):
        self.paths = paths

    def atoms(self):
        out = set()
        for p in self.paths:
            for f, _ in p.cond:
                atoms_of(f, out)
            for ev in p.trace:
                _event_atoms(ev, out, top=False)
        return out

    def top_atoms(self):
        out = set()
        for p in self.paths:
            for f, _ in p.cond:
                atoms_of(f, out)
        return out

    def select(self, asg):
        for p in self.paths:
            if all(evalf(f, asg) == pol for f, pol in p.cond):
                return p
        return None

    def describe(self, limit=12):
        out = []
        for p in self.paths[:limit]:
            out.append("if %s: %s => %s" % (" and ".join(("" if pol else "not ") + ftext(f) for f, pol in p.cond) or "True",
                                             "; ".join(event_text(e) for e in p.trace) or "-", exit_text(p.exit)))
        return out


def _event_atoms(ev, out, top):
    pass


def event_text(ev):
    k = ev[0]
    if k in ("call", "del", "yield"):
        return "%s %s" % (k, ev[1])
    if k == "store":
        return "%s = %s" % (ev[1], ev[2])
    if k == "set":
        return "%s := %s" % (ev[1], ev[2])
    if k == "for":
        return "for %s in %s {%s}" % (ev[1], ev[2], " | ".join(ev[3].describe(6)))
    if k == "while":
        return "while %s {%s}" % (ev[1], " | ".join(ev[2].describe(6)))
    if k == "with":
        return "with %s" % ev[1]
    if k == "endwith":
        return "endwith"
    if k == "try":
        return "try#%d" % ev[1]
    return str(ev)


def exit_text(ex):
    if ex is None or (ex[0] == "return" and ex[1] in (None, "None")):
        return "return None"
    return "%s %s" % (ex[0], ex[1]) if len(ex) > 1 and ex[1] is not None else ex[0]


class Summariser:
    def __init__(self, func_node, helpers=None, keep=(), max_paths=400, class_node=None, module_funcs=None, opaque_params=True):
        """helpers: name -> FunctionDef that may be inlined (nested functions are added automatically);
        keep: names of callables that must NOT be inlined (the reference names them too)"""
        self.func = func_node
        self.helpers = dict(helpers or {})
        self.keep = set(keep)
        self.max_paths = max_paths
        self.ntry = 0
        self.nloop = 0
        self.inline_depth = 0
        for n in func_node.body:
            if isinstance(n, (ast.FunctionDef, ast.AsyncFunctionDef)):
                self.helpers.setdefault(n.name, n)
        self.carried = self._carried_names(func_node)

    # -- which locals are loop-carried (cannot be substituted across iterations)
    def _carried_names(self, func):
        carried = set()

        def visit(stmts):
            for s in stmts:
                if isinstance(s, (ast.For, ast.AsyncFor, ast.While)):
                    assigned = set()
                    for n in ast.walk(s):
                        if isinstance(n, ast.Name) and isinstance(n.ctx, ast.Store):
                            assigned.add(n.id)
                    if isinstance(s, (ast.For, ast.AsyncFor)):
                        for n in ast.walk(s.target):
                            if isinstance(n, ast.Name):
                                assigned.discard(n.id)
                    # read before written inside the body (textual order), or read in the loop test / after the loop
                    seen_w = set()
                    rbw = set()
                    nodes = []
                    for b in ([s.test] if isinstance(s, ast.While) else []) + s.body:
                        nodes.extend(sorted((n for n in ast.walk(b) if isinstance(n, ast.Name)), key=lambda n: (n.lineno, n.col_offset, isinstance(n.ctx, ast.Store))))
                    # an augmented assignment reads its target
                    for b in s.body:
                        for n in ast.walk(b):
                            if isinstance(n, ast.AugAssign) and isinstance(n.target, ast.Name):
                                rbw.add(n.target.id)
                    for n in nodes:
                        if isinstance(n.ctx, ast.Store):
                            seen_w.add(n.id)
                        elif n.id in assigned and n.id not in seen_w:
                            rbw.add(n.id)
                    after = set()
                    for n in ast.walk(func):
                        if isinstance(n, ast.Name) and isinstance(n.ctx, ast.Load) and n.id in assigned and getattr(n, "lineno", 0) > s.end_lineno:
                            after.add(n.id)
                    carried.update(rbw & assigned)
                    carried.update(after)
                for fld in ("body", "orelse", "finalbody"):
                    b = getattr(s, fld, None)
                    if isinstance(b, list) and b and isinstance(b[0], ast.stmt) and not isinstance(s, (ast.FunctionDef, ast.AsyncFunctionDef, ast.ClassDef)):
                        visit(b)
                if isinstance(s, ast.Try):
                    for h in s.handlers:
                        visit(h.body)
        visit(func.body)
        return carried

    # -- entry
    def table(self):
        env = {}
        paths = self._seq(self.func.body, [Path(env=env)], in_loop=False)
        return Table(paths)

    # -- statements
    def _seq(self, stmts, paths, in_loop):
        for s in stmts:
            nxt = []
            for p in paths:
                if p.exit is not None:
                    nxt.append(p)
                else:
                    nxt.extend(self._stmt(s, p, in_loop))
            paths = nxt
            if len(paths) > self.max_paths:
                raise TooComplex("more than %d paths" % self.max_paths)
        return paths

    def _emit_calls(self, p, node_norm, whole=None):
        """emit the impure calls contained in a normalised expression (inner first); `whole` = the statement-level call, emitted last"""
        for c in impure_calls(node_norm):
            if _is_loggy_call(c):
                continue
            t = text(c)
            ev = ("call", t)
            # the same call text emitted by the immediately preceding definition of a temp is not emitted twice
            if p.trace and p.trace[-1] == ev and whole is not c:
                continue
            if ("call", t) in p.trace[-6:] and c is not whole and any(t == text(v) or t in text(v) for v in p.env.values()):
                continue
            p.trace.append(ev)

    def _stmt(self, s, p, in_loop):
        if isinstance(s, (ast.Pass, ast.Global, ast.Nonlocal, ast.Import, ast.ImportFrom, ast.Assert, ast.FunctionDef, ast.AsyncFunctionDef, ast.ClassDef)):
            return [p]
        if isinstance(s, ast.Expr):
            v = s.value
            while isinstance(v, ast.Await):
                v = v.value
            if isinstance(v, ast.Constant):
                return [p]
            if isinstance(v, (ast.Yield, ast.YieldFrom)):
                val = norm_expr(v.value, p.env) if v.value is not None else None
                if val is not None:
                    self._emit_calls(p, val)
                p.trace.append(("yield", ("from " if isinstance(v, ast.YieldFrom) else "") + text(val)))
                return [p]
            if isinstance(v, ast.Call):
                if _is_loggy_call(v):
                    return [p]
                inl = self._try_inline(v, p, in_loop)
                if inl is not None:
                    return [q for q, _ in inl]
                n = norm_expr(v, p.env)
                self._emit_calls(p, n, whole=n)
                return [p]
            n = norm_expr(v, p.env)
            self._emit_calls(p, n)
            return [p]
        if isinstance(s, (ast.Assign, ast.AnnAssign)):
            if isinstance(s, ast.AnnAssign):
                if s.value is None:
                    return [p]
                targets, value = [s.target], s.value
            else:
                targets, value = s.targets, s.value
            while isinstance(value, ast.Await):
                value = value.value
            outs = [(p, None)]
            if isinstance(value, ast.Call) and not _is_loggy_call(value):
                inl = self._try_inline(value, p, in_loop)
                if inl is not None:
                    outs = inl
            res = []
            for q, rv in outs:
                if q.exit is not None:
                    res.append(q)
                    continue
                vn = rv if rv is not None else norm_expr(value, q.env)
                if rv is None:
                    self._emit_calls(q, vn)
                for t in targets:
                    self._assign(t, vn, q, in_loop)
                res.append(q)
            return res
        if isinstance(s, ast.AugAssign):
            cur = ast.Name(s.target.id, ast.Load()) if isinstance(s.target, ast.Name) else copy.deepcopy(s.target)
            if not isinstance(s.target, ast.Name):
                for n in ast.walk(cur):
                    if hasattr(n, "ctx"):
                        n.ctx = ast.Load()
            vn = norm_expr(ast.BinOp(cur, s.op, s.value), p.env)
            self._emit_calls(p, vn)
            self._assign(s.target, vn, p, in_loop)
            return [p]
        if isinstance(s, ast.Delete):
            for t in s.targets:
                if isinstance(t, ast.Name):
                    p.env.pop(t.id, None)
                else:
                    tn = norm_expr(self._load(t), p.env)
                    self._emit_calls(p, tn)
                    p.trace.append(("del", text(tn)))
            return [p]
        if isinstance(s, ast.Return):
            v = s.value
            while isinstance(v, ast.Await):
                v = v.value
            if isinstance(v, ast.Call) and not _is_loggy_call(v):
                inl = self._try_inline(v, p, in_loop)
                if inl is not None:
                    res = []
                    for q, rv in inl:
                        if q.exit is None:
                            q.exit = ("return", text(rv) if rv is not None else "None")
                        res.append(q)
                    return res
            vn = norm_expr(v, p.env) if v is not None else None
            if vn is not None:
                self._emit_calls(p, vn)
            p.exit = ("return", _ret_text(vn))
            return [p]
        if isinstance(s, ast.Raise):
            vn = norm_expr(s.exc, p.env) if s.exc is not None else None
            p.exit = ("raise", text(vn) if vn is not None else "<re-raise>")
            return [p]
        if isinstance(s, ast.Break):
            p.exit = ("break", None)
            return [p]
        if isinstance(s, ast.Continue):
            p.exit = ("continue", None)
            return [p]
        if isinstance(s, ast.If):
            tn = norm_expr(s.test, p.env)
            self._emit_calls(p, tn)
            f = formula(tn)
            outs = []
            known = self._known(f, p)
            if known is not False:
                a = p.fork()
                if known is None:
                    a.cond.append((f, True))
                outs.extend(self._seq(s.body, [a], in_loop))
            if known is not True:
                b = p.fork()
                if known is None:
                    b.cond.append((f, False))
                outs.extend(self._seq(s.orelse, [b], in_loop))
            return outs
        if isinstance(s, (ast.For, ast.AsyncFor)):
            itn = norm_expr(s.iter, p.env)
            self._emit_calls(p, itn)
            body_env = dict(p.env)
            for n in ast.walk(s.target):
                if isinstance(n, ast.Name):
                    body_env.pop(n.id, None)
            for c in self.carried:
                pass
            sub = Table(self._seq(s.body, [Path(env=body_env)], in_loop=True))
            for q in sub.paths:
                q.env = {}
            p.trace.append(("for", text(s.target), text(itn), sub))
            if s.orelse:
                return self._seq(s.orelse, [p], in_loop)
            self._forget_assigned(s, p)
            return [p]
        if isinstance(s, ast.While):
            tn = norm_expr(s.test, {k: v for k, v in p.env.items() if k not in self.carried})
            sub = Table(self._seq(s.body, [Path(env=dict(p.env))], in_loop=True))
            for q in sub.paths:
                q.env = {}
            p.trace.append(("while", ftext(formula(tn)), sub))
            self._forget_assigned(s, p)
            if s.orelse:
                return self._seq(s.orelse, [p], in_loop)
            return [p]
        if isinstance(s, (ast.With, ast.AsyncWith)):
            for it in s.items:
                cn = norm_expr(it.context_expr, p.env)
                if _is_loggy_call(cn) if isinstance(cn, ast.Call) else False:
                    continue
                p.trace.append(("with", text(cn) + ((" as " + text(it.optional_vars)) if it.optional_vars is not None else "")))
                if it.optional_vars is not None:
                    for n in ast.walk(it.optional_vars):
                        if isinstance(n, ast.Name):
                            p.env.pop(n.id, None)
            outs = self._seq(s.body, [p], in_loop)
            for q in outs:
                if q.exit is None:
                    q.trace.append(("endwith",))
            return outs
        if isinstance(s, ast.Try):
            self.ntry += 1
            k = self.ntry
            entry = p.fork()
            htypes = []
            for h in s.handlers:
                htypes.append(text(h.type) if h.type is not None else "BaseException")
            normal = p
            for t in htypes:
                normal.cond.append((("atom", "try#%d raises %s" % (k, t)), False))
            outs = self._seq(s.body, [normal], in_loop)
            if s.orelse:
                outs = self._seq(s.orelse, outs, in_loop)
            for i, h in enumerate(s.handlers):
                q = entry.fork()
                for j, t in enumerate(htypes):
                    q.cond.append((("atom", "try#%d raises %s" % (k, t)), j == i))
                    if j == i:
                        break
                # effects of the try body that precede the raising statement are not known: mark them
                q.trace.append(("try", k, htypes[i], self._body_effects(s.body, entry)))
                if h.name:
                    q.env.pop(h.name, None)
                outs.extend(self._seq(h.body, [q], in_loop))
            if s.finalbody:
                res = []
                for q in outs:
                    ex, q.exit = q.exit, None
                    for r in self._seq(s.finalbody, [q], in_loop):
                        if r.exit is None:
                            r.exit = ex
                        res.append(r)
                outs = res
            return outs
        if isinstance(s, ast.Match):
            raise TooComplex("match statement")
        raise TooComplex("statement %s" % type(s).__name__)

    def _body_effects(self, body, entry):
        """the effect trace of the try body on its straight normal path, as text (so that moving an effect into / out of the try is seen)"""
        try:
            sub = Summariser.__new__(Summariser)
            sub.__dict__.update(self.__dict__)
            paths = sub._seq(body, [Path(env=dict(entry.env))], in_loop=False)
            return tuple(sorted({"; ".join(event_text(e) for e in q.trace) for q in paths}))
        except TooComplex:
            return ("<complex>",)

    def _forget_assigned(self, loop, p):
        for n in ast.walk(loop):
            if isinstance(n, ast.Name) and isinstance(n.ctx, ast.Store):
                p.env.pop(n.id, None)

    def _load(self, t):
        t = copy.deepcopy(t)
        for n in ast.walk(t):
            if hasattr(n, "ctx"):
                n.ctx = ast.Load()
        return t

    def _assign(self, target, vn, p, in_loop):
        if isinstance(target, ast.Name):
            if target.id in self.carried:
                p.trace.append(("set", target.id, text(vn)))
                p.env.pop(target.id, None)
            else:
                p.env[target.id] = vn
            return
        if isinstance(target, (ast.Tuple, ast.List)):
            if isinstance(vn, (ast.Tuple, ast.List)) and len(vn.elts) == len(target.elts):
                for t, v in zip(target.elts, vn.elts):
                    self._assign(t, v, p, in_loop)
            else:
                for i, t in enumerate(target.elts):
                    self._assign(t, ast.Subscript(vn, ast.Constant(i), ast.Load()), p, in_loop)
            return
        tn = norm_expr(self._load(target), p.env)
        p.trace.append(("store", text(tn), text(vn)))

    def _known(self, f, p):
        """truth of formula f if the path already decided it (same formula text, or a single atom decided)"""
        ft = ftext(f)
        for g, pol in p.cond:
            if ftext(g) == ft:
                return pol
            if g[0] == "not" and ftext(g[1]) == ft:
                return not pol
            if f[0] == "not" and ftext(f[1]) == ftext(g):
                return not pol
        if f[0] == "const":
            return f[1]
        return None

    # -- inlining of helpers the reference does not know
    def _resolve_helper(self, call):
        f = call.func
        if isinstance(f, ast.Name) and f.id in self.helpers and f.id not in self.keep:
            return self.helpers[f.id], False
        if isinstance(f, ast.Attribute) and isinstance(f.value, ast.Name) and f.value.id in ("self", "cls") and ("self." + f.attr) in self.helpers \
                and ("self." + f.attr) not in self.keep:
            return self.helpers["self." + f.attr], True
        return None, False

    def _try_inline(self, call, p, in_loop):
        """-> list of (path, return value AST or None) or None when the call is not inlined"""
        h, is_method = self._resolve_helper(call)
        if h is None or self.inline_depth >= 3:
            return None
        if any(isinstance(a, ast.Starred) for a in call.args) or any(k.arg is None for k in call.keywords):
            return None
        params = [a.arg for a in h.args.posonlyargs + h.args.args]
        if is_method and params and params[0] in ("self", "cls"):
            params = params[1:]
        if h.args.vararg or h.args.kwarg:
            return None
        defaults = h.args.defaults
        bind = {}
        for name, a in zip(params, call.args):
            bind[name] = norm_expr(a, p.env)
        for k in call.keywords:
            if k.arg in params or k.arg in [a.arg for a in h.args.kwonlyargs]:
                bind[k.arg] = norm_expr(k.value, p.env)
        for name, d in zip(params[len(params) - len(defaults):], defaults):
            bind.setdefault(name, d)
        for a, d in zip(h.args.kwonlyargs, h.args.kw_defaults):
            if d is not None:
                bind.setdefault(a.arg, d)
        if any(n not in bind for n in params):
            return None
        # nested functions see the caller's locals (closure); methods do not
        env = dict(p.env) if not is_method else {}
        env.update(bind)
        start = p.fork()
        start.env = env
        self.inline_depth += 1
        saved_carried = self.carried
        try:
            self.carried = self._carried_names(h)
            outs = self._seq(h.body, [start], in_loop=False)
        finally:
            self.carried = saved_carried
            self.inline_depth -= 1
        res = []
        for q in outs:
            rv = None
            if q.exit is not None and q.exit[0] == "return":
                rv = q.exit[2] if len(q.exit) > 2 else None
                q.exit = None
            elif q.exit is None:
                rv = ast.Constant(None)
            # restore the caller's environment (closure writes via nonlocal are not modelled)
            q.env = dict(p.env)
            res.append((q, rv))
        return res


def _ret_text(vn):
    return text(vn) if vn is not None else "None"


# `return` inside an inlined helper must hand back an AST, not text: patch Return handling to keep the AST in exit[2]
_orig_stmt = Summariser._stmt


def _stmt_keep_ast(self, s, p, in_loop):
    if isinstance(s, ast.Return) and self.inline_depth > 0:
        v = s.value
        while isinstance(v, ast.Await):
            v = v.value
        if isinstance(v, ast.Call) and not _is_loggy_call(v):
            inl = self._try_inline(v, p, in_loop)
            if inl is not None:
                res = []
                for q, rv in inl:
                    if q.exit is None:
                        q.exit = ("return", text(rv) if rv is not None else "None", rv if rv is not None else ast.Constant(None))
                    res.append(q)
                return res
        vn = norm_expr(v, p.env) if v is not None else ast.Constant(None)
        self._emit_calls(p, vn)
        p.exit = ("return", text(vn), vn)
        return [p]
    return _orig_stmt(self, s, p, in_loop)


Summariser._stmt = _stmt_keep_ast


# ---------------------------------------------------------------------------------------------------------- equivalence

def events_equal(a, b, diffs, ctx):
    if a[0] != b[0]:
        return False
    k = a[0]
    if k == "for":
        return a[1] == b[1] and a[2] == b[2] and tables_equal(a[3], b[3], diffs, ctx + " > for %s" % a[1])
    if k == "while":
        return a[1] == b[1] and tables_equal(a[2], b[2], diffs, ctx + " > while")
    return a == b


def tables_equal(ta, tb, diffs, ctx="", max_atoms=14):
    atoms = sorted(ta.top_atoms() | tb.top_atoms())
    if len(atoms) > max_atoms:
        raise TooComplex("%d atoms" % len(atoms))
    ok = True
    seen = set()
    for bits in itertools.product((False, True), repeat=len(atoms)):
        asg = dict(zip(atoms, bits))
        pa, pb = ta.select(asg), tb.select(asg)
        if pa is None and pb is None:
            continue
        key = (id(pa), id(pb))
        if key in seen:
            continue
        seen.add(key)
        why = None
        if pa is None or pb is None:
            why = "only one side has a path"
        elif exit_text(pa.exit[:2] if pa.exit else None) != exit_text(pb.exit[:2] if pb.exit else None):
            why = "ends differently: `%s` vs reference `%s`" % (exit_text(pa.exit[:2] if pa.exit else None), exit_text(pb.exit[:2] if pb.exit else None))
        elif len(pa.trace) != len(pb.trace):
            why = "effects differ: [%s] vs reference [%s]" % ("; ".join(event_text(e) for e in pa.trace), "; ".join(event_text(e) for e in pb.trace))
        else:
            for ea, eb in zip(pa.trace, pb.trace):
                sub = []
                if not events_equal(ea, eb, sub, ctx):
                    why = "effect differs: `%s` vs reference `%s`" % (event_text(ea)[:200], event_text(eb)[:200])
                    if sub:
                        why = sub[0]
                    break
        if why:
            ok = False
            when = " and ".join(("" if v else "not ") + a for a, v in asg.items() if _relevant(a, pa, pb)) or "always"
            diffs.append("%s[when %s] %s" % ((ctx + " ") if ctx else "", when, why))
            if len(diffs) > 6:
                return False
    return ok


def _relevant(atom, pa, pb):
    for p in (pa, pb):
        if p is None:
            continue
        for f, _ in p.cond:
            if atom in atoms_of(f):
                return True
    return False


def parse_reference(src):
    tree = ast.parse(src)
    fn = [n for n in tree.body if isinstance(n, (ast.FunctionDef, ast.AsyncFunctionDef))]
    if len(fn) < 1:
        raise ValueError("reference has no function")
    helpers = {n.name: n for n in fn[1:]}
    return fn[0], helpers


def compare(func_node, ref_src, helpers=None, keep=()):
    """-> (equal: bool, diffs: [str], stats: dict).  Raises TooComplex when either side is outside the fragment."""
    ref_fn, ref_helpers = parse_reference(ref_src)
    # callables named by the reference are part of the interface: never inline them on the repo side
    named = set(keep)
    for n in ast.walk(ref_fn):
        if isinstance(n, ast.Call):
            d = _dotted(n.func)
            if d:
                named.add(d)
    sa = Summariser(func_node, helpers=helpers, keep=named)
    sb = Summariser(ref_fn, helpers=ref_helpers, keep=())
    ta, tb = sa.table(), sb.table()
    diffs = []
    eq = tables_equal(ta, tb, diffs)
    pa = [a.arg for a in func_node.args.posonlyargs + func_node.args.args + func_node.args.kwonlyargs]
    pb = [a.arg for a in ref_fn.args.posonlyargs + ref_fn.args.args + ref_fn.args.kwonlyargs]
    if pa != pb:
        eq = False
        diffs.insert(0, "parameters %s vs reference %s" % (pa, pb))
    da = [text(d) for d in func_node.args.defaults + [d for d in func_node.args.kw_defaults if d is not None]]
    db = [text(d) for d in ref_fn.args.defaults + [d for d in ref_fn.args.kw_defaults if d is not None]]
    if da != db:
        eq = False
        diffs.insert(0, "parameter defaults %s vs reference %s" % (da, db))
    return eq, diffs, {"paths": len(ta.paths), "ref_paths": len(tb.paths), "atoms": len(ta.top_atoms() | tb.top_atoms())}
