"""E3: statement-level control-flow graph with exception edges, dominators.

Node kinds: entry, exit (normal return / fall off), raise_exit (exception escapes),
stmt, test (if/while condition), loop (for header), except (handler entry), with.
Edge labels: None, ("T", expr), ("F", expr), "iter", "done", ("exc", frozenset(classes)).
"""
import ast
from collections import defaultdict

OTHER = "<other>"          # an exception that only a catch-all handler catches
CATCH_ALL = {"Exception", "BaseException"}


class Node:
    __slots__ = ("id", "kind", "ast", "handler_types")

    def __init__(self, id, kind, node=None):
        self.id, self.kind, self.ast = id, kind, node
        self.handler_types = None

    @property
    def lineno(self):
        return getattr(self.ast, "lineno", 0)

    def __repr__(self):
        return "<%d %s L%s>" % (self.id, self.kind, self.lineno)


class CFG:
    def __init__(self, func_node, may_raise=None):
        """may_raise(ast_node) -> set of exception class names the statement/expression may raise."""
        self.func = func_node
        self.nodes = {}
        self.succ = defaultdict(list)   # id -> [(id, label)]
        self.pred = defaultdict(list)
        self.stmt_node = {}             # id(ast stmt) -> node id
        self.may_raise = may_raise or (lambda n: set())
        self._n = 0
        self.entry = self._new("entry").id
        self.exit = self._new("exit").id
        self.raise_exit = self._new("raise_exit").id
        ends = self._seq(func_node.body, [(self.entry, None)], {"handlers": [], "loop": None})
        for p, l in ends:
            self._edge(p, self.exit, l)

    # -- construction
    def _new(self, kind, node=None):
        self._n += 1
        n = Node(self._n, kind, node)
        self.nodes[n.id] = n
        if node is not None and isinstance(node, ast.stmt) and kind != "except":
            self.stmt_node.setdefault(id(node), n.id)
        return n

    def _edge(self, a, b, label=None):
        self.succ[a].append((b, label))
        self.pred[b].append((a, label))

    def _link(self, preds, n):
        for p, l in preds:
            self._edge(p, n, l)

    def _raise_edges(self, nid, classes, ctx):
        """route exception classes from node nid through the handler stack."""
        if not classes:
            return
        remaining = set(classes)
        for frame in reversed(ctx["handlers"]):
            if not remaining:
                break
            caught_here = set()
            for hid, types in frame:
                if types is None or (types & CATCH_ALL):
                    take = set(remaining) - caught_here
                else:
                    take = {c for c in remaining if c in types} - caught_here
                if take:
                    self._edge(nid, hid, ("exc", frozenset(take)))
                    caught_here |= take
            remaining -= caught_here
        if remaining:
            self._edge(nid, self.raise_exit, ("exc", frozenset(remaining)))

    def _seq(self, stmts, preds, ctx):
        for s in stmts:
            preds = self._stmt(s, preds, ctx)
        return preds

    def _stmt(self, s, preds, ctx):
        if isinstance(s, (ast.FunctionDef, ast.AsyncFunctionDef, ast.ClassDef)):
            return preds
        if isinstance(s, ast.Expr) and isinstance(s.value, ast.Constant):
            return preds
        if isinstance(s, (ast.Pass, ast.Global, ast.Nonlocal, ast.Import, ast.ImportFrom)):
            return preds
        if isinstance(s, ast.If):
            n = self._new("test", s).id
            self._link(preds, n)
            self._raise_edges(n, self.may_raise(s.test), ctx)
            t = self._seq(s.body, [(n, ("T", s.test))], ctx)
            f = self._seq(s.orelse, [(n, ("F", s.test))], ctx)
            return t + f
        if isinstance(s, (ast.For, ast.AsyncFor)):
            h = self._new("loop", s).id
            self._link(preds, h)
            self._raise_edges(h, self.may_raise(s.iter), ctx)
            lctx = dict(ctx, loop={"brk": [], "hdr": h})
            body = self._seq(s.body, [(h, "iter")], lctx)
            self._link(body, h)
            out = self._seq(s.orelse, [(h, "done")], ctx) if s.orelse else [(h, "done")]
            return out + [(b, None) for b in lctx["loop"]["brk"]]
        if isinstance(s, ast.While):
            h = self._new("test", s).id
            self._link(preds, h)
            self._raise_edges(h, self.may_raise(s.test), ctx)
            lctx = dict(ctx, loop={"brk": [], "hdr": h})
            body = self._seq(s.body, [(h, ("T", s.test))], lctx)
            self._link(body, h)
            always = isinstance(s.test, ast.Constant) and bool(s.test.value)
            out = [] if always else (self._seq(s.orelse, [(h, ("F", s.test))], ctx) if s.orelse else [(h, ("F", s.test))])
            return out + [(b, None) for b in lctx["loop"]["brk"]]
        if isinstance(s, ast.Break):
            n = self._new("stmt", s).id
            self._link(preds, n)
            ctx["loop"]["brk"].append(n)
            return []
        if isinstance(s, ast.Continue):
            n = self._new("stmt", s).id
            self._link(preds, n)
            self._edge(n, ctx["loop"]["hdr"])
            return []
        if isinstance(s, ast.Return):
            n = self._new("stmt", s).id
            self._link(preds, n)
            if s.value is not None:
                self._raise_edges(n, self.may_raise(s.value), ctx)
            self._edge(n, self.exit, "return")
            return []
        if isinstance(s, ast.Raise):
            n = self._new("stmt", s).id
            self._link(preds, n)
            cls = OTHER
            if s.exc is not None:
                e = s.exc.func if isinstance(s.exc, ast.Call) else s.exc
                if isinstance(e, ast.Name):
                    cls = e.id
            self._raise_edges(n, {cls}, ctx)
            return []
        if isinstance(s, (ast.Try,) + ((ast.TryStar,) if hasattr(ast, "TryStar") else ())):
            frame = []
            hnodes = []
            for h in s.handlers:
                hn = self._new("except", h)
                types = None
                if h.type is not None:
                    elts = h.type.elts if isinstance(h.type, ast.Tuple) else [h.type]
                    types = set()
                    for e in elts:
                        types.add(e.id if isinstance(e, ast.Name) else (e.attr if isinstance(e, ast.Attribute) else "?"))
                hn.handler_types = types
                frame.append((hn.id, types))
                hnodes.append((h, hn.id))
            tctx = dict(ctx, handlers=ctx["handlers"] + [frame])
            body = self._seq(s.body, preds, tctx)
            body = self._seq(s.orelse, body, ctx)
            outs = list(body)
            for h, hid in hnodes:
                outs += self._seq(h.body, [(hid, None)], ctx)
            if s.finalbody:
                outs = self._seq(s.finalbody, outs, ctx)
            return outs
        if isinstance(s, (ast.With, ast.AsyncWith)):
            n = self._new("with", s).id
            self._link(preds, n)
            cls = set()
            for i in s.items:
                cls |= self.may_raise(i.context_expr)
            self._raise_edges(n, cls, ctx)
            return self._seq(s.body, [(n, None)], ctx)
        n = self._new("stmt", s).id
        self._link(preds, n)
        self._raise_edges(n, self.may_raise(s), ctx)
        return [(n, None)]

    # -- queries
    def node_of(self, stmt):
        return self.stmt_node.get(id(stmt))

    def containing_stmt_node(self, expr, module):
        """CFG node id of the statement that contains expression `expr` (via module parent map)."""
        n = expr
        while n is not None:
            nid = self.stmt_node.get(id(n))
            if nid is not None:
                return nid
            n = module.parent(n)
        return None

    def _dom(self, entry, succ, pred):
        ids = list(self.nodes)
        reach = set()
        stack = [entry]
        while stack:
            x = stack.pop()
            if x in reach:
                continue
            reach.add(x)
            stack.extend(b for b, _ in succ[x])
        dom = {n: set(reach) for n in reach}
        dom[entry] = {entry}
        changed = True
        order = sorted(reach)
        while changed:
            changed = False
            for n in order:
                if n == entry:
                    continue
                ps = [p for p, _ in pred[n] if p in reach]
                if not ps:
                    continue
                new = set.intersection(*(dom[p] for p in ps)) | {n}
                if new != dom[n]:
                    dom[n] = new
                    changed = True
        return dom

    def dominators(self):
        if not hasattr(self, "_domc"):
            self._domc = self._dom(self.entry, self.succ, self.pred)
        return self._domc

    def dominates(self, a, b):
        d = self.dominators()
        return b in d and a in d[b]

    def reachable_from(self, a, avoid=()):
        seen = set()
        stack = [a]
        avoid = set(avoid)
        while stack:
            x = stack.pop()
            if x in seen or x in avoid:
                continue
            seen.add(x)
            stack.extend(b for b, _ in self.succ[x])
        return seen

    def paths_avoiding(self, src, dst, avoid):
        """True if dst is reachable from src without passing through any node in avoid."""
        return dst in self.reachable_from(src, avoid)

    def control_deps(self, nid):
        """Set of (test node id, 'T'/'F') pairs that structurally guard nid: computed from the AST nesting instead of
        post-dominators (sufficient for the guard rules: a statement nested in the body/orelse of an if)."""
        raise NotImplementedError
