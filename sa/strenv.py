"""E6 (path-sensitive part): enumeration of the possible values of a few string-valued locals.

Abstract state at a CFG node = a set of environments, each a tuple of (var, value) with value a concrete
string, None (Python None) or TOP.  Variables start from declared finite domains (one environment per
combination), tests of the forms  x == "c", x != "c", x in {...}, `x`, and/or/not narrow environments, string
assignments / concatenations are folded.  Used by C09.R3 (history event types) and C15/C19 constant rules.
"""
import ast
import itertools

from .cfg import CFG

TOP = "<?>"
MAX_ENVS = 4096


class StrEnv:
    def __init__(self, func_node, domains, sources=None):
        """domains: {var: iterable of strings/None} initial values of free variables/parameters.
        sources(expr) -> iterable of values or None: domain for an otherwise unknown expression."""
        self.func = func_node
        self.cfg = CFG(func_node)
        self.sources = sources or (lambda e: None)
        self.vars = sorted(domains)
        self.domains = domains
        self.at = {}   # node id -> set of env tuples (state on entry)
        self._run()

    # ---- evaluation
    def eval(self, e, env):
        """-> concrete str / None / True / False / TOP"""
        if isinstance(e, ast.Constant):
            return e.value if isinstance(e.value, (str, bool)) or e.value is None else TOP
        if isinstance(e, ast.Name):
            return env.get(e.id, TOP)
        if isinstance(e, ast.BinOp) and isinstance(e.op, ast.Add):
            a, b = self.eval(e.left, env), self.eval(e.right, env)
            if isinstance(a, str) and isinstance(b, str) and TOP not in (a, b):
                return a + b
            return TOP
        if isinstance(e, ast.JoinedStr):
            out = ""
            for v in e.values:
                if isinstance(v, ast.Constant):
                    out += str(v.value)
                elif isinstance(v, ast.FormattedValue):
                    x = self.eval(v.value, env)
                    if not isinstance(x, str) or x == TOP:
                        return TOP
                    out += x
            return out
        if isinstance(e, ast.IfExp):
            t = self.truth(e.test, env)
            if t is True:
                return self.eval(e.body, env)
            if t is False:
                return self.eval(e.orelse, env)
            return TOP
        return TOP

    def truth(self, t, env):
        if isinstance(t, ast.UnaryOp) and isinstance(t.op, ast.Not):
            r = self.truth(t.operand, env)
            return None if r is None else not r
        if isinstance(t, ast.BoolOp):
            rs = [self.truth(v, env) for v in t.values]
            if isinstance(t.op, ast.And):
                if any(r is False for r in rs):
                    return False
                return True if all(r is True for r in rs) else None
            if any(r is True for r in rs):
                return True
            return False if all(r is False for r in rs) else None
        if isinstance(t, ast.Compare) and len(t.ops) == 1:
            a, b = self.eval(t.left, env), self.eval(t.comparators[0], env)
            op = t.ops[0]
            if isinstance(op, (ast.In, ast.NotIn)) and isinstance(t.comparators[0], (ast.Set, ast.Tuple, ast.List)):
                vals = [self.eval(x, env) for x in t.comparators[0].elts]
                if a != TOP and TOP not in vals:
                    r = a in vals
                    return r if isinstance(op, ast.In) else not r
                return None
            if a == TOP or b == TOP:
                return None
            if isinstance(op, (ast.Eq, ast.Is)):
                return a == b
            if isinstance(op, (ast.NotEq, ast.IsNot)):
                return a != b
            return None
        v = self.eval(t, env)
        if v == TOP:
            return None
        return bool(v)

    # ---- fixpoint
    def _expand(self, envs, var, values):
        out = set()
        for env in envs:
            d = dict(env)
            for v in values:
                d2 = dict(d)
                d2[var] = v
                out.add(tuple(sorted(d2.items(), key=lambda kv: kv[0])))
        return out

    def _assign(self, envs, stmt):
        targets = stmt.targets if isinstance(stmt, ast.Assign) else [stmt.target]
        out = envs
        for t in targets:
            if isinstance(t, ast.Name) and t.id in self._tracked:
                new = set()
                for env in out:
                    d = dict(env)
                    v = self.eval(stmt.value, d) if getattr(stmt, "value", None) is not None else TOP
                    if v == TOP:
                        src = self.sources(stmt.value)
                        if src is not None:
                            for x in src:
                                d2 = dict(d)
                                d2[t.id] = x
                                new.add(tuple(sorted(d2.items(), key=lambda kv: kv[0])))
                            continue
                    d[t.id] = v
                    new.add(tuple(sorted(d.items(), key=lambda kv: kv[0])))
                out = new
            elif isinstance(t, ast.Tuple):
                names = [x.id for x in ast.walk(t) if isinstance(x, ast.Name) and x.id in self._tracked]
                if names:
                    new = set()
                    for env in out:
                        d = dict(env)
                        for n in names:
                            d[n] = TOP
                        new.add(tuple(sorted(d.items(), key=lambda kv: kv[0])))
                    out = new
        return out

    def _run(self):
        g = self.cfg
        tracked = set(self.vars)
        # also track locals assigned string-ish expressions built from tracked vars/constants
        changed = True
        body = [n for s in self.func.body for n in ast.walk(s)]
        while changed:
            changed = False
            for n in body:
                if isinstance(n, ast.Assign) and len(n.targets) == 1 and isinstance(n.targets[0], ast.Name) and n.targets[0].id not in tracked:
                    v = n.value
                    ok = isinstance(v, ast.Constant) and (isinstance(v.value, str) or v.value is None)
                    ok = ok or (isinstance(v, (ast.BinOp, ast.JoinedStr, ast.Name)) and any(isinstance(x, ast.Name) and x.id in tracked for x in ast.walk(v)))
                    ok = ok or self.sources(v) is not None
                    if ok:
                        tracked.add(n.targets[0].id)
                        changed = True
        self._tracked = tracked
        init = set()
        keys = self.vars
        for combo in itertools.product(*[list(self.domains[k]) for k in keys]):
            init.add(tuple(sorted(zip(keys, combo), key=lambda kv: kv[0])))
        if not init:
            init = {()}
        self.at = {g.entry: set(init)}
        work = [g.entry]
        while work:
            nid = work.pop()
            envs = self.at.get(nid, set())
            node = g.nodes[nid]
            out = envs
            a = node.ast
            if node.kind == "stmt" and isinstance(a, (ast.Assign, ast.AnnAssign, ast.AugAssign)):
                out = self._assign(envs, a) if not isinstance(a, ast.AugAssign) else envs
            elif node.kind == "loop":
                names = {x.id for x in ast.walk(a.target) if isinstance(x, ast.Name) and x.id in tracked}
                if names:
                    out = set()
                    for env in envs:
                        d = dict(env)
                        for n in names:
                            d[n] = TOP
                        out.add(tuple(sorted(d.items(), key=lambda kv: kv[0])))
            for b, lab in g.succ[nid]:
                flow = out
                if isinstance(lab, tuple) and lab[0] in ("T", "F"):
                    want = lab[0] == "T"
                    flow = set()
                    for env in out:
                        r = self.truth(lab[1], dict(env))
                        if r is None or r == want:
                            flow.add(env)
                elif isinstance(lab, tuple) and lab[0] == "exc":
                    flow = envs
                cur = self.at.setdefault(b, set())
                if not flow <= cur:
                    if len(cur) + len(flow) > MAX_ENVS:
                        raise RuntimeError("string environment explosion")
                    cur |= flow
                    work.append(b)

    def values_at(self, expr, stmt_node_id):
        """set of values `expr` may have when the statement node is reached"""
        envs = self.at.get(stmt_node_id, set())
        return {self.eval(expr, dict(env)) for env in envs}
