"""Shared lazily-built analysis context for the rule modules."""
from .core import Repo, Resolver


class Context:
    def __init__(self, repo, tier):
        self.repo, self.tier = repo, tier
        self._res = None
        self._proto = None

    @property
    def res(self):
        if self._res is None:
            self._res = Resolver(self.repo)
        return self._res

    @property
    def depth(self):
        return 6 if self.tier == "thorough" else 3

    def protocol(self):
        """event-protocol typestate results (shared by C02/C03/C04/C06/C16/C18)"""
        if self._proto is None:
            from .protocol import Protocol
            p = Protocol(self.repo, self.res, depth=self.depth)
            p.run_all()
            self._proto = p
        return self._proto

    def mod(self, name):
        return self.repo.mod(name)
