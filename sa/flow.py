"""E5: path-sensitive typestate engine for the event protocol of StateEngine.notify.

Abstract state (finite): acked (own event id acknowledged), conts (0/1/2+ continuations issued),
disposed (id acked / held in a fan-out's ids list / handed to a deferred callback), flags (small set
of observation marks), env (three-valued facts about locals: 'T' truthy, 'F' falsy, 'N' None, and
memoised truth of side-effect-free test expressions).

Interprocedural: resolved callees inside the repository are *inlined* (analysed from the caller's
state with parameters bound to the abstract values of the arguments, bound `depth`), except the
functions that carry a declared contract (handle_error, handle_terminal_state,
asl_state_collect_results, branch_has_terminated): those are verified against their contract as
entries of their own and the contract is used at their call sites (assume/guarantee, sound by
induction on the nesting depth of the Branch stack, which bounds the mutual recursion at run time).
"""
import ast
from collections import namedtuple, defaultdict

from .core import (AnalysisError, callname, dotted, last, norm, short, const, walk_no_nested_incl,
                   names_read, assigned_names, is_get)
from .cfg import CFG, OTHER

State = namedtuple("State", "acked conts disposed flags env")

# exceptions raised by the path / template helpers (confirmed by reading state_engine_paths.py);
# OTHER stands for anything only a catch-all handler catches (TypeError from jsonpath, ValueError...).
MAY_RAISE = {
    "apply_path": {"PathMatchFailure", OTHER},
    "apply_jsonpath": {"PathMatchFailure", OTHER},
    "get_full_jsonpath": {OTHER},
    "evaluate_payload_template": {"IntrinsicFailure", "PathMatchFailure", OTHER},
    "merge_result": {"ResultPathMatchFailure", "PathMatchFailure", OTHER},
    "apply_resultpath": {"ResultPathMatchFailure", OTHER},
    "parse_rfc3339_datetime": {OTHER},
    "loads": {OTHER},
    "int": {OTHER},
    "float": {OTHER},
}


def may_raise_default(node):
    out = set()
    for n in walk_no_nested_incl(node) if not isinstance(node, ast.stmt) or True else ():
        if isinstance(n, ast.Call):
            nm = last(callname(n))
            if nm in MAY_RAISE:
                out |= MAY_RAISE[nm]
    return out


class Contract:
    """Declared summary of a function at its call sites."""

    def __init__(self, name, apply):
        self.name, self.apply = name, apply


class Finding:
    def __init__(self, rule, func, key, message, node=None, path=None):
        self.rule, self.func, self.key, self.message, self.node, self.path = rule, func, key, message, node, path


class FlowEngine:
    def __init__(self, repo, resolver, depth=3, all_calls_raise=False):
        self.repo, self.res, self.depth = repo, resolver, depth
        self.all_calls_raise = all_calls_raise
        self.cfgs = {}
        self.contracts = {}     # qname -> callable(engine, call, func, state, argvals) -> [(state, retval)]
        self.effects = {}       # qname -> effect tag
        self.consequence = set()  # effect tags that must not follow the ack
        self.findings = []
        self.stats = defaultdict(int)
        self.memo = {}
        self.deferred = []      # (Func, deferring call)
        self.inline_stack = []
        self.notes = []
        self.extra_may_raise = {}   # statement-level hook: id(ast node) -> classes

    # ------------------------------------------------------------ CFG cache
    def cfg(self, func):
        c = self.cfgs.get(func.qname)
        if c is None:
            c = CFG(func.node, self._may_raise)
            self.cfgs[func.qname] = c
        return c

    def _may_raise(self, node):
        out = set()
        for n in walk_no_nested_incl(node):
            if isinstance(n, ast.Call):
                nm = last(callname(n))
                if nm in MAY_RAISE:
                    out |= MAY_RAISE[nm]
                elif self.all_calls_raise:
                    out.add(OTHER)
                ex = self.extra_may_raise.get(id(n))
                if ex:
                    out |= ex
        return out

    # ------------------------------------------------------------ three-valued evaluation
    @staticmethod
    def _key(expr):
        return "expr:" + ast.dump(expr)

    def value_of(self, expr, env):
        """abstract value of an expression: 'T','F','N', tuple of those, or None (unknown)"""
        if isinstance(expr, ast.Constant):
            v = expr.value
            if v is None:
                return "N"
            return "T" if v else "F"
        if isinstance(expr, ast.Name):
            return env.get(expr.id)
        if isinstance(expr, ast.Tuple):
            return tuple(self.value_of(e, env) for e in expr.elts)
        if isinstance(expr, (ast.Dict, ast.List, ast.Set)):
            n = len(expr.keys) if isinstance(expr, ast.Dict) else len(expr.elts)
            return "T" if n else "F"
        if isinstance(expr, ast.JoinedStr):
            return None
        if isinstance(expr, ast.IfExp):
            t = self.truth(expr.test, env)
            if t is True:
                return self.value_of(expr.body, env)
            if t is False:
                return self.value_of(expr.orelse, env)
            a, b = self.value_of(expr.body, env), self.value_of(expr.orelse, env)
            return a if a == b else None
        if isinstance(expr, ast.BoolOp) and isinstance(expr.op, ast.Or):
            vals = [self.value_of(e, env) for e in expr.values]
            if all(v in ("F", "N") for v in vals):
                return "F"
            if any(v == "T" for v in vals):
                return "T"
            return None
        return env.get(self._key(expr))

    def truth(self, expr, env):
        if isinstance(expr, ast.UnaryOp) and isinstance(expr.op, ast.Not):
            t = self.truth(expr.operand, env)
            return None if t is None else (not t)
        if isinstance(expr, ast.BoolOp):
            ts = [self.truth(e, env) for e in expr.values]
            if isinstance(expr.op, ast.And):
                if any(t is False for t in ts):
                    return False
                return True if all(t is True for t in ts) else None
            if any(t is True for t in ts):
                return True
            return False if all(t is False for t in ts) else None
        if isinstance(expr, ast.Compare) and len(expr.ops) == 1:
            op, l, r = expr.ops[0], expr.left, expr.comparators[0]
            if isinstance(r, ast.Constant) and r.value is None and isinstance(op, (ast.Eq, ast.NotEq, ast.Is, ast.IsNot)):
                v = self.value_of(l, env)
                isnone = True if v == "N" else (False if v == "T" else None)
                if isnone is None:
                    m = env.get(self._key(expr))
                    return None if m is None else (m == "T")
                return isnone if isinstance(op, (ast.Eq, ast.Is)) else (not isnone)
        v = self.value_of(expr, env)
        if isinstance(v, tuple):
            return bool(v)
        if v == "T":
            return True
        if v in ("F", "N"):
            return False
        return None

    def refine(self, expr, want, env, track=None):
        """env refined by the knowledge that expr evaluated to `want`"""
        env = dict(env)
        tnames, tmemo = track if track else (None, None)

        def rec(e, w):
            if isinstance(e, ast.UnaryOp) and isinstance(e.op, ast.Not):
                rec(e.operand, not w)
                return
            if isinstance(e, ast.BoolOp):
                if isinstance(e.op, ast.And) and w:
                    for x in e.values:
                        rec(x, True)
                elif isinstance(e.op, ast.Or) and not w:
                    for x in e.values:
                        rec(x, False)
                if tmemo is None or self._key(e) in tmemo:
                    env[self._key(e)] = "T" if w else "F"
                return
            if isinstance(e, ast.Name):
                if tnames is not None and e.id not in tnames:
                    return
                if w:
                    env[e.id] = "T"
                elif env.get(e.id) != "N":
                    env[e.id] = "F"
                return
            if isinstance(e, ast.Compare) and len(e.ops) == 1:
                op, l, r = e.ops[0], e.left, e.comparators[0]
                if isinstance(r, ast.Constant) and r.value is None and isinstance(l, ast.Name) and isinstance(op, (ast.Eq, ast.NotEq, ast.Is, ast.IsNot)):
                    isnone = w if isinstance(op, (ast.Eq, ast.Is)) else (not w)
                    if isnone:
                        env[l.id] = "N"
                    elif env.get(l.id) == "N":
                        env[l.id] = None
                    return
            if self._pure(e) and (tmemo is None or self._key(e) in tmemo):
                env[self._key(e)] = "T" if w else "F"
        rec(expr, want)
        return {k: v for k, v in env.items() if v is not None}

    def _pure(self, e):
        for n in ast.walk(e):
            if isinstance(n, ast.Call):
                f = n.func
                if isinstance(f, ast.Attribute) and f.attr in ("get", "endswith", "startswith"):
                    continue
                if isinstance(f, ast.Name) and f.id in ("len", "isinstance", "callable", "str", "int"):
                    continue
                return False
            if isinstance(n, (ast.Await, ast.Yield, ast.NamedExpr)):
                return False
        return True

    def _kill(self, env, names):
        if not names:
            return env
        out = {}
        for k, v in env.items():
            if k in names:
                continue
            if k.startswith("expr:") and any(("id='%s'" % n) in k for n in names):
                continue
            out[k] = v
        return out

    # ------------------------------------------------------------ effects of one call
    def classify(self, call, func):
        """-> (tag, resolved Func or None)"""
        r = self.res.resolve(call, func)
        q = r.qname if r else None
        if q in self.effects:
            return self.effects[q], r
        nm = callname(call)
        ln = last(nm)
        if q is None and ln in self.effects_by_name:
            return self.effects_by_name[ln], None
        return None, r

    effects_by_name = {}

    # ------------------------------------------------------------ the walk
    def run(self, func, init, role, params=None, want_returns=False):
        """Analyse one function from abstract state `init`.
        Returns list of (exit_kind, State, retval, trail) with exit_kind in {'normal','raise'}.
        """
        g = self.cfg(func)
        track = self.tracking(func)
        env0 = dict(init.env)
        if params:
            env0.update({k: v for k, v in params.items() if v is not None})
        start = init._replace(env=frozenset(env0.items()))
        seen = {}
        work = [(g.entry, start, None)]
        exits = []
        self.stats["functions_walked"] += 1
        while work:
            nid, st, parent = work.pop()
            key = (nid, st)
            if key in seen:
                continue
            seen[key] = parent
            self.stats["node_states"] += 1
            node = g.nodes[nid]
            if nid == g.exit:
                continue
            if nid == g.raise_exit:
                continue
            outs, exc_state = self._transfer(func, node, st, role)
            for (b, lab) in g.succ[nid]:
                if isinstance(lab, tuple) and lab[0] == "exc":
                    tgt = g.nodes[b]
                    es = exc_state
                    if b == g.raise_exit:
                        exits.append(("raise", es, lab[1], key))
                        seen.setdefault((b, es), key)
                    else:
                        work.append((b, es, key))
                    continue
                for st2, retval in outs:
                    env = dict(st2.env)
                    if isinstance(lab, tuple) and lab[0] in ("T", "F"):
                        want = lab[0] == "T"
                        t = self._test_truth(func, node, lab[1], env, retval)
                        if t is not None and t != want:
                            self.stats["pruned_branches"] += 1
                            continue
                        env = self.refine(lab[1], want, env, track)
                    elif lab == "iter":
                        env = self._loop_iter_facts(func, node.ast, env)
                        if self._loop_tracked(func, node.ast):
                            st2 = st2._replace(flags=st2.flags | {("it", self._loop_hdr(node.ast))})
                    elif lab == "done" and self._loop_tracked(func, node.ast):
                        hdr = self._loop_hdr(node.ast)
                        if ("it", hdr) in st2.flags:
                            st2 = st2._replace(flags=st2.flags - {("it", hdr)})
                        else:
                            st2 = st2._replace(flags=st2.flags | {("skip", hdr)})
                    st3 = st2._replace(env=frozenset(env.items()))
                    if b == g.exit:
                        rv = retval if lab == "return" else "N"
                        exits.append(("normal", st3, rv, (nid, st)))
                    else:
                        work.append((b, st3, key))
        self._last_seen = seen
        self._last_cfg = g
        ded = {}
        for e in exits:
            k = (e[0], e[1]._replace(env=frozenset()), e[2], e[3][0])
            ded.setdefault(k, e)
        return list(ded.values())

    def trail(self, key, limit=14):
        """witness path (list of 'L<line> <kind>') ending at key=(nid,state) of the last run"""
        out = []
        seen, g = self._last_seen, self._last_cfg
        while key is not None and len(out) < 400:
            nid = key[0]
            n = g.nodes[nid]
            if n.kind not in ("entry",):
                out.append("L%d %s" % (n.lineno, n.kind if n.kind != "stmt" else short(n.ast, 60)))
            key = seen.get(key)
        out.reverse()
        return out[-limit:]

    def _test_truth(self, func, node, test, env, retval):
        if retval is not None and isinstance(test, ast.Call) and not isinstance(retval, tuple):
            return True if retval == "T" else (False if retval in ("F", "N") else None)
        return self.truth(test, env)

    def _loop_iter_facts(self, func, loop, env):
        """idiom 4: a loop body that executes implies its (sliced/enumerated) list is non-empty"""
        env = self._kill(env, assigned_names(loop.target))
        base = loop.iter
        while True:
            if isinstance(base, ast.Call) and isinstance(base.func, ast.Name) and base.func.id in ("enumerate", "reversed", "list", "iter") and base.args:
                base = base.args[0]
            elif isinstance(base, ast.Subscript):
                base = base.value
            else:
                break
        if isinstance(base, ast.Name):
            tn = self.tracking(func)[0]
            if base.id in tn:
                env[base.id] = "T"
            for v in self._len_aliases(func).get(base.id, ()):
                if v in tn:
                    env[v] = "T"
        return env

    @staticmethod
    def _loop_hdr(loop):
        return "for %s in %s" % (norm(loop.target), norm(loop.iter))

    def _loop_tracked(self, func, loop):
        """loops whose body can issue protocol effects (fan-out / retrier scans)"""
        k = ("looptrk", id(loop))
        if k not in self.memo:
            r = False
            for st in loop.body:
                for n in walk_no_nested_incl(st):
                    if isinstance(n, ast.Call):
                        tag, t2 = self.classify(n, func)
                        if (tag is not None and tag != "NEUTRAL") or (t2 is not None and (t2.qname in self.contracts or self.effectful(t2))):
                            r = True
            self.memo[k] = r
        return self.memo[k]

    def tracking(self, func):
        """(names worth tracking, memoisable test sub-expressions) for one function"""
        c = self.memo.get(("track", func.qname))
        if c is not None:
            return c
        tests = []
        for n in self._body_nodes(func):
            if isinstance(n, (ast.If, ast.While, ast.IfExp)):
                tests.append(n.test)
        names = set()
        counts = defaultdict(int)

        def conj(e):
            if isinstance(e, ast.UnaryOp) and isinstance(e.op, ast.Not):
                conj(e.operand)
                return
            if isinstance(e, ast.BoolOp):
                for x in e.values:
                    conj(x)
                counts[self._key(e)] += 1
                return
            counts[self._key(e)] += 1
        for t in tests:
            conj(t)
            for n in ast.walk(t):
                if isinstance(n, ast.Name):
                    names.add(n.id)
        # return values and arguments handed to contract/inlined callees may carry facts too
        for n in self._body_nodes(func):
            if isinstance(n, ast.Return) and n.value is not None:
                names |= {x.id for x in ast.walk(n.value) if isinstance(x, ast.Name)}
            if isinstance(n, ast.Call):
                for a in list(n.args) + [k.value for k in n.keywords]:
                    if isinstance(a, ast.Name):
                        names.add(a.id)
        changed = True
        while changed:
            changed = False
            for n in self._body_nodes(func):
                if isinstance(n, ast.Assign) and len(n.targets) == 1:
                    t = n.targets[0]
                    tn = assigned_names(t)
                    if tn & names:
                        for x in ast.walk(n.value):
                            if isinstance(x, ast.Name) and x.id not in names and not isinstance(n.value, ast.Call):
                                names.add(x.id)
                                changed = True
        memo = {k for k, v in counts.items() if v >= 2}
        c = (names, memo)
        self.memo[("track", func.qname)] = c
        return c

    def _len_aliases(self, func):
        c = getattr(func, "_lenalias", None) if False else self.memo.get(("lenalias", func.qname))
        if c is None:
            c = defaultdict(set)
            counts = defaultdict(int)
            for n in walk_no_nested_incl(func.node) if False else self._body_nodes(func):
                if isinstance(n, ast.Assign) and len(n.targets) == 1 and isinstance(n.targets[0], ast.Name):
                    counts[n.targets[0].id] += 1
                    v = n.value
                    if isinstance(v, ast.Call) and isinstance(v.func, ast.Name) and v.func.id == "len" and v.args and isinstance(v.args[0], ast.Name):
                        c[v.args[0].id].add(n.targets[0].id)
            for k in list(c):
                c[k] = {v for v in c[k] if counts[v] == 1}
            self.memo[("lenalias", func.qname)] = c
        return c

    def _body_nodes(self, func):
        for s in func.node.body:
            for n in walk_no_nested_incl(s):
                yield n

    # ------------------------------------------------------------ node transfer
    def _ordered_calls(self, node):
        out = []

        class V(ast.NodeVisitor):
            def visit_FunctionDef(s, n):
                pass
            visit_AsyncFunctionDef = visit_FunctionDef
            visit_ClassDef = visit_FunctionDef

            def visit_Lambda(s, n):
                pass

            def visit_Call(s, n):
                s.generic_visit(n)
                out.append(n)
        V().visit(node)
        return out

    def _exprs_of(self, node):
        a = node.ast
        if node.kind == "test":
            return [a.test]
        if node.kind == "loop":
            return [a.iter]
        if node.kind == "with":
            return [i.context_expr for i in a.items]
        if node.kind == "except":
            return []
        if node.kind in ("entry", "exit", "raise_exit"):
            return []
        return [a]

    def _transfer(self, func, node, st, role):
        """-> (list of (State, retval-of-last-call-or-test), state for exception edges)"""
        exc_state = st
        states = [(st, None)]
        if node.kind == "except":
            h = node.ast
            if h.name:
                env = self._kill(dict(st.env), {h.name})
                env[h.name] = "T"
                states = [(st._replace(env=frozenset(env.items())), None)]
            return states, exc_state
        for expr in self._exprs_of(node):
            for call in self._ordered_calls(expr):
                nxt = []
                for s, _ in states:
                    for s2, rv in self._apply_call(func, call, s, role, node):
                        nxt.append((s2, rv, call))
                states = [(a, (b if c is expr or (isinstance(expr, ast.stmt) and self._is_value_of(expr, c)) else None)) for a, b, c in nxt]
                # dedupe
                states = list(dict.fromkeys(states))
        a = node.ast
        # stores that matter: HOLD, constant assignments, kills
        out = []
        shook = role.get("stmt_hook")
        for s, rv in states:
            if shook and node.kind in ("stmt", "with"):
                s = shook(self, func, node, s) or s
            env = dict(s.env)
            s2 = s
            if isinstance(a, ast.Assign):
                s2, env = self._assign(func, a, s, env, rv, role)
            elif isinstance(a, ast.AugAssign):
                env = self._kill(env, assigned_names(a.target))
            elif isinstance(a, (ast.AnnAssign,)) and a.value is not None:
                env = self._kill(env, assigned_names(a.target))
            elif isinstance(a, ast.Delete):
                ns = set()
                for t in a.targets:
                    ns |= {n.id for n in ast.walk(t) if isinstance(n, ast.Name)}
                env = self._kill_exprs_reading(env, ns)
            elif isinstance(a, ast.Return):
                if a.value is not None and rv is None:
                    rv = self.value_of(a.value, env)
            out.append((s2._replace(env=frozenset(env.items())), rv))
        return list(dict.fromkeys(out)), exc_state

    @staticmethod
    def _is_value_of(stmt, call):
        v = getattr(stmt, "value", None)
        return v is call

    def _kill_exprs_reading(self, env, names):
        out = {}
        for k, v in env.items():
            if k.startswith("expr:") and any(("id='%s'" % n) in k for n in names):
                continue
            out[k] = v
        return out

    def _assign(self, func, a, s, env, rv, role):
        tnames = set()
        for t in a.targets:
            tnames |= assigned_names(t)
        # subscript / attribute stores invalidate memoised expressions that read the base object
        bases = set()
        for t in a.targets:
            for n in ast.walk(t):
                if isinstance(n, (ast.Subscript, ast.Attribute)) and isinstance(n.ctx, ast.Store):
                    b = n.value
                    while isinstance(b, (ast.Subscript, ast.Attribute)):
                        b = b.value
                    if isinstance(b, ast.Name):
                        bases.add(b.id)
        if bases:
            env = self._kill_exprs_reading(env, bases)
        val = rv if rv is not None else self.value_of(a.value, env)
        env = self._kill(env, tnames)
        if len(a.targets) == 1:
            t = a.targets[0]
            tn = self.tracking(func)[0]
            if isinstance(t, ast.Name) and val is not None and not isinstance(val, tuple) and t.id in tn:
                env[t.id] = val
            elif isinstance(t, ast.Tuple) and isinstance(val, tuple) and len(val) == len(t.elts):
                for e, v in zip(t.elts, val):
                    if isinstance(e, ast.Name) and v is not None and not isinstance(v, tuple) and e.id in tn:
                        env[e.id] = v
            # HOLD: <ids list>[index] = id
            if isinstance(t, ast.Subscript) and isinstance(a.value, ast.Name) and a.value.id == "id" and role.get("id_name", "id") == "id":
                self.stats["holds"] += 1
                s = s._replace(disposed=True, flags=s.flags | {"held"})
        return s, env

    # ------------------------------------------------------------ calls
    def _apply_call(self, func, call, st, role, node):
        tag, target = self.classify(call, func)
        self.stats["calls_seen"] += 1
        hook = role.get("call_hook")
        if hook:
            r = hook(self, func, call, st, tag, target, node)
            if r is not None:
                return r
        q = target.qname if target else None
        if q in self.contracts:
            argvals = self._argvals(call, target, dict(st.env))
            self.stats["contract_uses"] += 1
            return self.contracts[q](self, call, func, st, argvals, node)
        if tag is not None:
            return self._apply_effect(func, call, st, tag, role, node)
        if target is not None and target.qname not in role.get("no_inline", ()):
            return self._inline(func, call, target, st, role, node)
        return [(st, None)]

    def _argvals(self, call, target, env):
        params = [a.arg for a in target.node.args.args]
        if target.cls and params and params[0] == "self":
            params = params[1:]
        defaults = target.node.args.defaults
        vals = {}
        nd = len(defaults)
        for i, p in enumerate(params):
            di = i - (len(params) - nd)
            if di >= 0:
                vals[p] = self.value_of(defaults[di], {})
        for i, a in enumerate(call.args):
            if i < len(params):
                vals[params[i]] = self.value_of(a, env)
        for k in call.keywords:
            if k.arg:
                vals[k.arg] = self.value_of(k.value, env)
        return vals

    def effectful(self, target, _stack=None):
        k = ("eff", target.qname)
        if k in self.memo:
            return self.memo[k]
        _stack = _stack or set()
        if target.qname in _stack:
            return False
        _stack = _stack | {target.qname}
        r = False
        for n in self._body_nodes(target):
            if isinstance(n, ast.Call):
                tag, t2 = self.classify(n, target)
                if tag is not None and tag != "NEUTRAL":
                    r = True
                    break
                if t2 is not None and (t2.qname in self.contracts or self.effectful(t2, _stack)):
                    r = True
                    break
        self.memo[k] = r
        return r

    def _inline(self, func, call, target, st, role, node):
        if not self.effectful(target):
            return [(st, None)]
        if len(self.inline_stack) >= self.depth or target.qname in self.inline_stack:
            self.notes.append("inlining bound reached at %s -> %s" % (func.qname, target.qname))
            return [(st, None)]
        argvals = self._argvals(call, target, dict(st.env))
        mk = ("inl", target.qname, st.acked, st.conts, st.disposed, st.flags, tuple(sorted((k, v) for k, v in argvals.items() if v is not None)), id(role))
        if mk in self.memo:
            res = self.memo[mk]
        else:
            self.inline_stack.append(target.qname)
            saved = (getattr(self, "_last_seen", None), getattr(self, "_last_cfg", None))
            try:
                exits = self.run(target, st._replace(env=frozenset()), role, params=argvals)
            finally:
                self.inline_stack.pop()
                self._last_seen, self._last_cfg = saved
            res = []
            for kind, s2, rv, _ in exits:
                if kind == "normal":
                    res.append((s2.acked, s2.conts, s2.disposed, s2.flags, rv))
            res = list(dict.fromkeys(res))
            self.memo[mk] = res
            self.stats["inlined"] += 1
        out = []
        discarded = isinstance(node.ast, ast.Expr) and node.ast.value is call
        for a, c, d, f, rv in res:
            if discarded and isinstance(rv, tuple) and rv and rv[0] == "T" and c == st.conts:
                f = f | {("errdrop", target.qname)}
            out.append((st._replace(acked=a, conts=c, disposed=d, flags=f), rv))
        return out

    def _apply_effect(self, func, call, st, tag, role, node):
        on = role.get("on_effect")
        if on:
            r = on(self, func, call, st, tag, node)
            if r is not None:
                return r
        return [(st, None)]
