"""E1 loader + E2 resolver for the static checks (stdlib only).

Everything here reads source text of the repository under analysis and never
imports or runs it.  The repository root is /repo unless VERIF_REPO is set
(used by the self-validation harness to point at a scratch copy).
"""
import ast
import copy
import hashlib
import os
import symtable

PKG = "asl-workflow-engine/py/asl_workflow_engine"
LINT = "asl-workflow-engine/py/statelint"


class AnalysisError(Exception):
    """An anchor the rules rely on cannot be located: the check cannot give a verdict."""


def repo_root():
    return os.environ.get("VERIF_REPO", "/repo")


class Func:
    __slots__ = ("qname", "node", "module", "parent", "cls", "children")

    def __init__(self, qname, node, module, parent, cls):
        self.qname, self.node, self.module, self.parent, self.cls = qname, node, module, parent, cls
        self.children = {}

    @property
    def name(self):
        return self.node.name

    def where(self, node=None):
        n = node if node is not None else self.node
        return "%s:%d" % (self.module.rel, getattr(n, "lineno", 0))

    def __repr__(self):
        return "<Func %s>" % self.qname


class Module:
    def __init__(self, root, rel):
        self.rel = rel
        self.path = os.path.join(root, rel)
        with open(self.path, "rb") as f:
            raw = f.read()
        self.digest = hashlib.sha256(raw).hexdigest()
        self.src = raw.decode("utf8")
        self.tree = ast.parse(self.src, filename=self.path)
        self.name = os.path.splitext(os.path.basename(rel))[0]
        self.canon_stats = (0, 0)
        self.normalisation = None
        if os.environ.get("VERIF_NO_CANON") != "1":
            from . import canon
            self.canon_stats = canon.canonicalise(self.tree, self.name)
        self._reindex()

    def _reindex(self):
        self.funcs = {}      # qname -> Func
        self.classes = {}    # name -> ClassDef
        self.parents = {}    # id(node) -> parent node
        self.func_of = {}    # id(node) -> innermost enclosing Func
        self._index()

    def normalise(self, foreign_constants=None):
        """equivalence-guarded normalisation toward the reviewed copy (sa/normalise.py); constants that this module imports from another
        module of the package and that are new there are made local first, so that they can be inlined like its own"""
        if os.environ.get("VERIF_NO_CANON") == "1" or os.environ.get("VERIF_NO_NORMALISE") == "1":
            return
        from . import normalise
        extra = ""
        if foreign_constants:
            new = []
            keep_body = []
            for st in self.tree.body:
                if isinstance(st, ast.ImportFrom) and st.module and st.module.rsplit(".", 1)[-1] in foreign_constants:
                    src = foreign_constants[st.module.rsplit(".", 1)[-1]]
                    rest = []
                    for al in st.names:
                        if al.name in src and al.asname in (None, al.name):
                            new.append(ast.Assign([ast.Name(al.name, ast.Store())], copy.deepcopy(src[al.name])))
                        else:
                            rest.append(al)
                    if rest:
                        st.names = rest
                        keep_body.append(st)
                    continue
                keep_body.append(st)
            if new:
                for n in new:
                    ast.fix_missing_locations(n)
                self.tree.body = keep_body[:0] + new + keep_body
                extra = "|" + ",".join(sorted(ast.unparse(n) for n in new))
        import hashlib
        self.normalisation = normalise.normalise(self.tree, self.rel, self.name, hashlib.sha256((self.digest + extra).encode()).hexdigest())
        self._reindex()

    def _index(self):
        def walk(node, parent_func, cls, prefix):
            for child in ast.iter_child_nodes(node):
                self.parents[id(child)] = node
                if isinstance(child, (ast.FunctionDef, ast.AsyncFunctionDef)):
                    q = prefix + child.name
                    f = Func(q, child, self, parent_func, cls)
                    # first definition wins for duplicate names in one scope
                    self.funcs.setdefault(q, f)
                    if parent_func is not None:
                        parent_func.children.setdefault(child.name, f)
                    self.func_of[id(child)] = parent_func
                    walk(child, f, cls, q + ".")
                elif isinstance(child, ast.ClassDef):
                    self.classes[child.name] = child
                    self.func_of[id(child)] = parent_func
                    walk(child, parent_func, child.name, prefix + child.name + ".")
                else:
                    self.func_of[id(child)] = parent_func
                    walk(child, parent_func, cls, prefix)
        walk(self.tree, None, None, "")

    def func(self, qname):
        f = self.funcs.get(qname)
        if f is None:
            raise AnalysisError("anchor not found: function %s in %s" % (qname, self.rel))
        return f

    def has(self, qname):
        return qname in self.funcs

    def parent(self, node):
        return self.parents.get(id(node))

    def enclosing_func(self, node):
        return self.func_of.get(id(node))

    def line(self, node):
        return "%s:%d" % (self.rel, getattr(node, "lineno", 0))

    def seg(self, node):
        try:
            return ast.get_source_segment(self.src, node) or ast.unparse(node)
        except Exception:
            return ast.unparse(node)


class Repo:
    def __init__(self, root=None):
        self.root = root or repo_root()
        self.modules = {}
        pk = os.path.join(self.root, PKG)
        if not os.path.isdir(pk):
            raise AnalysisError("package directory missing: " + pk)
        for fn in sorted(os.listdir(pk)):
            if fn.endswith(".py"):
                self._load(PKG + "/" + fn)
        lk = os.path.join(self.root, LINT)
        if os.path.isdir(lk):
            for fn in sorted(os.listdir(lk)):
                if fn.endswith(".py"):
                    self._load(LINT + "/" + fn)
        self.consulted = set()
        # second pass: normalise every module toward its reviewed copy; module-level constants that are new in one module may be imported by another
        foreign = {}
        try:
            from . import normalise as _n
            for m in self.modules.values():
                ref = _n.reference_tree(m.rel, m.name)
                if ref is not None:
                    c = _n.new_module_constants(m.tree, ref)
                    if c:
                        foreign[m.name] = c
        except Exception:
            foreign = {}
        for m in self.modules.values():
            m.normalise({k: v for k, v in foreign.items() if k != m.name})

    def _load(self, rel):
        try:
            m = Module(self.root, rel)
        except SyntaxError as e:
            raise AnalysisError("cannot parse %s: %s" % (rel, e))
        self.modules[m.name] = m

    def mod(self, name):
        m = self.modules.get(name)
        if m is None:
            raise AnalysisError("anchor not found: module %s" % name)
        self.consulted.add(name)
        return m

    def text(self, rel):
        p = os.path.join(self.root, rel)
        if not os.path.exists(p):
            raise AnalysisError("anchor not found: file " + rel)
        with open(p, "rb") as f:
            raw = f.read()
        self.consulted.add(rel)
        self._extra = getattr(self, "_extra", {})
        self._extra[rel] = hashlib.sha256(raw).hexdigest()
        return raw.decode("utf8")

    def digests(self):
        out = {}
        for n in sorted(self.consulted):
            if n in self.modules:
                out[self.modules[n].rel] = self.modules[n].digest[:16]
        for rel, d in getattr(self, "_extra", {}).items():
            out[rel] = d[:16]
        return out

    def find_class(self, cname):
        for m in self.modules.values():
            if cname in m.classes:
                return m, m.classes[cname]
        return None, None


# ---------------------------------------------------------------- AST helpers

def dotted(node):
    """'self.event_dispatcher.acknowledge' for an Attribute/Name chain, else None."""
    parts = []
    while isinstance(node, ast.Attribute):
        parts.append(node.attr)
        node = node.value
    if isinstance(node, ast.Name):
        parts.append(node.id)
        return ".".join(reversed(parts))
    if isinstance(node, ast.Call):
        inner = dotted(node.func)
        if inner:
            parts.append(inner + "()")
            return ".".join(reversed(parts))
    return None


def callname(call):
    return dotted(call.func) or ""


def last(name):
    return name.rsplit(".", 1)[-1] if name else ""


def const(node):
    return node.value if isinstance(node, ast.Constant) else None


def is_const(node, value=None):
    if not isinstance(node, ast.Constant):
        return False
    return True if value is None else node.value == value


def norm(node):
    """Normalised text of a construct: stable under reformatting and comments."""
    if isinstance(node, str):
        return " ".join(node.split())
    try:
        return " ".join(ast.unparse(node).split())
    except Exception:
        return ast.dump(node)


def short(node, n=110):
    s = norm(node)
    return s if len(s) <= n else s[: n - 3] + "..."


def walk_no_nested(node, include_lambda=False):
    """ast.walk that does not descend into nested function/class definitions."""
    stack = [node]
    first = True
    while stack:
        n = stack.pop()
        if not first and isinstance(n, (ast.FunctionDef, ast.AsyncFunctionDef, ast.ClassDef)):
            continue
        if not first and not include_lambda and isinstance(n, ast.Lambda):
            continue
        first = False
        yield n
        stack.extend(reversed(list(ast.iter_child_nodes(n))))


def body_walk(func_node):
    """Walk the statements of a function body, not its nested defs, nor its own args/decorators."""
    for st in func_node.body:
        for n in walk_no_nested_incl(st):
            yield n


def walk_no_nested_incl(node):
    if isinstance(node, (ast.FunctionDef, ast.AsyncFunctionDef, ast.ClassDef)):
        return
    stack = [node]
    while stack:
        n = stack.pop()
        yield n
        for c in reversed(list(ast.iter_child_nodes(n))):
            if isinstance(c, (ast.FunctionDef, ast.AsyncFunctionDef, ast.ClassDef, ast.Lambda)):
                continue
            stack.append(c)


def calls_in(node, nested=False):
    it = ast.walk(node) if nested else (body_walk(node) if isinstance(node, (ast.FunctionDef, ast.AsyncFunctionDef)) else walk_no_nested_incl(node))
    return [n for n in it if isinstance(n, ast.Call)]


def names_read(node):
    return {n.id for n in ast.walk(node) if isinstance(n, ast.Name) and isinstance(n.ctx, ast.Load)}


def assigned_names(target):
    out = set()
    for n in ast.walk(target):
        if isinstance(n, ast.Name) and isinstance(n.ctx, (ast.Store, ast.Del)):
            out.add(n.id)
    return out


def kwarg(call, name, pos=None):
    for k in call.keywords:
        if k.arg == name:
            return k.value
    if pos is not None and len(call.args) > pos:
        return call.args[pos]
    return None


def strip_await(node):
    while isinstance(node, ast.Await):
        node = node.value
    return node


def is_get(call, key=None, base=None):
    """x.get("key"[, default])"""
    if not (isinstance(call, ast.Call) and isinstance(call.func, ast.Attribute) and call.func.attr == "get" and call.args):
        return False
    if key is not None and const(call.args[0]) != key:
        return False
    if base is not None and dotted(call.func.value) != base:
        return False
    return True


def subscript_key(node):
    """for x["k"] returns "k" """
    if isinstance(node, ast.Subscript):
        s = node.slice
        if isinstance(s, ast.Constant):
            return s.value
    return None


def stmts_of(func_node):
    """All statements (recursively, not into nested defs) of a function in source order."""
    out = []

    def rec(body):
        for s in body:
            out.append(s)
            if isinstance(s, (ast.FunctionDef, ast.AsyncFunctionDef, ast.ClassDef)):
                continue
            for fld in ("body", "orelse", "finalbody"):
                b = getattr(s, fld, None)
                if isinstance(b, list) and b and isinstance(b[0], ast.stmt):
                    rec(b)
            if isinstance(s, ast.Try):
                for h in s.handlers:
                    rec(h.body)
            if isinstance(s, ast.Match):
                for c in s.cases:
                    rec(c.body)
    rec(func_node.body)
    return out


# ---------------------------------------------------------------- resolver (E2)

# attribute-name -> class, used when constructor inference gives nothing.  These
# five were confirmed by reading the constructors (StateEngine.__init__,
# EventDispatcher.__init__, TaskDispatcher.__init__, RestAPI.__init__).
ATTR_CONVENTION = {
    "state_engine": "StateEngine",
    "event_dispatcher": "EventDispatcher",
    "task_dispatcher": "TaskDispatcher",
}


class Resolver:
    def __init__(self, repo):
        self.repo = repo
        self.attr_types = {}  # (class, attr) -> class
        self._infer_attr_types()
        self.unresolved = []
        self.resolved_count = 0

    def _infer_attr_types(self):
        known = set()
        for m in self.repo.modules.values():
            known.update(m.classes)
        ctor_param_types = {}  # (class, param index) -> class of argument
        for m in self.repo.modules.values():
            for q, f in m.funcs.items():
                if not f.cls:
                    continue
                for n in body_walk(f.node):
                    if isinstance(n, ast.Call) and isinstance(n.func, ast.Name) and n.func.id in known:
                        for i, a in enumerate(n.args):
                            if isinstance(a, ast.Name) and a.id == "self":
                                ctor_param_types[(n.func.id, i)] = f.cls
        for m in self.repo.modules.values():
            for q, f in m.funcs.items():
                if not f.cls:
                    continue
                params = [a.arg for a in f.node.args.args]
                for n in body_walk(f.node):
                    if not isinstance(n, ast.Assign) or len(n.targets) != 1:
                        continue
                    t = n.targets[0]
                    d = dotted(t)
                    if not d or not d.startswith("self."):
                        continue
                    parts = d.split(".")
                    v = n.value
                    if len(parts) == 2:
                        if isinstance(v, ast.Call) and isinstance(v.func, ast.Name) and v.func.id in known:
                            self.attr_types[(f.cls, parts[1])] = v.func.id
                        elif isinstance(v, ast.Name) and f.name == "__init__" and v.id in params:
                            idx = params.index(v.id) - 1
                            ty = ctor_param_types.get((f.cls, idx))
                            if ty:
                                self.attr_types[(f.cls, parts[1])] = ty
                    elif len(parts) == 3 and isinstance(v, ast.Name) and v.id == "self":
                        owner = self.attr_types.get((f.cls, parts[1])) or ATTR_CONVENTION.get(parts[1])
                        if owner:
                            self.attr_types[(owner, parts[2])] = f.cls

    def attr_class(self, cls, attr):
        return self.attr_types.get((cls, attr)) or ATTR_CONVENTION.get(attr)

    def class_of_chain(self, parts, func):
        """type of self.a.b...; parts excludes final method name; parts[0]=='self'"""
        cls = func.cls
        for p in parts[1:]:
            cls = self.attr_class(cls, p) if cls else ATTR_CONVENTION.get(p)
            if cls is None:
                return None
        return cls

    def method(self, cls, name):
        m, c = self.repo.find_class(cls)
        if m is None:
            return None
        return m.funcs.get(cls + "." + name)

    def lookup_name(self, name, func):
        """closure lookup of a plain name: nested def in func or an enclosing function, else module level."""
        f = func
        while f is not None:
            if name in f.children:
                return f.children[name]
            f = f.parent
        m = func.module
        if name in m.funcs:
            return m.funcs[name]
        # from x import name
        for n in m.tree.body:
            if isinstance(n, ast.ImportFrom) and n.module:
                modname = n.module.rsplit(".", 1)[-1]
                for a in n.names:
                    if (a.asname or a.name) == name or a.name == "*":
                        tm = self.repo.modules.get(modname)
                        if tm and (a.name if a.name != "*" else name) in tm.funcs:
                            return tm.funcs[a.name if a.name != "*" else name]
        return None

    def resolve(self, call, func):
        """Resolve a call to a Func in the analysed repository, or None (library / unknown)."""
        name = callname(call)
        if not name:
            return None
        parts = name.split(".")
        r = None
        if len(parts) == 1:
            r = self.lookup_name(parts[0], func)
        elif parts[0] == "self":
            cls = self.class_of_chain(parts[:-1], func)
            if cls:
                r = self.method(cls, parts[-1])
        else:
            # x.y.method where x is a local alias for self.<attr> or a conventional attribute name
            cls = None
            for p in parts[:-1]:
                cls = ATTR_CONVENTION.get(p) if cls is None else self.attr_class(cls, p)
                if cls is None:
                    break
            if cls:
                r = self.method(cls, parts[-1])
        if r is not None:
            self.resolved_count += 1
        return r

    def qresolve(self, call, func):
        r = self.resolve(call, func)
        return r.qname if r else None


def prefix_dispatch_sites(func_node):
    """Find `locals().get(K, d)(...)` sites; returns list of (call, key_expr, default_expr)."""
    out = []
    for n in ast.walk(func_node):
        if isinstance(n, ast.Call) and isinstance(n.func, ast.Call):
            inner = n.func
            if (isinstance(inner.func, ast.Attribute) and inner.func.attr == "get"
                    and isinstance(inner.func.value, ast.Call)
                    and isinstance(inner.func.value.func, ast.Name)
                    and inner.func.value.func.id == "locals" and inner.args):
                out.append((n, inner.args[0], inner.args[1] if len(inner.args) > 1 else None))
    return out


def symtable_unbound_globals(module):
    """names used as globals in functions of a module that are bound nowhere at module level (E: cross-reference pass)."""
    import builtins
    top = symtable.symtable(module.src, module.path, "exec")
    bound = set()
    star = False
    for n in module.tree.body:
        if isinstance(n, ast.ImportFrom) and any(a.name == "*" for a in n.names):
            star = True
    for s in top.get_symbols():
        if s.is_assigned() or s.is_imported() or s.is_namespace():
            bound.add(s.get_name())
    # globals()["X"] = ... injection
    for n in ast.walk(module.tree):
        if isinstance(n, ast.Assign):
            for t in n.targets:
                if isinstance(t, ast.Subscript) and isinstance(t.value, ast.Call) and callname(t.value) == "globals":
                    k = subscript_key(t)
                    if isinstance(k, str):
                        bound.add(k)
        if isinstance(n, ast.Global):
            bound.update(n.names)
    out = []

    def rec(tab, path):
        for s in tab.get_symbols():
            if tab.get_type() == "function" and s.is_global() and s.is_referenced():
                nm = s.get_name()
                if nm not in bound and not hasattr(builtins, nm):
                    out.append((path, nm))
        for c in tab.get_children():
            rec(c, path + "." + c.get_name() if path else c.get_name())
    rec(top, "")
    return out, star
