"""The event-handling protocol of StateEngine.notify, as effects + contracts + roles for sa.flow.

Shared by C02.R5 (exactly one continuation per handler path), C03.R1 (no consequence after the
ack), C03.R2 (every path disposes of the event id), C04.R1, C06.R5, C16.R4 and C18.R4.
"""
import ast

from .core import AnalysisError, callname, last, short, norm, prefix_dispatch_sites, walk_no_nested_incl
from .flow import FlowEngine, State
from .cfg import OTHER

NOTIFY = "StateEngine.notify"

# effect tags by resolved callee
EFFECTS = {
    "EventDispatcher.acknowledge": "ACK",
    "EventDispatcher.publish": "PUB",
    "StateEngine.log_and_drop": "DROP",
    "StateEngine.end_execution": "END",
    "StateEngine.update_execution_history": "HIST",
    "StateEngine.broadcast_notification": "BCAST",
    "StateEngine.acknowledge_event_list": "ACKLIST",
    "StateEngine.check_pending_results": "TIDY",
    "StateEngine.start_execution": "START",
    "TaskDispatcher.execute_task": "DEFER",
    "TaskDispatcher.cancel_task": "NEUTRAL",
    "TaskDispatcher.remove_canceller": "NEUTRAL",
    "TaskDispatcher.set_timeout_canceller": "NEUTRAL",
    "TaskDispatcher.handle_sfn_response": "NEUTRAL",
}
# set_timeout/clear_timeout are instance attributes bound at start(): not resolvable to a def
EFFECTS_BY_NAME = {"set_timeout": "DEFER", "clear_timeout": "NEUTRAL"}

CONSEQUENCES = {"PUB", "END", "HIST", "BCAST", "DEFER", "START"}
CONTINUATIONS = {"PUB", "END", "DEFER", "DROP"}


class Protocol:
    def __init__(self, repo, resolver, depth=3, all_calls_raise=False):
        self.repo, self.res = repo, resolver
        self.mod = repo.mod("state_engine")
        self.notify = self.mod.func(NOTIFY)
        self.eng = FlowEngine(repo, resolver, depth=depth, all_calls_raise=all_calls_raise)
        self.eng.effects = dict(EFFECTS)
        FlowEngine.effects_by_name = dict(EFFECTS_BY_NAME)
        for q in EFFECTS:
            cls, meth = q.split(".")
            m, c = repo.find_class(cls)
            if m is None or (q not in m.funcs):
                raise AnalysisError("anchor not found: " + q)
        self.he = self._child("handle_error")
        self.ht = self._child("handle_terminal_state")
        self.join = self._child("asl_state_collect_results")
        self.gate = self.mod.func("StateEngine.branch_has_terminated")
        self.eng.contracts = {
            self.he.qname: self._c_handle_error,
            self.ht.qname: self._c_handle_terminal_state,
            self.join.qname: self._c_join,
            self.gate.qname: self._c_gate,
        }
        self.reports = []   # (rule, func qname, key, message, where, path)
        self.entries = []
        self.deferred_targets = {}
        self.paths_checked = 0
        self.exits_checked = 0
        self._discover()

    def _child(self, name):
        f = self.notify.children.get(name)
        if f is None:
            raise AnalysisError("anchor not found: %s.%s" % (NOTIFY, name))
        return f

    # ------------------------------------------------------------ discovery
    def _discover(self):
        self.handlers = {n[len("asl_state_"):]: f for n, f in self.notify.children.items()
                         if n.startswith("asl_state_") and f is not self.join and not n.endswith("_delegate")}
        # deferred entries: nested functions passed as arguments to DEFER calls anywhere under notify
        todo = list(self.notify.children.values())
        seen = set()
        while todo:
            f = todo.pop()
            if f.qname in seen:
                continue
            seen.add(f.qname)
            todo.extend(f.children.values())
            for n in walk_no_nested_incl_func(f.node):
                if isinstance(n, ast.Call):
                    tag, _ = self.eng.classify(n, f)
                    if tag == "DEFER":
                        for a in list(n.args) + [k.value for k in n.keywords]:
                            if isinstance(a, ast.Name):
                                t = self.res.lookup_name(a.id, f)
                                if t is not None and t.qname.startswith(NOTIFY + "."):
                                    self.deferred_targets[t.qname] = t
        site = None
        for call, key, default in prefix_dispatch_sites(self.notify.node):
            if self.mod.enclosing_func(call) is self.notify or True:
                k = key
                if isinstance(k, ast.BinOp) and isinstance(k.left, ast.Constant) and k.left.value == "asl_state_":
                    if self.mod.enclosing_func(call) is not None and self.mod.enclosing_func(call).qname == NOTIFY:
                        site = call
        if site is None:
            raise AnalysisError("anchor not found: the asl_state_ prefix dispatch in notify")
        self.dispatch_site = site

    # ------------------------------------------------------------ reporting
    current_entry = None

    def report(self, rule, func, key, message, node=None, path=None):
        where = func.where(node) if node is not None else func.where()
        ent = self.current_entry or func
        k = "%s | %s" % (ent.qname, key)
        if ent is not func:
            k += " (in %s)" % func.qname
        self.reports.append({"rule": rule, "func": ent.qname, "key": k,
                             "message": message, "where": where, "path": path})

    # ------------------------------------------------------------ contracts (used at call sites)
    def _after_ack(self, func, call, st, tag, node):
        if st.acked:
            how = "acknowledge_event_list" if "acklist" in st.flags else "acknowledge"
            self.report("C03.R1", func, "%s after %s" % (tag, how),
                        "consequence %s issued after the event was acknowledged" % short(call, 70), call,
                        path=None)

    def _cont(self, st, call, func=None):
        fl = st.flags | {("c", short(call, 60))}
        return st._replace(conts=min(st.conts + 1, 2), flags=fl)

    def _c_handle_error(self, eng, call, func, st, argvals, node):
        self._after_ack(func, call, st, "handle_error", node)
        if "fanout" in st.flags and st.conts == 1:
            # failure after a partial fan-out: handle_error -> handle_terminal_state -> join marks the fan-out
            # terminated, so the iterations already published are dropped by the termination gate (C06.R3).
            # The failure replaces the fan-out as the path's continuation.
            return [(st._replace(flags=st.flags | {"fanout_abort"}), None)]
        return [(self._cont(st, call), None)]

    def _c_handle_terminal_state(self, eng, call, func, st, argvals, node):
        self._after_ack(func, call, st, "handle_terminal_state", node)
        idv = argvals.get("id")
        if idv == "T":
            st = self._cont(st, call)
            return [(st._replace(disposed=True, acked=True, flags=st.flags | {"ht_id"}), None)]
        return [(self._cont(st, call), None)]

    def _c_join(self, eng, call, func, st, argvals, node):
        self._after_ack(func, call, st, "asl_state_collect_results", node)
        return [(self._cont(st, call)._replace(disposed=True), None)]

    def _c_gate(self, eng, call, func, st, argvals, node):
        # verified separately: truthy result => the event was acknowledged and dropped
        return [(self._cont(st, call)._replace(disposed=True, acked=True), "T"), (st, "F")]

    # ------------------------------------------------------------ effect semantics
    def _on_effect(self, eng, func, call, st, tag, node):
        if tag == "NEUTRAL":
            return [(st, None)]
        if tag == "ACK":
            a = call.args[0] if call.args else None
            own = isinstance(a, ast.Name) and a.id == "id"
            if not own:
                return [(st, None)]
            if st.acked and "ht_id" not in st.flags:
                self.report("C03.R1b", func, "second acknowledge of the same event", "event id acknowledged twice on one path", call)
            return [(st._replace(acked=True, disposed=True), None)]
        if tag == "DROP":
            st = self._cont(st, call)
            return [(st._replace(acked=True, disposed=True, flags=st.flags | {"drop"}), None)]
        if tag == "ACKLIST":
            # acknowledges every held id of the fan-out, the current event's included
            return [(st._replace(acked=True, disposed=True, flags=st.flags | {"acklist"}), None)]
        if tag == "TIDY":
            # the tear-down only does (and promises) something when the execution has a fan-out in progress: as a substitute for ending the
            # execution it counts only under the membership test `execution_arn in self.branch_metadata`
            from .util import enclosing_ifs
            guarded = any(arm == "body" and "in self.branch_metadata" in norm(i.test) and "not in" not in norm(i.test) for i, arm in enclosing_ifs(self.mod, call, func.node))
            return [(st._replace(flags=st.flags | ({"tidy"} if guarded else {"tidy_unguarded"})), None)]
        if tag in CONSEQUENCES:
            if st.acked and "ht_id" not in st.flags:
                self._after_ack(func, call, st, tag, node)
            s2 = st
            if tag == "DEFER":
                s2 = s2._replace(disposed=True)
            if tag in CONTINUATIONS:
                fl = s2.flags
                if tag == "PUB" and self._in_loop(func, call):
                    if "fanout" in fl:
                        return [(s2, None)]       # all publishes of one loop are a single continuation
                    fl = fl | {"fanout"}
                s2 = self._cont(s2._replace(flags=fl), call)
            return [(s2, None)]
        return None

    def _in_loop(self, func, node):
        m = func.module
        n = m.parent(node)
        while n is not None and n is not func.node:
            if isinstance(n, (ast.For, ast.While)):
                return True
            if isinstance(n, (ast.FunctionDef, ast.AsyncFunctionDef)):
                return False
            n = m.parent(n)
        return False

    # ------------------------------------------------------------ per-role checks
    def role(self, **kw):
        r = {"on_effect": self._on_effect}
        r.update(kw)
        return r

    def _init_state(self, env=None):
        e = {"id": "T"}
        if env:
            e.update(env)
        return State(False, 0, False, frozenset(), frozenset(e.items()))

    def check_entry(self, func, kind):
        """kind: 'direct' | 'deferred'"""
        eng = self.eng
        self.current_entry = func
        exits = eng.run(func, self._init_state(), self.role())
        self.entries.append((func.qname, kind, len(exits)))
        for ek, st, rv, key in exits:
            self.exits_checked += 1
            path = eng.trail(key)
            if ek == "raise":
                if kind == "deferred":
                    self.report("C18.R4", func, "uncaught %s escapes deferred entry" % "/".join(sorted(rv)),
                                "an exception of class %s raised here is not caught by the deferred callback: the event is never "
                                "acknowledged and the execution never fails" % "/".join(sorted(rv)), func.node, path)
                else:
                    if st.acked or st.conts or st.disposed:
                        self.report("C03.R1", func, "exception escapes after effects",
                                    "exception escapes to notify's catch-all after acked=%s conts=%d" % (st.acked, st.conts), func.node, path)
                continue
            self._check_exit(func, st, path, last_stmt=self._last_stmt(key))

    def _last_stmt(self, key):
        n = self.eng._last_cfg.nodes[key[0]]
        a = n.ast
        if n.kind == 'test':
            return a.test
        if n.kind == 'loop':
            return ast.parse('for_loop_exit').body[0].value if a is None else a.iter
        return a

    def _check_exit(self, func, st, path, need_disposed=True, allow_zero=False, last_stmt=None):
        skips = sorted(f[1] for f in st.flags if isinstance(f, tuple) and f[0] == "skip")
        drops = sorted(f[1] for f in st.flags if isinstance(f, tuple) and f[0] == "errdrop")
        conts = sorted(f[1] for f in st.flags if isinstance(f, tuple) and f[0] == "c")
        cause = "".join("; fan-out/scan loop `%s` ran zero times" % h for h in skips) + \
                "".join("; error result of %s discarded" % q for q in drops)
        if st.conts == 0 and not allow_zero:
            if not cause and last_stmt is not None:
                cause = "; path ends at `%s`" % short(last_stmt, 70)
            self.report("C02.R5", func, "path with no continuation" + cause,
                        "a path through the handler acknowledges/returns without publishing a successor, ending the execution, "
                        "deferring or handling an error", func.node, path)
        if st.conts >= 2:
            self.report("C02.R5", func, "path with more than one continuation: " + " + ".join(conts),
                        "a path through the handler issues two continuations", func.node, path)
        if need_disposed and not st.disposed:
            if last_stmt is not None:
                cause += "; path ends at `%s`" % short(last_stmt, 70)
            self.report("C03.R2", func, "path leaves the event id neither acknowledged, held nor handed off" + cause,
                        "event id is not disposed of on this path", func.node, path)

    def _path_sig(self, path):
        """stable signature of a path: the last branch-relevant statement texts (no line numbers)"""
        if not path:
            return ""
        sig = [p.split(" ", 1)[1] for p in path if " " in p]
        sig = [s for s in sig if s not in ("test", "loop", "with", "except")]
        return " via " + " ; ".join(sig[-2:]) if sig else ""

    def check_handle_error(self):
        eng = self.eng
        self.current_entry = self.he
        exits = eng.run(self.he, self._init_state(), self.role())
        self.entries.append((self.he.qname, "contract", len(exits)))
        for ek, st, rv, key in exits:
            self.exits_checked += 1
            path = eng.trail(key)
            if ek == "raise":
                self.report("C02.R5", self.he, "exception escapes handle_error", "handle_error may raise %s" % sorted(rv), self.he.node, path)
                continue
            self._check_exit(self.he, st, path, need_disposed=False, last_stmt=self._last_stmt(key))
            if st.acked and "acklist" not in st.flags:
                self.report("C03.R1b", self.he, "handle_error acknowledges the event", "contract: the caller acknowledges", self.he.node, path)

    def check_handle_terminal_state(self):
        eng = self.eng
        self.current_entry = self.ht
        for idv in ("T", "N"):
            exits = eng.run(self.ht, self._init_state(), self.role(), params={"id": idv})
            self.entries.append((self.ht.qname + "[id=%s]" % idv, "contract", len(exits)))
            for ek, st, rv, key in exits:
                self.exits_checked += 1
                path = eng.trail(key)
                if ek == "raise":
                    self.report("C02.R5", self.ht, "exception escapes handle_terminal_state", "may raise %s" % sorted(rv), self.ht.node, path)
                    continue
                ok_zero = "tidy" in st.flags     # Task.Terminated: the execution was already failed by a sibling
                last = self._last_stmt(key)
                # the "fan-out set-up failed before Index was populated" arm is only reached through handle_error,
                # which passes no id (the failing Map/Parallel handler acknowledges itself): no disposal owed there
                need = (idv == "T") and not self._in_setup_failure_arm(last)
                self._check_exit(self.ht, st, path, need_disposed=need, allow_zero=ok_zero, last_stmt=last)

    def _in_setup_failure_arm(self, node):
        m = self.mod
        n = node
        while n is not None and n is not self.ht.node:
            par = m.parent(n)
            if isinstance(par, ast.If) and n in par.body:
                for c in ast.walk(par.test):
                    if isinstance(c, ast.Compare) and len(c.ops) == 1 and isinstance(c.ops[0], ast.NotIn) and isinstance(c.left, ast.Constant) and c.left.value == "Index":
                        return True
            n = par
        return False

    def check_join(self):
        eng = self.eng
        f = self.join
        self.current_entry = f
        pending_returns = self.join_pending_returns()
        exits = eng.run(f, self._init_state(), self.role())
        self.entries.append((f.qname, "contract", len(exits)))
        g = eng.cfg(f)
        for ek, st, rv, key in exits:
            self.exits_checked += 1
            path = eng.trail(key)
            if ek == "raise":
                self.report("C18.R4", f, "uncaught %s escapes the join" % "/".join(sorted(rv)), "exception escapes asl_state_collect_results", f.node, path)
                continue
            last_node = g.nodes[key[0]]
            at_pending = last_node.ast in pending_returns
            self._check_exit(f, st, path, need_disposed=False, allow_zero=at_pending or "drop" in st.flags, last_stmt=self._last_stmt(key))

    def join_pending_returns(self):
        """return statements of the join that are nested in the true arm of the completeness test
        (`None in <results>`): the legitimate 'still waiting for siblings' exits."""
        out = []
        f = self.join
        for n in walk_no_nested_incl_func(f.node):
            if isinstance(n, ast.If) and self._is_completeness_test(n.test):
                for s in ast.walk(ast.Module(body=n.body, type_ignores=[])):
                    if isinstance(s, ast.Return):
                        out.append(s)
        return out

    @staticmethod
    def _is_completeness_test(test):
        for n in ast.walk(test):
            if isinstance(n, ast.Compare) and len(n.ops) == 1 and isinstance(n.ops[0], ast.In) and isinstance(n.left, ast.Constant) and n.left.value is None:
                return True
        return False

    def check_gate(self):
        eng = self.eng
        f = self.gate
        self.current_entry = f
        exits = eng.run(f, self._init_state(), self.role())
        self.entries.append((f.qname, "contract", len(exits)))
        for ek, st, rv, key in exits:
            self.exits_checked += 1
            path = eng.trail(key)
            if ek == "raise":
                continue
            if rv == "T" and not st.acked:
                self.report("C03.R2", f, "returns truthy (event dropped) without acknowledging it",
                            "the caller returns at once when the branch has terminated, so on this path the event is never acknowledged", f.node, path)
            if rv in ("F", "N") and st.acked:
                self.report("C03.R1", f, "returns falsy after acknowledging", "handler will run after the event was acknowledged", f.node, path)
            if rv is None:
                self.report("C03.R2", f, "gate result not decidable", "return value of the gate could not be resolved to truthy/falsy on a path", f.node, path)

    def check_notify(self):
        """prelude + tail of notify itself; the prefix dispatch is a choice among the verified handlers"""
        eng = self.eng
        site = self.dispatch_site
        self.current_entry = self.notify
        eng.extra_may_raise[id(site)] = {OTHER}

        def hook(e, func, call, st, tag, target, node):
            if call is site:
                return [(self._cont(st, ast.parse("asl_state_dispatch()").body[0].value)._replace(disposed=True, acked=True, flags=st.flags | {"ht_id"}), None)]
            if call is site.func or (isinstance(call.func, ast.Attribute) and callname(call) in ("locals", "locals().get")) or callname(call) == "locals":
                return [(st, None)]
            return None
        eng.cfgs.pop(self.notify.qname, None)
        exits = eng.run(self.notify, self._init_state(), self.role(call_hook=hook))
        self.entries.append((self.notify.qname, "entry", len(exits)))
        for ek, st, rv, key in exits:
            self.exits_checked += 1
            path = eng.trail(key)
            if ek == "raise":
                # escapes to EventDispatcher.dispatch, whose except arms acknowledge the poison message (C03.R3);
                # whether the execution is failed is C18.R4's question
                if st.conts or st.acked:
                    pass
                self.raise_exits_notify.append((st, sorted(rv), path))
                continue
            self._check_exit(self.notify, st, path, last_stmt=self._last_stmt(key))

    raise_exits_notify = []

    def run_all(self):
        self.raise_exits_notify = []
        for name, f in sorted(self.handlers.items()):
            self.check_entry(f, "direct")
        for q, f in sorted(self.deferred_targets.items()):
            self.check_entry(f, "deferred")
        self.check_handle_error()
        self.check_handle_terminal_state()
        self.check_join()
        self.check_gate()
        self.check_notify()
        return self.reports


def walk_no_nested_incl_func(fnode):
    for s in fnode.body:
        for n in walk_no_nested_incl(s):
            yield n
