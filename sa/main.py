"""CLI: ./check Cnn [--tier quick|thorough]; ./check --replay path; ./check --all [--tier t]"""
import importlib
import json
import os
import sys
import time
import traceback

HERE = os.path.dirname(os.path.abspath(__file__))
sys.path.insert(0, os.path.dirname(HERE))

from sa.core import Repo, Resolver, AnalysisError  # noqa: E402
from sa.report import Check  # noqa: E402
from sa.context import Context  # noqa: E402

PROPS = ["C%02d" % i for i in range(1, 21)]


def run_property(prop, tier, root=None, quiet=False):
    t0 = time.time()
    try:
        repo = Repo(root)
        ctx = Context(repo, tier)
        chk = Check(prop, tier, repo, seed=int(os.environ.get("VERIF_SEED", "0") or 0))
        try:
            mod = importlib.import_module("sa.rules." + prop.lower())
        except ModuleNotFoundError:
            print("ANALYSIS-ERROR property=%s no rules implemented" % prop)
            return 2
        try:
            mod.run(chk, ctx)
        except AnalysisError as e:
            # an anchor of a clause rule vanished: no verdict from the remaining clause rules (exit 2 unless something else is a violation)
            chk.floor_failures.append(str(e))
        from sa.rules import reviewed
        reviewed.run(chk, ctx, prop)
        if tier == "thorough":
            if hasattr(mod, "thorough"):
                mod.thorough(chk, ctx)
            from sa import selfval
            selfval.run(chk, repo.root)
        return chk.finish(mod.EXPLANATION, mod.RULE_TEXT)
    except AnalysisError as e:
        print("ANALYSIS-ERROR property=%s %s" % (prop, e))
        return 2
    except Exception:
        print("ANALYSIS-ERROR property=%s internal error in the checker:" % prop)
        traceback.print_exc(file=sys.stdout)
        return 2


def main(argv):
    tier = os.environ.get("VERIF_TIER", "quick")
    args = list(argv)
    if "--tier" in args:
        i = args.index("--tier")
        tier = args[i + 1]
        del args[i:i + 2]
    root = None
    if "--root" in args:
        i = args.index("--root")
        root = args[i + 1]
        del args[i:i + 2]
    if "--replay" in args:
        i = args.index("--replay")
        with open(args[i + 1]) as f:
            r = json.load(f)
        print("replay of %s: rule %s at %s" % (r["property"], r["rule"], r["where"]))
        print("construct: " + r["key"])
        print("message:   " + r["message"])
        if r.get("path"):
            print("path:")
            for p in r["path"]:
                print("    " + p)
        print("re-running the property's rules on the current tree:")
        return run_property(r["property"], r.get("tier", "quick"), root)
    if "--all" in args:
        rc = 0
        for p in PROPS:
            rc = max(rc, run_property(p, tier, root))
        return rc
    if not args or args[0] not in PROPS:
        print("usage: ./check Cnn [--tier quick|thorough] | --replay path | --all")
        return 2
    return run_property(args[0], tier, root)


if __name__ == "__main__":
    sys.exit(main(sys.argv[1:]))
