"""E13 helpers: behaviour-preserving source transformations (benign twins) applied to a scratch copy of the tree.

T1 reformat : ast.unparse(ast.parse(src)) - strips comments, normalises layout and quoting
T2 rename   : every function-local variable (not parameters, not globals, not attributes) gets a suffix, consistently in the
              defining function and in every nested function where it is free (symtable scopes)
T3 noise    : a logging no-op statement is inserted at the top of every function body and after every simple statement
All three keep the program's behaviour; every check must give the same verdict and the same finding keys modulo the renamed
local names.
"""
import ast
import os
import symtable

from .core import PKG, LINT

SUFFIX = "_rn"


def _py_files(root):
    out = []
    for d in (PKG, LINT):
        p = os.path.join(root, d)
        for fn in sorted(os.listdir(p)):
            if fn.endswith(".py"):
                out.append(os.path.join(p, fn))
    return out


def reformat(root):
    n = 0
    for p in _py_files(root):
        src = open(p).read()
        out = ast.unparse(ast.parse(src)) + "\n"
        open(p, "w").write(out)
        n += 1
    return n


class _Renamer(ast.NodeTransformer):
    """rename locals of each function scope; nested scopes see the renamed free variables"""

    def __init__(self, table):
        self.table_stack = [table]
        self.map_stack = [{}]
        self.count = 0

    def _enter(self, node, name):
        tab = None
        for c in self.table_stack[-1].get_children():
            if c.get_name() == name and c.get_lineno() == node.lineno:
                tab = c
                break
        return tab

    def _func(self, node):
        tab = self._enter(node, node.name)
        if tab is None:
            return node
        params = {a.arg for a in node.args.args + node.args.kwonlyargs + node.args.posonlyargs}
        if node.args.vararg:
            params.add(node.args.vararg.arg)
        if node.args.kwarg:
            params.add(node.args.kwarg.arg)
        nested_defs = {c.get_name() for c in tab.get_children()}
        mapping = dict(self.map_stack[-1])
        uses_locals_call = any(isinstance(x, ast.Call) and isinstance(x.func, ast.Name) and x.func.id == "locals" for x in ast.walk(node))
        for s in tab.get_symbols():
            nm = s.get_name()
            if s.is_local() and not s.is_parameter() and nm not in params and nm not in nested_defs and not s.is_imported() and not nm.startswith("__"):
                if uses_locals_call and nm.startswith(("asl_", "aws_api_")):
                    continue
                mapping[nm] = nm + SUFFIX
                self.count += 1
            elif s.is_parameter() or nm in nested_defs:
                mapping.pop(nm, None)      # shadows an outer renamed local
        # default values / decorators are evaluated in the enclosing scope
        node.args.defaults = [self.visit(d) for d in node.args.defaults]
        node.decorator_list = [self.visit(d) for d in node.decorator_list]
        self.table_stack.append(tab)
        self.map_stack.append(mapping)
        node.body = [self.visit(s) for s in node.body]
        self.table_stack.pop()
        self.map_stack.pop()
        return node

    visit_FunctionDef = _func
    visit_AsyncFunctionDef = _func

    def visit_ClassDef(self, node):
        tab = self._enter(node, node.name)
        if tab is None:
            return node
        self.table_stack.append(tab)
        self.map_stack.append({})
        node.body = [self.visit(s) for s in node.body]
        self.table_stack.pop()
        self.map_stack.pop()
        return node

    def visit_Lambda(self, node):
        params = {a.arg for a in node.args.args}
        m = {k: v for k, v in self.map_stack[-1].items() if k not in params}
        self.map_stack.append(m)
        node.body = self.visit(node.body)
        self.map_stack.pop()
        return node

    def _comp(self, node):
        # comprehension targets are their own scope: leave them, but rename free uses
        targets = set()
        for g in node.generators:
            for x in ast.walk(g.target):
                if isinstance(x, ast.Name):
                    targets.add(x.id)
        m = {k: v for k, v in self.map_stack[-1].items() if k not in targets}
        self.map_stack.append(m)
        self.generic_visit(node)
        self.map_stack.pop()
        return node

    visit_ListComp = visit_SetComp = visit_DictComp = visit_GeneratorExp = _comp

    def visit_Name(self, node):
        new = self.map_stack[-1].get(node.id)
        if new:
            node.id = new
        return node

    def visit_ExceptHandler(self, node):
        if node.name and node.name in self.map_stack[-1]:
            node.name = self.map_stack[-1][node.name]
        self.generic_visit(node)
        return node

    def visit_Global(self, node):
        return node

    def visit_Nonlocal(self, node):
        node.names = [self.map_stack[-1].get(n, n) for n in node.names]
        return node


def rename_locals(root, only=None):
    total = 0
    for p in _py_files(root):
        if only and os.path.basename(p) not in only:
            continue
        src = open(p).read()
        tree = ast.parse(src)
        tab = symtable.symtable(src, p, "exec")
        r = _Renamer(tab)
        tree = r.visit(tree)
        ast.fix_missing_locations(tree)
        out = ast.unparse(tree) + "\n"
        compile(out, p, "exec")
        open(p, "w").write(out)
        total += r.count
    return total


class _Noise(ast.NodeTransformer):
    def __init__(self):
        self.count = 0

    def _noise(self):
        self.count += 1
        return ast.parse("_verif_noise = None").body[0]

    def _body(self, body):
        out = []
        for s in body:
            s = self.visit(s)
            out.append(s)
            if isinstance(s, (ast.Assign, ast.Expr, ast.AugAssign)) and not (isinstance(s, ast.Expr) and isinstance(s.value, ast.Constant)):
                out.append(self._noise())
        return out

    def _func(self, node):
        doc = []
        body = node.body
        if body and isinstance(body[0], ast.Expr) and isinstance(body[0].value, ast.Constant) and isinstance(body[0].value.value, str):
            doc, body = [body[0]], body[1:]
        node.body = doc + [self._noise()] + self._body(body)
        return node

    visit_FunctionDef = _func
    visit_AsyncFunctionDef = _func

    def generic_visit(self, node):
        for fld in ("body", "orelse", "finalbody"):
            b = getattr(node, fld, None)
            if isinstance(b, list) and b and isinstance(b[0], ast.stmt) and not isinstance(node, (ast.FunctionDef, ast.AsyncFunctionDef, ast.Module, ast.ClassDef)):
                setattr(node, fld, self._body(b))
        if isinstance(node, ast.Try):
            for h in node.handlers:
                h.body = self._body(h.body)
        if isinstance(node, (ast.Module, ast.ClassDef)):
            node.body = [self.visit(s) for s in node.body]
        return node


def noise(root):
    total = 0
    for p in _py_files(root):
        src = open(p).read()
        tree = ast.parse(src)
        n = _Noise()
        tree = n.visit(tree)
        ast.fix_missing_locations(tree)
        out = ast.unparse(tree) + "\n"
        compile(out, p, "exec")
        open(p, "w").write(out)
        total += n.count
    return total


class _Swap(ast.NodeTransformer):
    """T4: swap adjacent, mutually independent, side-effect-free simple assignments"""

    def __init__(self):
        self.count = 0

    @staticmethod
    def _simple(s):
        if not (isinstance(s, ast.Assign) and len(s.targets) == 1 and isinstance(s.targets[0], ast.Name)):
            return None
        for n in ast.walk(s.value):
            if isinstance(n, (ast.Call, ast.Await, ast.Yield, ast.NamedExpr, ast.Subscript, ast.Attribute)):
                return None
        reads = {n.id for n in ast.walk(s.value) if isinstance(n, ast.Name)}
        return s.targets[0].id, reads

    def _body(self, body):
        out = list(body)
        i = 0
        while i + 1 < len(out):
            a, b = self._simple(out[i]), self._simple(out[i + 1])
            if a and b and a[0] != b[0] and a[0] not in b[1] and b[0] not in a[1]:
                out[i], out[i + 1] = out[i + 1], out[i]
                self.count += 1
                i += 2
            else:
                i += 1
        return out

    def generic_visit(self, node):
        super().generic_visit(node)
        for fld in ("body", "orelse", "finalbody"):
            b = getattr(node, fld, None)
            if isinstance(b, list) and b and isinstance(b[0], ast.stmt):
                setattr(node, fld, self._body(b))
        return node


def swap_independent(root):
    total = 0
    for p in _py_files(root):
        tree = ast.parse(open(p).read())
        s = _Swap()
        tree = s.visit(tree)
        ast.fix_missing_locations(tree)
        out = ast.unparse(tree) + "\n"
        compile(out, p, "exec")
        open(p, "w").write(out)
        total += s.count
    return total
