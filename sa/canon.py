"""Canonicalisation of a parsed module before the rules look at it.

Two behaviour-preserving normalisations make the rules insensitive to harmless refactors:

1. inert statements are dropped: logging / print calls, `pass`, and assignments of a constant or a name to a local
   that is never read anywhere in its function (nor in nested functions);
2. local variable names are restored to the names the rules were written against.  Every local gets a *fingerprint*
   computed from its binding sites only (assignment right-hand sides, loop iterables, handler types ...) in which other
   locals are replaced by their own fingerprints - so the fingerprint does not depend on how locals are spelled.
   `canon_table.json` (generated from the reference tree by tools/gen_canon.py) maps, per function, fingerprint ->
   reference name.  A local whose fingerprint is in the table and whose name differs is renamed (in its function and in
   nested functions where it is free).  A local whose definition was changed has a new fingerprint, is not in the table
   and keeps its name, so a behavioural edit is never hidden: the rules see exactly the changed definition.

Parameters, nested function names, attributes and globals are never renamed (they are interface, not spelling).
"""
import ast
import hashlib
import json
import os
import symtable

HERE = os.path.dirname(os.path.abspath(__file__))
TABLE = os.path.join(HERE, "canon_table.json")
_table_cache = None


def load_table():
    global _table_cache
    if _table_cache is None:
        try:
            with open(TABLE) as f:
                _table_cache = json.load(f)
        except Exception:
            _table_cache = {}
    return _table_cache


# ------------------------------------------------------------------ inert statements

def _is_log_call(s):
    if isinstance(s, ast.Expr) and isinstance(s.value, ast.Call):
        f = s.value.func
        if isinstance(f, ast.Name) and f.id == "print":
            return True
        if isinstance(f, ast.Attribute) and f.attr in ("debug", "info", "warning", "warn", "error", "exception", "critical", "log"):
            v = f.value
            if isinstance(v, ast.Attribute) and v.attr == "logger":
                return True
            if isinstance(v, ast.Name) and v.id in ("logger", "log", "logging"):
                return True
    return False


def _loads(func_node):
    out = set()
    for n in ast.walk(func_node):
        if isinstance(n, ast.Name) and isinstance(n.ctx, (ast.Load, ast.Del)):
            out.add(n.id)
        elif isinstance(n, (ast.Global, ast.Nonlocal)):
            out.update(n.names)
    return out


class _DropInert(ast.NodeTransformer):
    def __init__(self):
        self.loads_stack = []
        self.dropped = 0

    def _clean(self, body, keep_one=True):
        out = []
        for s in body:
            if isinstance(s, ast.Pass):
                self.dropped += 1
                continue
            if self.loads_stack and isinstance(s, ast.Assign) and len(s.targets) == 1 and isinstance(s.targets[0], ast.Name) \
                    and isinstance(s.value, (ast.Constant, ast.Name)) and s.targets[0].id not in self.loads_stack[0] \
                    and not s.targets[0].id.startswith("__"):
                # dead store to a never-read local; [0] is the outermost function: a name read anywhere in it (closures) counts
                self.dropped += 1
                continue
            out.append(self.visit(s))
        if not out and keep_one:
            out = [ast.copy_location(ast.Pass(), body[0])] if body else []
        return out

    def _func(self, node):
        self.loads_stack.append(_loads(node) if not self.loads_stack else self.loads_stack[0])
        node.body = self._clean(node.body)
        self.loads_stack.pop()
        return node

    visit_FunctionDef = _func
    visit_AsyncFunctionDef = _func

    def generic_visit(self, node):
        for fld in ("body", "orelse", "finalbody"):
            b = getattr(node, fld, None)
            if isinstance(b, list) and b and isinstance(b[0], ast.stmt) and not isinstance(node, (ast.FunctionDef, ast.AsyncFunctionDef)):
                setattr(node, fld, self._clean(b, keep_one=(fld == "body")))
        if isinstance(node, ast.Try):
            for h in node.handlers:
                h.body = self._clean(h.body)
        for fld, val in ast.iter_fields(node):
            if fld in ("body", "orelse", "finalbody", "handlers"):
                continue
            if isinstance(val, list):
                setattr(node, fld, [self.visit(v) if isinstance(v, ast.AST) else v for v in val])
            elif isinstance(val, ast.AST):
                setattr(node, fld, self.visit(val))
        return node


def drop_inert(tree):
    d = _DropInert()
    d.visit(tree)
    return d.dropped


# ------------------------------------------------------------------ fingerprints

class Scope:
    def __init__(self, node, qname, parent):
        self.node, self.qname, self.parent = node, qname, parent
        a = node.args
        self.params = {x.arg for x in a.args + a.kwonlyargs + a.posonlyargs}
        if a.vararg:
            self.params.add(a.vararg.arg)
        if a.kwarg:
            self.params.add(a.kwarg.arg)
        self.children = []
        self.nested_names = set()
        self.bindings = {}      # local name -> list of descriptors (tuples with AST parts)
        self.globals_ = set()
        self.locals = set()


def _own_nodes(func_node):
    """nodes of a function body excluding nested function/class bodies and comprehension-internal targets"""
    stack = list(func_node.body)
    while stack:
        n = stack.pop()
        yield n
        if isinstance(n, (ast.FunctionDef, ast.AsyncFunctionDef, ast.ClassDef, ast.Lambda)):
            continue
        stack.extend(ast.iter_child_nodes(n))


def build_scopes(tree):
    scopes = []

    def rec(node, prefix, parent):
        for ch in ast.iter_child_nodes(node):
            if isinstance(ch, (ast.FunctionDef, ast.AsyncFunctionDef)):
                sc = Scope(ch, prefix + ch.name, parent)
                scopes.append(sc)
                if parent is not None:
                    parent.children.append(sc)
                    parent.nested_names.add(ch.name)
                rec(ch, prefix + ch.name + ".", sc)
            elif isinstance(ch, ast.ClassDef):
                rec(ch, prefix + ch.name + ".", parent)
            else:
                rec(ch, prefix, parent)
    rec(tree, "", None)
    for sc in scopes:
        _collect_bindings(sc)
    return scopes


def _targets(t):
    """(name, path) for every Name stored in an assignment target"""
    out = []

    def rec(x, path):
        if isinstance(x, ast.Name):
            out.append((x.id, path))
        elif isinstance(x, (ast.Tuple, ast.List)):
            for i, e in enumerate(x.elts):
                rec(e, path + (i,))
        elif isinstance(x, ast.Starred):
            rec(x.value, path + ("*",))
    rec(t, ())
    return out


def _parents(func_node):
    par = {}
    stack = [func_node]
    while stack:
        n = stack.pop()
        for c in ast.iter_child_nodes(n):
            par[id(c)] = n
            if not isinstance(c, (ast.FunctionDef, ast.AsyncFunctionDef, ast.ClassDef, ast.Lambda)):
                stack.append(c)
    return par


def _context(node, par, func_node):
    """enclosing control context of a binding site: tuple of (kind, arm, test expr or None) from the outside in"""
    out = []
    n = node
    while n is not None and n is not func_node:
        p = par.get(id(n))
        if isinstance(p, ast.If):
            arm = "T" if any(n is x for x in p.body) else "F"
            out.append(("if", arm, p.test))
        elif isinstance(p, (ast.For, ast.AsyncFor)):
            out.append(("for", "", p.iter))
        elif isinstance(p, ast.While):
            out.append(("while", "", p.test))
        elif isinstance(p, ast.ExceptHandler):
            out.append(("except", "", p.type))
        elif isinstance(p, ast.Try):
            out.append(("try", "", None))
        n = p
    out.reverse()
    return tuple(out)


def _collect_bindings(sc):
    b = {}
    comp_targets = set()
    par = _parents(sc.node)
    sc.ctx = {}
    for n in _own_nodes(sc.node):
        if isinstance(n, (ast.Assign, ast.AnnAssign, ast.AugAssign, ast.For, ast.AsyncFor, ast.With, ast.AsyncWith, ast.ExceptHandler)):
            sc.ctx[id(n)] = _context(n, par, sc.node)
    for n in _own_nodes(sc.node):
        if isinstance(n, (ast.Global, ast.Nonlocal)):
            sc.globals_.update(n.names)
        if isinstance(n, (ast.ListComp, ast.SetComp, ast.DictComp, ast.GeneratorExp)):
            for g in n.generators:
                for x in ast.walk(g.target):
                    if isinstance(x, ast.Name):
                        comp_targets.add(id(x))
    for n in _own_nodes(sc.node):
        if isinstance(n, ast.Assign):
            for t in n.targets:
                for name, path in _targets(t):
                    b.setdefault(name, []).append(("=", path, n.value, n))
        elif isinstance(n, ast.AnnAssign) and isinstance(n.target, ast.Name):
            b.setdefault(n.target.id, []).append(("=", (), n.value, n))
        elif isinstance(n, ast.AugAssign) and isinstance(n.target, ast.Name):
            b.setdefault(n.target.id, []).append(("aug", (type(n.op).__name__,), n.value, n))
        elif isinstance(n, (ast.For, ast.AsyncFor)):
            for name, path in _targets(n.target):
                b.setdefault(name, []).append(("for", path, n.iter, n))
        elif isinstance(n, (ast.With, ast.AsyncWith)):
            for it in n.items:
                if it.optional_vars is not None:
                    for name, path in _targets(it.optional_vars):
                        b.setdefault(name, []).append(("with", path, it.context_expr, n))
        elif isinstance(n, ast.ExceptHandler) and n.name:
            b.setdefault(n.name, []).append(("exc", (), n.type, n))
        elif isinstance(n, ast.NamedExpr) and isinstance(n.target, ast.Name):
            b.setdefault(n.target.id, []).append(("=", (), n.value, n))
        elif isinstance(n, (ast.Import, ast.ImportFrom)):
            for a in n.names:
                sc.globals_.add((a.asname or a.name).split(".")[0])   # treat imports as fixed names
    for name in list(b):
        if name in sc.params or name in sc.globals_ or name in sc.nested_names:
            del b[name]
    sc.bindings = b
    sc.locals = set(b)


def _resolve_kind(sc, name):
    """('L', scope) if name is a renamable local of sc or an enclosing scope, else ('P'|'G', None)"""
    s = sc
    while s is not None:
        if name in s.locals:
            return "L", s
        if name in s.params or name in s.nested_names:
            return "P", None
        s = s.parent
    return "G", None


def _canon_expr(expr, sc, depth, memo, hide=frozenset()):
    if expr is None:
        return "None"
    parts = []

    def rec(x, hidden):
        if isinstance(x, ast.Name):
            if x.id in hidden:
                parts.append("C:" + x.id)
                return
            kind, owner = _resolve_kind(sc, x.id)
            if kind == "L":
                parts.append("L(" + (fingerprint(owner, x.id, depth - 1, memo) if depth > 0 else "?") + ")")
            else:
                parts.append(kind + ":" + x.id)
            return
        if isinstance(x, (ast.ListComp, ast.SetComp, ast.DictComp, ast.GeneratorExp)):
            h = set(hidden)
            for g in x.generators:
                h |= {t.id for t in ast.walk(g.target) if isinstance(t, ast.Name)}
            parts.append(type(x).__name__ + "[")
            for ch in ast.iter_child_nodes(x):
                rec(ch, frozenset(h))
            parts.append("]")
            return
        if isinstance(x, ast.Lambda):
            h = set(hidden) | {a.arg for a in x.args.args}
            parts.append("Lambda[")
            rec(x.body, frozenset(h))
            parts.append("]")
            return
        parts.append(type(x).__name__)
        if isinstance(x, ast.Constant):
            parts.append(repr(x.value))
        elif isinstance(x, ast.Attribute):
            parts.append("." + x.attr)
        elif isinstance(x, ast.keyword):
            parts.append("kw:" + str(x.arg))
        parts.append("[")
        for ch in ast.iter_child_nodes(x):
            if isinstance(ch, (ast.expr_context, ast.operator, ast.cmpop, ast.boolop, ast.unaryop)):
                parts.append(type(ch).__name__)
            else:
                rec(ch, hidden)
        parts.append("]")
    rec(expr, hide)
    return "".join(parts)


def fingerprint(sc, name, depth, memo):
    key = (id(sc), name, depth)
    if key in memo:
        return memo[key]
    memo[key] = "~"      # cycle guard
    descs = []
    for kind, path, expr, stmt in sc.bindings.get(name, []):
        ctx = []
        for ck, arm, cexpr in getattr(sc, "ctx", {}).get(id(stmt), ()):
            ctx.append("%s%s(%s)" % (ck, arm, _canon_expr(cexpr, sc, max(depth - 1, 0), memo) if cexpr is not None else ""))
        descs.append("%s%s:%s@%s" % (kind, path, _canon_expr(expr, sc, depth, memo), ">".join(ctx)))
    descs.sort()
    h = hashlib.sha1("|".join(descs).encode()).hexdigest()[:16]
    memo[key] = h
    return h


def scope_fingerprints(sc, depth=3):
    """{fingerprint-with-ordinal: local name} for one function scope"""
    memo = {}
    by_fp = {}
    # order of first binding for stable ordinals among identical fingerprints
    first = {}
    for n in _own_nodes(sc.node):
        if isinstance(n, ast.Name) and isinstance(n.ctx, ast.Store) and n.id in sc.locals:
            pos = (getattr(n, "lineno", 0), getattr(n, "col_offset", 0))
            if n.id not in first or pos < first[n.id]:
                first[n.id] = pos
        elif isinstance(n, ast.ExceptHandler) and n.name in sc.locals:
            pos = (n.lineno, n.col_offset)
            if n.name not in first or pos < first[n.name]:
                first[n.name] = pos
    for name in sorted(sc.locals, key=lambda v: first.get(v, (10 ** 9, 0))):
        fp = fingerprint(sc, name, depth, memo)
        by_fp.setdefault(fp, []).append(name)
    out = {}
    for fp, names in by_fp.items():
        for i, nm in enumerate(names):
            out["%s#%d" % (fp, i)] = nm
    return out


# ------------------------------------------------------------------ renaming

class _Apply(ast.NodeTransformer):
    def __init__(self, plans):
        self.plans = plans      # id(function node) -> {actual: canonical}
        self.stack = [{}]
        self.renamed = 0

    def _func(self, node):
        outer = self.stack[-1]
        a = node.args
        params = {x.arg for x in a.args + a.kwonlyargs + a.posonlyargs}
        if a.vararg:
            params.add(a.vararg.arg)
        if a.kwarg:
            params.add(a.kwarg.arg)
        m = {k: v for k, v in outer.items() if k not in params}
        # a nested function's own locals shadow outer ones
        own = self.plans.get(id(node), {})
        shadow = getattr(node, "_canon_locals", set())
        for k in list(m):
            if k in shadow:
                del m[k]
        m.update(own)
        node.args.defaults = [self.visit(d) for d in node.args.defaults]
        node.decorator_list = [self.visit(d) for d in node.decorator_list]
        self.stack.append(m)
        node.body = [self.visit(s) for s in node.body]
        self.stack.pop()
        return node

    visit_FunctionDef = _func
    visit_AsyncFunctionDef = _func

    def visit_Lambda(self, node):
        params = {a.arg for a in node.args.args}
        self.stack.append({k: v for k, v in self.stack[-1].items() if k not in params})
        node.body = self.visit(node.body)
        self.stack.pop()
        return node

    def _comp(self, node):
        targets = set()
        for g in node.generators:
            targets |= {x.id for x in ast.walk(g.target) if isinstance(x, ast.Name)}
        self.stack.append({k: v for k, v in self.stack[-1].items() if k not in targets})
        self.generic_visit(node)
        self.stack.pop()
        return node

    visit_ListComp = visit_SetComp = visit_DictComp = visit_GeneratorExp = _comp

    def visit_Name(self, node):
        new = self.stack[-1].get(node.id)
        if new:
            node.id = new
            self.renamed += 1
        return node

    def visit_ExceptHandler(self, node):
        if node.name and node.name in self.stack[-1]:
            node.name = self.stack[-1][node.name]
        self.generic_visit(node)
        return node

    def visit_Nonlocal(self, node):
        node.names = [self.stack[-1].get(n, n) for n in node.names]
        return node


def canonicalise(tree, module_key, table=None, stats=None):
    """apply both normalisations in place; returns (dropped inert statements, renamed name occurrences)"""
    dropped = drop_inert(tree)
    table = load_table() if table is None else table
    mod_tab = table.get(module_key, {})
    renamed = 0
    if mod_tab:
        scopes = build_scopes(tree)
        plans = {}
        for sc in scopes:
            sc.node._canon_locals = set(sc.locals)
            want = mod_tab.get(sc.qname)
            if not want:
                continue
            fps = scope_fingerprints(sc)
            plan = {}
            taken = set(sc.locals) | sc.params | sc.nested_names
            groups = {}
            for fp, actual in fps.items():
                groups.setdefault(fp.rsplit("#", 1)[0], []).append((int(fp.rsplit("#", 1)[1]), actual))
            wgroups = {}
            for fp, canon in want.items():
                wgroups.setdefault(fp.rsplit("#", 1)[0], []).append((int(fp.rsplit("#", 1)[1]), canon))
            for base, acts in groups.items():
                wants = [c for _, c in sorted(wgroups.get(base, []))]
                if not wants:
                    continue
                actual_names = [a for _, a in sorted(acts)]
                free_actual = [a for a in actual_names if a not in wants]
                free_canon = [c for c in wants if c not in actual_names]
                for a, c in zip(free_actual, free_canon):
                    plan[a] = c
            # drop renames that would collide with a name that stays
            staying = taken - set(plan)
            plan = {a: c for a, c in plan.items() if c not in staying}
            # and renames mapping two locals onto one name
            seen = {}
            for a, c in list(plan.items()):
                if c in seen:
                    del plan[a]
                else:
                    seen[c] = a
            if plan:
                plans[id(sc.node)] = plan
        if plans:
            ap = _Apply(plans)
            ap.visit(tree)
            renamed = ap.renamed
    ast.fix_missing_locations(tree)
    return dropped, renamed


def make_table(trees):
    """{module_key: {function qname: {fingerprint#ordinal: name}}} from reference trees (inert statements dropped first)"""
    out = {}
    for key, tree in trees.items():
        drop_inert(tree)
        m = {}
        for sc in build_scopes(tree):
            fps = scope_fingerprints(sc)
            if fps:
                m[sc.qname] = fps
        out[key] = m
    return out
