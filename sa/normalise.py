"""E15: equivalence-guarded normalisation of the current tree toward the reviewed reference tree.

The rules of sa/rules were written against the shape of the reviewed tree (a copy of its modules is kept in
sa/reference/, regenerated together with canon_table.json after every reviewed change of /repo).  A maintainer's
behaviour-preserving refactoring changes that shape.  Instead of teaching every rule every idiom, each module is compared
with its reference statement block by statement block before any rule looks at it:

  * identical statements (same `ast.dump` after the canonicalisation of sa/canon.py) are skipped;
  * a differing run of statements is *proved* interchangeable with the reference run by the decision-table engine
    (sa/dtable.py: same effects in the same order under every truth assignment of the conditions, same exits, same final
    value of every name read afterwards; helpers that only one side has are inlined) - and only then replaced by the
    reference run;
  * compound statements with equal headers are descended into, so that one changed branch does not force a proof about
    the whole function;
  * a run that cannot be proved interchangeable is left exactly as it is.

So a behavioural edit is never hidden (the rules see the edited statements), and an edit that is provably not
behavioural never reaches the rules.  Nothing of the repository is executed.  What was normalised and what was left is
reported in the evidence (`normalisation`).
"""
import ast
import copy
import os
from collections import Counter
from difflib import SequenceMatcher

from . import dtable

HERE = os.path.dirname(os.path.abspath(__file__))
REFDIR = os.path.join(HERE, "reference")
_ref_cache = {}


_ref_raw = {}


def reference_tree(rel, module_key):
    """canonicalised AST of the reference copy of a module, or None"""
    if rel in _ref_cache:
        return copy.deepcopy(_ref_cache[rel]) if _ref_cache[rel] is not None else None
    p = os.path.join(REFDIR, rel)
    tree = None
    if os.path.exists(p):
        with open(p, "rb") as f:
            raw = f.read()
        _ref_raw[rel] = raw       # the cache key is derived from exactly the bytes that were parsed (the reference may be regenerated while a check runs)
        src = raw.decode("utf8")
        try:
            tree = ast.parse(src)
            from . import canon
            canon.drop_inert(tree)
        except SyntaxError:
            tree = None
    _ref_cache[rel] = tree
    return copy.deepcopy(tree) if tree is not None else None


def _dump(n):
    return ast.dump(n, include_attributes=False)


def _funcs(tree):
    """qualified name -> (FunctionDef, container list, parent qualified name or None, class name or None)"""
    out = {}

    def walk(node, prefix, parent_q, cls):
        for fld in ("body", "orelse", "finalbody"):
            lst = getattr(node, fld, None)
            if not isinstance(lst, list):
                continue
            for c in lst:
                if isinstance(c, (ast.FunctionDef, ast.AsyncFunctionDef)):
                    q = prefix + c.name
                    out.setdefault(q, (c, lst, parent_q, cls))
                    walk(c, q + ".", q, cls)
                elif isinstance(c, ast.ClassDef):
                    walk(c, prefix + c.name + ".", parent_q, c.name)
                elif isinstance(c, ast.stmt):
                    walk(c, prefix, parent_q, cls)
        if isinstance(node, ast.Try):
            for h in node.handlers:
                walk(h, prefix, parent_q, cls)
    walk(tree, "", None, None)
    return out


def _shape(s):
    if isinstance(s, (ast.If, ast.While)):
        return (type(s).__name__, _dump(s.test))
    if isinstance(s, (ast.For, ast.AsyncFor)):
        return ("For", _dump(s.target), _dump(s.iter))
    if isinstance(s, (ast.With, ast.AsyncWith)):
        return ("With", tuple(_dump(i) for i in s.items))
    if isinstance(s, ast.Try):
        return ("Try", tuple(_dump(h.type) if h.type is not None else "" for h in s.handlers), bool(s.finalbody), bool(s.orelse))
    if isinstance(s, (ast.FunctionDef, ast.AsyncFunctionDef)):
        return ("def", s.name)
    if isinstance(s, ast.ClassDef):
        return ("class", s.name)
    return ("stmt", _dump(s))


class Normaliser:
    def __init__(self, tree, ref, module_key):
        self.tree, self.ref, self.key = tree, ref, module_key
        import time
        self.budget_end = time.monotonic() + 25.0
        self.stats = {"functions_changed": 0, "regions_proved": 0, "regions_left": 0, "left": [], "proved": []}

    # ------------------------------------------------------------------ entry
    def run(self):
        _strip_docs_and_annotations(self.tree)
        _strip_docs_and_annotations(self.ref)
        if _dump(self.tree) == _dump(self.ref):
            return self.stats
        self._inline_new_constants()
        self.mod_consts_f = _module_literals(self.tree)
        self.mod_consts_r = _module_literals(self.ref)
        self._inline_new_class_constants()
        self._pair_renamed_functions()
        ff, rf = _funcs(self.tree), _funcs(self.ref)
        self.ff, self.rf = ff, rf
        self.only_f = {q for q in ff if q not in rf}
        self.only_r = {q for q in rf if q not in ff}
        # helper tables for inlining: callables only one side has
        self.refs_before = {ff[q][0].name: self._references(ff[q][0].name) for q in self.only_f}
        self.helpers_f = self._helper_table(ff, self.only_f)
        self.helpers_r = self._helper_table(rf, self.only_r)
        shared_names = set()
        for q in ff:
            if q in rf:
                shared_names.add(q.rsplit(".", 1)[-1])
                shared_names.add("self." + q.rsplit(".", 1)[-1])
        self.keep = {n for n in shared_names if n not in self.helpers_f and n not in self.helpers_r}
        # top-level functions / methods first, nested ones are reached through their parents' bodies
        for q in sorted(ff):
            if q not in rf:
                continue
            fnode, _, parent_q, _ = ff[q]
            if parent_q is not None:
                continue
            rnode = rf[q][0]
            self._function(q, fnode, rnode)
        self._module_level()
        self._prune_helpers()
        self._restore_reference_helpers()
        ast.fix_missing_locations(self.tree)
        # what is still different from the reference after normalisation (top-level functions / methods)
        ff2 = _funcs(self.tree)
        still = []
        for q in sorted(ff2):
            if q in rf and ff2[q][2] is None and _dump(ff2[q][0]) != _dump(rf[q][0]):
                still.append(q)
        self.stats["functions_still_different"] = still
        self.stats["left"] = [l for l in self.stats["left"] if any(l["q"] == q or l["q"].startswith(q + ".") for q in still)]
        self.stats["regions_left"] = len(self.stats["left"])
        return self.stats

    def _pair_renamed_functions(self):
        """a nested function that exists under another name on the other side (same parent, same arity, the only unmatched one on
        each side) is renamed back, together with its direct references; so are positionally renamed parameters of matched
        nested / private functions that are never called with keywords"""
        ff, rf = _funcs(self.tree), _funcs(self.ref)
        by_parent_f, by_parent_r = {}, {}
        for q, (n, _, parent_q, _) in ff.items():
            if q not in rf and parent_q is not None:
                by_parent_f.setdefault(parent_q, []).append(n)
        for q, (n, _, parent_q, _) in rf.items():
            if q not in ff and parent_q is not None:
                by_parent_r.setdefault(parent_q, []).append(n)
        renamed = []
        for parent_q, fl in by_parent_f.items():
            rl = by_parent_r.get(parent_q, [])
            if len(fl) == 1 and len(rl) == 1 and len(fl[0].args.args) == len(rl[0].args.args) and parent_q in ff and not _dynamic_prefix(fl[0].name):
                old, new = fl[0].name, rl[0].name
                parent = ff[parent_q][0]
                if any(isinstance(x, ast.Name) and x.id == new for x in ast.walk(parent)):
                    continue
                for x in ast.walk(parent):
                    if isinstance(x, ast.Name) and x.id == old:
                        x.id = new
                fl[0].name = new
                renamed.append("%s.%s -> %s" % (parent_q, old, new))
        # parameters
        ff = _funcs(self.tree)
        for q, (fn, _, parent_q, cls) in ff.items():
            if q not in rf:
                continue
            rn = rf[q][0]
            fa = [a.arg for a in fn.args.posonlyargs + fn.args.args]
            ra = [a.arg for a in rn.args.posonlyargs + rn.args.args]
            if fa == ra or len(fa) != len(ra) or fn.args.vararg or fn.args.kwarg or fn.args.kwonlyargs:
                continue
            if parent_q is None and not fn.name.startswith("_"):
                continue        # public functions / methods: parameter names are interface
            # never called with keywords?
            kw = False
            for x in ast.walk(self.tree):
                if isinstance(x, ast.Call) and x.keywords and ((isinstance(x.func, ast.Name) and x.func.id == fn.name) or (isinstance(x.func, ast.Attribute) and x.func.attr == fn.name)):
                    kw = True
            if kw:
                continue
            mapping = {a: b for a, b in zip(fa, ra) if a != b}
            names_in = {x.id for x in ast.walk(fn) if isinstance(x, ast.Name)} | set(fa)
            if any(b in names_in and b not in mapping for b in mapping.values()):
                continue
            for x in ast.walk(fn):
                if isinstance(x, ast.Name) and x.id in mapping:
                    x.id = mapping[x.id]
                elif isinstance(x, ast.arg) and x.arg in mapping:
                    x.arg = mapping[x.arg]
            renamed.append("%s(%s)" % (q, ", ".join("%s->%s" % kv for kv in mapping.items())))
        if renamed:
            self.stats["renamed_back"] = renamed

    # ------------------------------------------------------------------ helpers only one side has
    def _helper_table(self, funcs, only):
        names = Counter()
        for q in only:
            names[q.rsplit(".", 1)[-1]] += 1
        tab = {}
        for q in only:
            node, _, parent_q, cls = funcs[q]
            nm = node.name
            if names[nm] != 1:
                continue
            if parent_q is None and cls is None:
                tab[nm] = node
            elif parent_q is None and cls is not None:
                tab["self." + nm] = node
            else:
                tab[nm] = node       # nested helper: called by plain name from its siblings / parent
        return tab

    def _inline_new_constants(self):
        """module-level names bound once to an immutable literal that the reference does not have are substituted"""
        def consts(tree):
            out, counts = {}, Counter()
            for s in tree.body:
                if isinstance(s, ast.Assign) and len(s.targets) == 1 and isinstance(s.targets[0], ast.Name):
                    counts[s.targets[0].id] += 1
                    if _immutable_literal(s.value) or _const_collection(s.value) or _compiled_regex(s.value):
                        out[s.targets[0].id] = s.value
            return {k: v for k, v in out.items() if counts[k] == 1}
        cf, cr = consts(self.tree), consts(self.ref)
        new = {k: v for k, v in cf.items() if k not in cr}
        if not new:
            return
        # collections only when every use is a membership test or an iteration
        for k, v in list(new.items()):
            if _const_collection(v) and not self._only_membership(k):
                del new[k]
            elif _compiled_regex(v) and not self._only_regex_methods(k):
                del new[k]
        # not rebound anywhere (global statement / augmented assignment / del)
        for n in ast.walk(self.tree):
            if isinstance(n, ast.Global):
                for g in n.names:
                    new.pop(g, None)
        # constants may refer to each other
        for _ in range(3):
            for k, v in list(new.items()):
                new[k] = _SubstConst(new, set()).visit(copy.deepcopy(v))
        _SubstConst(new, set()).visit_scopes(self.tree)
        self.tree.body = [s for s in self.tree.body if not (isinstance(s, ast.Assign) and len(s.targets) == 1 and isinstance(s.targets[0], ast.Name)
                                                            and s.targets[0].id in new)]
        self.stats["constants_inlined"] = sorted(new)

    def _inline_new_class_constants(self):
        """class attributes bound to an immutable literal that the reviewed class does not have: `self.NAME` / `Class.NAME` become the literal"""
        rclasses = {c.name: c for c in ast.walk(self.ref) if isinstance(c, ast.ClassDef)}
        done = []
        for c in [x for x in ast.walk(self.tree) if isinstance(x, ast.ClassDef)]:
            rc = rclasses.get(c.name)
            if rc is None:
                continue
            rnames = {t.id for st in rc.body if isinstance(st, ast.Assign) for t in st.targets if isinstance(t, ast.Name)}
            new = {}
            for st in c.body:
                if isinstance(st, ast.Assign) and len(st.targets) == 1 and isinstance(st.targets[0], ast.Name) and st.targets[0].id not in rnames and _immutable_literal(st.value):
                    new[st.targets[0].id] = st.value
            if not new:
                continue
            # never assigned through an instance / the class anywhere in the module
            for n in ast.walk(self.tree):
                if isinstance(n, ast.Attribute) and isinstance(n.ctx, (ast.Store, ast.Del)) and n.attr in new:
                    new.pop(n.attr, None)
            if not new:
                continue

            class T(ast.NodeTransformer):
                def visit_Attribute(self, node):
                    node = self.generic_visit(node)
                    if isinstance(node.ctx, ast.Load) and node.attr in new and isinstance(node.value, ast.Name) and node.value.id in ("self", "cls", c.name):
                        return copy.deepcopy(new[node.attr])
                    return node
            T().visit(self.tree)
            c.body = [st for st in c.body if not (isinstance(st, ast.Assign) and len(st.targets) == 1 and isinstance(st.targets[0], ast.Name) and st.targets[0].id in new)] or [ast.Pass()]
            done.extend("%s.%s" % (c.name, k) for k in new)
        if done:
            self.stats["class_constants_inlined"] = sorted(done)

    def _only_regex_methods(self, name):
        parents = {}
        for n in ast.walk(self.tree):
            for c in ast.iter_child_nodes(n):
                parents[id(c)] = n
        for n in ast.walk(self.tree):
            if isinstance(n, ast.Name) and n.id == name and isinstance(n.ctx, ast.Load):
                par = parents.get(id(n))
                if not (isinstance(par, ast.Attribute) and par.value is n and par.attr in dtable.REGEX_METHODS and isinstance(parents.get(id(par)), ast.Call)):
                    return False
        return True

    def _only_membership(self, name):
        parents = {}
        for n in ast.walk(self.tree):
            for c in ast.iter_child_nodes(n):
                parents[id(c)] = n
        for n in ast.walk(self.tree):
            if isinstance(n, ast.Name) and n.id == name and isinstance(n.ctx, ast.Load):
                par = parents.get(id(n))
                ok = (isinstance(par, ast.Compare) and len(par.ops) == 1 and isinstance(par.ops[0], (ast.In, ast.NotIn)) and par.comparators[0] is n) or \
                     (isinstance(par, (ast.For, ast.comprehension)) and par.iter is n) or \
                     (isinstance(par, ast.Attribute) and par.value is n and par.attr in ("get", "keys", "values", "items") and isinstance(parents.get(id(par)), ast.Call)) or \
                     (isinstance(par, ast.Subscript) and par.value is n and isinstance(par.ctx, ast.Load))
                if not ok:
                    return False
        return True

    # ------------------------------------------------------------------ functions and blocks
    def _closure_env(self, outer, fn):
        """definitions of the enclosing functions that a nested function may rely on: names bound exactly once, at the top level of the
        enclosing function, to a side-effect-free expression over its parameters and other such names; shadowed names are dropped"""
        env = {}
        for o in (outer or []):
            env.update(_stable_definitions(o, env))
        if env:
            own = {a.arg for a in fn.args.posonlyargs + fn.args.args + fn.args.kwonlyargs}
            for n in ast.walk(fn):
                if isinstance(n, ast.Name) and isinstance(n.ctx, (ast.Store, ast.Del)):
                    own.add(n.id)
            for k in own:
                env.pop(k, None)
        return env

    def _function(self, q, fnode, rnode, outer_f=None, outer_r=None):
        if _dump(fnode) == _dump(rnode):
            return
        self.stats["functions_changed"] += 1
        if _dump(fnode.args) != _dump(rnode.args) or [_dump(d) for d in fnode.decorator_list] != [_dump(d) for d in rnode.decorator_list]:
            if not self._args_equivalent(fnode, rnode):
                self._left(q, "signature differs", fnode)
                return
            fnode.args = copy.deepcopy(rnode.args)
        ef, er = self._closure_env(outer_f, fnode), self._closure_env(outer_r, rnode)
        for env, consts, fn in ((ef, self.mod_consts_f, fnode), (er, self.mod_consts_r, rnode)):
            bound = {n.id for n in ast.walk(fn) if isinstance(n, ast.Name) and isinstance(n.ctx, (ast.Store, ast.Del))} | {a.arg for a in fn.args.posonlyargs + fn.args.args + fn.args.kwonlyargs}
            for k, v in consts.items():
                if k not in bound:
                    env.setdefault(k, v)
        ctx = {"q": q, "fnode": fnode, "rnode": rnode, "env_f": ef, "env_r": er,
               "outer_f": outer_f, "outer_r": outer_r}
        self._block(fnode.body, rnode.body, ctx, in_loop=False, tail="return")

    def _args_equivalent(self, fnode, rnode):
        """type annotations and nothing else differ"""
        def strip(a):
            a = copy.deepcopy(a)
            for x in a.posonlyargs + a.args + a.kwonlyargs + ([a.vararg] if a.vararg else []) + ([a.kwarg] if a.kwarg else []):
                x.annotation = None
            return _dump(a)
        return strip(fnode.args) == strip(rnode.args) and [_dump(d) for d in fnode.decorator_list] == [_dump(d) for d in rnode.decorator_list]

    def _block(self, fs, rs, ctx, in_loop, tail=None):
        """normalise the statement list fs (in place) toward rs; `tail`: what running off the end of this block means"""
        self._tail = getattr(self, "_tail", {})
        self._tail[id(fs)] = tail
        if [_dump(s) for s in fs] == [_dump(s) for s in rs]:
            return True
        fd, rd = [_dump(s) for s in fs], [_dump(s) for s in rs]
        ops = SequenceMatcher(None, fd, rd, autojunk=False).get_opcodes()
        regions = [(i1, i2, j1, j2) for tag, i1, i2, j1, j2 in ops if tag != "equal"]
        all_ok = True
        # process from the end so that indices stay valid while lists are spliced
        results = []
        for (i1, i2, j1, j2) in reversed(regions):
            ok = self._region(fs, i1, i2, rs, j1, j2, ctx, in_loop)
            results.append(ok)
            all_ok = all_ok and ok
        if not all_ok:
            # regions may depend on each other (a temporary introduced in one and used in a later one): grow the span
            for _ in range(6):
                fd2, rd2 = [_dump(s) for s in fs], [_dump(s) for s in rs]
                if fd2 == rd2:
                    return True
                regs = [(i1, i2, j1, j2) for tag, i1, i2, j1, j2 in SequenceMatcher(None, fd2, rd2, autojunk=False).get_opcodes() if tag != "equal"]
                done = False
                for a in range(len(regs)):
                    for b in range(a + 1, len(regs)):
                        if self._prove(fs, regs[a][0], regs[b][1], rs, regs[a][2], regs[b][3], ctx, in_loop, quiet=True):
                            done = True
                            break
                    if done:
                        break
                if not done:
                    break
            fd2, rd2 = [_dump(s) for s in fs], [_dump(s) for s in rs]
            if fd2 == rd2:
                return True
            pre = 0
            while pre < min(len(fd2), len(rd2)) and fd2[pre] == rd2[pre]:
                pre += 1
            suf = 0
            while suf < min(len(fd2), len(rd2)) - pre and fd2[-1 - suf] == rd2[-1 - suf]:
                suf += 1
            if self._prove(fs, pre, len(fs) - suf, rs, pre, len(rs) - suf, ctx, in_loop, quiet=True):
                return True
            # an early exit on one side may rely on the statements that follow the differing run: take the run to the end of the block
            if suf and self._prove(fs, pre, len(fs), rs, pre, len(rs), ctx, in_loop, quiet=True):
                return True
        return all_ok

    def _region(self, fs, i1, i2, rs, j1, j2, ctx, in_loop):
        fseg, rseg = fs[i1:i2], rs[j1:j2]
        # one compound statement on each side with the same header: descend
        if len(fseg) == 1 and len(rseg) == 1 and _shape(fseg[0]) == _shape(rseg[0]) and _shape(fseg[0])[0] != "stmt":
            if self._descend(fseg[0], rseg[0], ctx, in_loop, self._tail.get(id(fs)), i2 >= len(fs) and j2 >= len(rs)):
                return True
            if _shape(fseg[0])[0] in ("def", "class"):
                return False
            return self._prove(fs, i1, i2, rs, j1, j2, ctx, in_loop, quiet=True)
        # several statements: pair the compound statements with equal headers, prove the runs between them
        if len(fseg) > 1 or len(rseg) > 1:
            fk, rk = [_shape(s) for s in fseg], [_shape(s) for s in rseg]
            ops = SequenceMatcher(None, fk, rk, autojunk=False).get_opcodes()
            if any(tag == "equal" and any(fk[k][0] != "stmt" for k in range(a1, a2)) for tag, a1, a2, b1, b2 in ops):
                ok = True
                n_before = len(fs)
                for tag, a1, a2, b1, b2 in reversed(ops):
                    if tag == "equal":
                        for k in range(a2 - a1):
                            f1, r1 = fs[i1 + a1 + k], rs[j1 + b1 + k]
                            if _dump(f1) != _dump(r1) and _shape(f1)[0] != "stmt":
                                last = (i1 + a1 + k == len(fs) - 1) and (j1 + b1 + k == len(rs) - 1)
                                ok = self._descend(f1, r1, ctx, in_loop, self._tail.get(id(fs)), last) and ok
                    else:
                        ok = self._prove(fs, i1 + a1, i1 + a2, rs, j1 + b1, j1 + b2, ctx, in_loop, quiet=True) and ok
                if ok:
                    return True
                i2 = i2 + (len(fs) - n_before)
        return self._prove(fs, i1, i2, rs, j1, j2, ctx, in_loop)

    def _descend(self, f, r, ctx, in_loop, parent_tail=None, is_last=False):
        if isinstance(f, (ast.FunctionDef, ast.AsyncFunctionDef)):
            q = ctx["q"] + "." + f.name
            before = self.stats["regions_left"]
            self._function(q, f, r, (ctx.get("outer_f") or []) + [ctx["fnode"]], (ctx.get("outer_r") or []) + [ctx["rnode"]])
            return self.stats["regions_left"] == before
        if isinstance(f, ast.ClassDef):
            return self._block(f.body, r.body, ctx, in_loop)
        ok = True
        loop = in_loop or isinstance(f, (ast.For, ast.AsyncFor, ast.While))
        # falling off a branch continues after the compound statement: it has the enclosing block's meaning only when the
        # compound statement is the last one of that block
        inherit = parent_tail if is_last else None
        if isinstance(f, ast.Try):
            ok = self._block(f.body, r.body, ctx, in_loop, None if (f.orelse or f.finalbody) else inherit) and ok
            for hf, hr in zip(f.handlers, r.handlers):
                if hf.name != hr.name:
                    self._left(ctx["q"], "handler variable renamed", hf)
                    ok = False
                    continue
                ok = self._block(hf.body, hr.body, ctx, in_loop, None if f.finalbody else inherit) and ok
            ok = self._block(f.orelse, r.orelse, ctx, in_loop, None if f.finalbody else inherit) and ok
            ok = self._block(f.finalbody, r.finalbody, ctx, in_loop, inherit) and ok
            return ok
        if isinstance(f, (ast.For, ast.AsyncFor, ast.While)):
            ok = self._block(f.body, r.body, ctx, True, "continue") and ok
            ok = self._block(f.orelse, r.orelse, ctx, in_loop, inherit) and ok
            return ok
        ok = self._block(f.body, r.body, ctx, loop, inherit) and ok
        if hasattr(f, "orelse"):
            ok = self._block(f.orelse, r.orelse, ctx, in_loop, inherit) and ok
        return ok

    def _prove(self, fs, i1, i2, rs, j1, j2, ctx, in_loop, quiet=False):
        fseg, rseg = fs[i1:i2], rs[j1:j2]
        if [_dump(s) for s in fseg] == [_dump(s) for s in rseg]:
            return True
        fdefs_all = {n.name: n for s in fseg for n in ast.walk(s) if isinstance(n, (ast.FunctionDef, ast.AsyncFunctionDef))}
        rdefs_all = {n.name: n for s in rseg for n in ast.walk(s) if isinstance(n, (ast.FunctionDef, ast.AsyncFunctionDef))}
        if any(isinstance(n, ast.ClassDef) for s in fseg + rseg for n in ast.walk(s)):
            if not quiet:
                self._left(ctx["q"], "class definition inside the run", fseg[0] if fseg else None, block=fs)
            return False
        if fdefs_all or rdefs_all:
            # a nested definition binds a closure: definitions present on both sides must be (made) equal; the runs are then compared
            # without them (a definition only one side has is a helper and is inlined where it is called)
            ok = True
            for nm, fd in fdefs_all.items():
                if nm in rdefs_all and _dump(fd) != _dump(rdefs_all[nm]):
                    before = self.stats["regions_left"]
                    self._function(ctx["q"] + "." + nm, fd, rdefs_all[nm], (ctx.get("outer_f") or []) + [ctx["fnode"]], (ctx.get("outer_r") or []) + [ctx["rnode"]])
                    ok = ok and _dump(fd) == _dump(rdefs_all[nm])
            if not ok:
                if not quiet:
                    self._left(ctx["q"], "nested definitions differ", fseg[0] if fseg else None, block=fs)
                return False
            # a definition that only the reference has is never introduced by substitution: a function the current tree lacks is a
            # difference the rules must see (it is put back only when normalised code calls it, see _restore_reference_helpers)
            only_r = set(rdefs_all) - set(fdefs_all)
            if any(isinstance(n, (ast.FunctionDef, ast.AsyncFunctionDef)) and n.name in only_r and not any(n is s for s in rseg) for s in rseg for n in ast.walk(s)):
                if not quiet:
                    self._left(ctx["q"], "a function definition that only the reviewed version has is nested in the run", fseg[0] if fseg else None, block=fs)
                return False
            if self._prove_stmts(fseg, rseg, fs, i1, i2, ctx, in_loop, quiet):
                extra = [n for n in fdefs_all.values() if n.name not in rdefs_all and any(n is s for s in fseg)]
                fs[i1:i2] = extra + [copy.deepcopy(s) for s in rseg if not (isinstance(s, (ast.FunctionDef, ast.AsyncFunctionDef)) and s.name in only_r)]
                return True
            return False
        if self._prove_stmts(fseg, rseg, fs, i1, i2, ctx, in_loop, quiet):
            fs[i1:i2] = [copy.deepcopy(s) for s in rseg]
            return True
        return False

    def _prove_stmts(self, fseg, rseg, fs, i1, i2, ctx, in_loop, quiet):
        memo_key = (tuple(_dump(x) for x in fseg), tuple(_dump(x) for x in rseg), i2 >= len(fs))
        self._memo = getattr(self, "_memo", {})
        if memo_key in self._memo:
            why = self._memo[memo_key]
            if why is None:
                return True
            if not quiet:
                self._left(ctx["q"], why, fseg[0] if fseg else (rseg[0] if rseg else None), block=fs)
            return False
        live = self._live_after(fseg, rseg, ctx, in_loop)
        # the run reaches the end of its block on this side (and then, by alignment, on the other): falling off it has the block's meaning
        fall = self._tail.get(id(fs)) if i2 >= len(fs) else None
        why = None
        import time
        if time.monotonic() > self.budget_end:
            why = "outside the fragment: time budget of the module exhausted"
            if not quiet:
                self._left(ctx["q"], why, fseg[0] if fseg else (rseg[0] if rseg else None), block=fs)
            return False
        dtable.DEADLINE[0] = min(time.monotonic() + 4.0, self.budget_end)
        try:
            eq, diffs = dtable.regions_equal(fseg, rseg, live, helpers_f=self._local_helpers(ctx, "f"), helpers_r=self._local_helpers(ctx, "r"), keep=self.keep,
                                             env_f=ctx.get("env_f"), env_r=ctx.get("env_r"), fall=fall)
            if not eq:
                why = diffs[0] if diffs else "not equivalent"
        except dtable.TooComplex as e:
            why = "outside the fragment: %s" % e
        except RecursionError:
            why = "outside the fragment: recursion"
        finally:
            dtable.DEADLINE[0] = None
        self._memo[memo_key] = why
        if why is None:
            self.stats["regions_proved"] += 1
            if len(self.stats["proved"]) < 40:
                self.stats["proved"].append({"function": ctx["q"], "line": getattr(fseg[0], "lineno", 0) if fseg else 0, "statements": len(fseg), "reference_statements": len(rseg)})
            return True
        if not quiet:
            self._left(ctx["q"], why, fseg[0] if fseg else (rseg[0] if rseg else None), block=fs)
        return False

    def _left(self, q, why, node, block=None):
        self.stats["regions_left"] += 1
        if len(self.stats["left"]) < 60:
            self.stats["left"].append({"q": q, "line": getattr(node, "lineno", 0) if node is not None else 0, "why": " ".join(str(why).split())[:3000], "_block": id(block) if block is not None else 0})

    # ------------------------------------------------------------------ liveness and local helpers
    def _live_after(self, fseg, rseg, ctx, in_loop):
        """names assigned in either run whose value may still be read after it (live-variable analysis on the statement CFG of the
        enclosing function, both versions; names read by nested functions or declared nonlocal/global are always live)"""
        assigned = set()
        for s in fseg + rseg:
            for n in ast.walk(s):
                if isinstance(n, ast.Name) and isinstance(n.ctx, (ast.Store, ast.Del)):
                    assigned.add(n.id)
                elif isinstance(n, ast.ExceptHandler) and n.name:
                    assigned.add(n.name)
        live = set()
        for side, seg in (("fnode", fseg), ("rnode", rseg)):
            skip = self.helpers_f if side == "fnode" else self.helpers_r
            try:
                live |= _live_out(ctx[side], seg, skip) & assigned
            except Exception:
                # fall back to the conservative answer: anything read anywhere else in the function
                total = Counter(n.id for n in _walk_skipping(ctx[side], skip) if isinstance(n, ast.Name) and isinstance(n.ctx, ast.Load))
                inside = Counter(n.id for s in seg for n in ast.walk(s) if isinstance(n, ast.Name) and isinstance(n.ctx, ast.Load))
                live |= {nm for nm in assigned if total[nm] - inside[nm] > 0 or in_loop}
        return live

    def _local_helpers(self, ctx, side):
        tab = dict(self.helpers_f if side == "f" else self.helpers_r)
        return tab

    # ------------------------------------------------------------------ module level, pruning
    def _module_level(self):
        """class bodies: methods were handled; other class-level statements and module-level statements are compared as they are"""
        for q in sorted(self.ff):
            if q in self.rf:
                fnode, _, parent_q, _ = self.ff[q]
                # nested functions not reached through a differing parent block are identical already
        return

    def _references(self, name):
        n = 0
        for x in ast.walk(self.tree):
            if isinstance(x, ast.Name) and x.id == name and isinstance(x.ctx, ast.Load):
                n += 1
            elif isinstance(x, ast.Attribute) and x.attr == name:
                n += 1
        return n

    def _prune_helpers(self):
        """functions only this side has and that nothing refers to any more (their calls were normalised away) are removed"""
        ff = _funcs(self.tree)
        removed = []
        for q in sorted(self.only_f, key=len, reverse=True):
            if q not in ff:
                continue
            node, container, _, _ = ff[q]
            # only helpers whose calls were normalised away: a new function nobody in the module ever referred to (a public method, a
            # callback looked up by name) is not ours to remove
            if self.refs_before.get(node.name, 0) > 0 and self._references(node.name) == 0 and not node.name.startswith("__") and not _dynamic_prefix(node.name):
                try:
                    container.remove(node)
                    removed.append(q)
                except ValueError:
                    pass
        if removed:
            self.stats["helpers_removed"] = removed

    def _restore_reference_helpers(self):
        """a reference function that this side inlined away and that normalised code now calls again is put back"""
        ff = _funcs(self.tree)
        restored = []
        for q in sorted(self.only_r):
            rnode, _, parent_q, cls = self.rf[q]
            if self._references(rnode.name) == 0:
                continue
            if parent_q is None:
                if cls is None:
                    self.tree.body.append(copy.deepcopy(rnode))
                    restored.append(q)
                else:
                    for c in ast.walk(self.tree):
                        if isinstance(c, ast.ClassDef) and c.name == cls:
                            c.body.append(copy.deepcopy(rnode))
                            restored.append(q)
                            break
            elif parent_q in ff:
                body = ff[parent_q][0].body
                k = 1 if body and isinstance(body[0], ast.Expr) and isinstance(body[0].value, ast.Constant) else 0
                body.insert(k, copy.deepcopy(rnode))
                restored.append(q)
        if restored:
            self.stats["helpers_restored"] = restored


def _pure_expr(e):
    for n in ast.walk(e):
        if isinstance(n, ast.Call) and not dtable.is_pure_call(n):
            return False
        if isinstance(n, (ast.Dict, ast.List, ast.Set, ast.ListComp, ast.DictComp, ast.SetComp, ast.GeneratorExp, ast.Lambda, ast.Await, ast.Yield, ast.YieldFrom, ast.NamedExpr)):
            return False
    return True


def _stable_definitions(fn, known):
    counts = Counter()
    for n in ast.walk(fn):
        if isinstance(n, ast.Name) and isinstance(n.ctx, (ast.Store, ast.Del)):
            counts[n.id] += 1
        elif isinstance(n, (ast.Nonlocal, ast.Global)):
            for nm in n.names:
                counts[nm] += 2
    params = {a.arg for a in fn.args.posonlyargs + fn.args.args + fn.args.kwonlyargs}
    out = {}
    for s in fn.body:
        if isinstance(s, ast.Assign) and len(s.targets) == 1 and isinstance(s.targets[0], ast.Name) and counts[s.targets[0].id] == 1 and s.targets[0].id not in params \
                and _pure_expr(s.value):
            free = {n.id for n in ast.walk(s.value) if isinstance(n, ast.Name)}
            ok = all((nm in params and counts[nm] == 0) or nm in out or nm in known or (counts[nm] == 0 and nm not in params) for nm in free)
            if ok:
                env = dict(known)
                env.update(out)
                v = dtable.norm_expr(s.value, env)
                if any(isinstance(x, (ast.Subscript, ast.Attribute, ast.Call)) for x in ast.walk(v)):
                    # a read of something mutable, taken when the enclosing function started: pinned to that moment
                    v = ast.Call(ast.Name("_at", ast.Load()), [ast.Constant("entry"), v], [])
                out[s.targets[0].id] = v
    return out


def _strip_docs_and_annotations(tree):
    """docstrings, parameter / return / variable annotations and bare annotations carry no behaviour"""
    for n in ast.walk(tree):
        if isinstance(n, (ast.FunctionDef, ast.AsyncFunctionDef)):
            n.returns = None
            a = n.args
            for x in a.posonlyargs + a.args + a.kwonlyargs + ([a.vararg] if a.vararg else []) + ([a.kwarg] if a.kwarg else []):
                x.annotation = None
        for fld in ("body", "orelse", "finalbody"):
            lst = getattr(n, fld, None)
            if isinstance(lst, list) and lst and isinstance(lst[0], ast.stmt):
                new = []
                for st in lst:
                    if isinstance(st, ast.Expr) and isinstance(st.value, ast.Constant) and isinstance(st.value.value, str):
                        continue
                    if isinstance(st, ast.AnnAssign):
                        if st.value is None:
                            continue
                        st = ast.copy_location(ast.Assign([st.target], st.value), st)
                    new.append(st)
                if not new and fld == "body":
                    new = [ast.copy_location(ast.Pass(), lst[0])]
                setattr(n, fld, new)
        if isinstance(n, ast.ExceptHandler):
            n.body = [st for st in n.body if not (isinstance(st, ast.Expr) and isinstance(st.value, ast.Constant) and isinstance(st.value.value, str))] or [ast.Pass()]


def _own_uses_defs(node):
    """(names read, names written) by the part of a CFG node that executes at that node (headers only for compound statements)"""
    a = node.ast
    k = node.kind
    if a is None:
        return set(), set()
    if k == "loop":
        roots_u, roots_d = [a.iter], [a.target]
    elif k == "test":
        roots_u, roots_d = [a.test], []
    elif k == "with":
        roots_u = [i.context_expr for i in a.items]
        roots_d = [i.optional_vars for i in a.items if i.optional_vars is not None]
    elif k == "except":
        roots_u = [a.type] if a.type is not None else []
        roots_d = []
    else:
        roots_u, roots_d = [a], []
    uses, defs = set(), set()

    def rec(n, store_root=False):
        if isinstance(n, (ast.FunctionDef, ast.AsyncFunctionDef, ast.ClassDef)):
            defs.add(n.name)
            return
        if isinstance(n, ast.Lambda):
            return
        if isinstance(n, ast.Name):
            if isinstance(n.ctx, ast.Load):
                uses.add(n.id)
            else:
                defs.add(n.id)
        if isinstance(n, ast.AugAssign) and isinstance(n.target, ast.Name):
            uses.add(n.target.id)
        for c in ast.iter_child_nodes(n):
            rec(c)
    for r in roots_u:
        rec(r)
    for r in roots_d:
        for n in ast.walk(r):
            if isinstance(n, ast.Name):
                defs.add(n.id)
            # subscripts / attributes in a target read their base
        rec(r)
    if k == "except" and a.name:
        defs.add(a.name)
    return uses, defs


_live_cache = {}


def _liveness(func, skip_helpers=None):
    """live-in / live-out sets per CFG node of `func` (iterative backward dataflow)"""
    from .cfg import CFG, OTHER

    def may_raise(n):
        for x in ast.walk(n):
            if isinstance(x, (ast.Call, ast.Subscript, ast.Attribute, ast.BinOp, ast.Await)):
                return {OTHER}
        return set()
    g = CFG(func, may_raise)
    always = set()
    skip_ids = set(id(h) for h in (skip_helpers or {}).values())
    for n in ast.walk(func):
        if n is not func and isinstance(n, (ast.FunctionDef, ast.AsyncFunctionDef, ast.Lambda)):
            if id(n) in skip_ids:
                continue
            for x in ast.walk(n):
                if isinstance(x, ast.Name) and isinstance(x.ctx, ast.Load):
                    always.add(x.id)
        elif isinstance(n, (ast.Nonlocal, ast.Global)):
            always.update(n.names)
    ud = {nid: _own_uses_defs(node) for nid, node in g.nodes.items()}
    live_in = {nid: set() for nid in g.nodes}
    live_out = {nid: set() for nid in g.nodes}
    changed = True
    order = sorted(g.nodes, reverse=True)
    while changed:
        changed = False
        for nid in order:
            out_n, out_x = set(), set()
            for m, l in g.succ[nid]:
                if isinstance(l, tuple) and l[0] == "exc":
                    out_x |= live_in[m]
                else:
                    out_n |= live_in[m]
            out = out_n | out_x
            u, d = ud[nid]
            # a statement that raises has not bound its targets: definitions kill on the normal edges only
            inn = u | (out_n - d) | out_x
            if out != live_out[nid] or inn != live_in[nid]:
                live_out[nid], live_in[nid] = out, inn
                changed = True
    return g, live_in, live_out, always


def _live_out(func, seg, skip_helpers):
    """names live after the statement run `seg` of function `func`"""
    if not seg:
        return set()
    key = id(func)
    ent = _live_cache.get(key)
    stamp = sum(1 for _ in ast.walk(func))
    if ent is None or ent[0] != stamp or ent[1] is not func:
        ent = (stamp, func) + _liveness(func, skip_helpers)
        _live_cache[key] = ent
    _, _, g, live_in, live_out, always = ent
    inside = set()
    for s in seg:
        for n in ast.walk(s):
            nid = g.stmt_node.get(id(n))
            if nid is not None:
                inside.add(nid)
            if isinstance(n, ast.ExceptHandler):
                for hid, node in g.nodes.items():
                    if node.ast is n:
                        inside.add(hid)
    if not inside:
        raise ValueError("region not in CFG")
    out = set(always)
    for nid in inside:
        for m, _ in g.succ[nid]:
            if m not in inside:
                out |= live_in[m]
    return out


def _walk_skipping(root, helpers):
    """ast.walk that does not enter the definitions of helpers only one side has (they are inlined where they are called)"""
    nodes = set(id(h) for h in helpers.values())
    stack = [root]
    while stack:
        n = stack.pop()
        if id(n) in nodes and n is not root:
            continue
        yield n
        stack.extend(ast.iter_child_nodes(n))


def _dynamic_prefix(name):
    return name.startswith(("asl_state_", "asl_choice_", "asl_service_", "aws_api_", "asl_intrinsic_"))


def _immutable_literal(v):
    if isinstance(v, ast.Constant):
        return True
    if isinstance(v, ast.Tuple):
        return all(_immutable_literal(e) for e in v.elts)
    if isinstance(v, ast.UnaryOp) and isinstance(v.op, ast.USub):
        return _immutable_literal(v.operand)
    if isinstance(v, ast.BinOp) and isinstance(v.op, (ast.Add, ast.Mult, ast.Sub)):
        return _immutable_literal(v.left) and _immutable_literal(v.right)
    if isinstance(v, ast.Name):
        return False
    return False


def _module_literals(tree):
    """module-level names bound exactly once to an immutable literal"""
    out, counts = {}, Counter()
    for s in tree.body:
        if isinstance(s, ast.Assign) and len(s.targets) == 1 and isinstance(s.targets[0], ast.Name):
            counts[s.targets[0].id] += 1
            if _immutable_literal(s.value):
                out[s.targets[0].id] = s.value
    for n in ast.walk(tree):
        if isinstance(n, ast.Global):
            for g in n.names:
                counts[g] += 1
    return {k: v for k, v in out.items() if counts[k] == 1}


def _compiled_regex(v):
    return isinstance(v, ast.Call) and dtable._dotted(v.func) == "re.compile" and v.args and all(isinstance(a, ast.Constant) or dtable._dotted(a) for a in v.args) and not v.keywords


def _const_collection(v, top=True):
    if isinstance(v, ast.Constant):
        return not top
    if isinstance(v, (ast.Set, ast.List, ast.Tuple)):
        return bool(v.elts) and all(_const_collection(e, False) for e in v.elts)
    if isinstance(v, ast.Dict):
        return bool(v.keys) and all(k is not None and isinstance(k, ast.Constant) for k in v.keys) and all(_const_collection(e, False) for e in v.values)
    if isinstance(v, ast.Call) and isinstance(v.func, ast.Name) and v.func.id in ("frozenset", "set", "tuple") and len(v.args) == 1 and not v.keywords:
        return _const_collection(v.args[0], top)
    return False


class _SubstConst(ast.NodeTransformer):
    def __init__(self, env, shadow):
        self.env, self.shadow = env, shadow

    def visit_Name(self, node):
        if isinstance(node.ctx, ast.Load) and node.id in self.env and node.id not in self.shadow:
            return copy.deepcopy(self.env[node.id])
        return node

    def visit_scopes(self, tree):
        def rec(node, shadow):
            for fld, val in ast.iter_fields(node):
                vals = val if isinstance(val, list) else [val]
                for i, c in enumerate(vals):
                    if not isinstance(c, ast.AST):
                        continue
                    if isinstance(c, (ast.FunctionDef, ast.AsyncFunctionDef, ast.Lambda)):
                        local = set(shadow)
                        a = c.args
                        for x in a.posonlyargs + a.args + a.kwonlyargs + ([a.vararg] if a.vararg else []) + ([a.kwarg] if a.kwarg else []):
                            local.add(x.arg)
                        if not isinstance(c, ast.Lambda):
                            for n in ast.walk(c):
                                if isinstance(n, ast.Name) and isinstance(n.ctx, ast.Store):
                                    local.add(n.id)
                        rec(c, local)
                    elif isinstance(c, ast.Name):
                        if isinstance(c.ctx, ast.Load) and c.id in self.env and c.id not in shadow:
                            new = copy.deepcopy(self.env[c.id])
                            if isinstance(val, list):
                                val[i] = new
                            else:
                                setattr(node, fld, new)
                    else:
                        rec(c, shadow)
        rec(tree, set())


_code_hash = None


def _cache_key(rel, src_digest):
    global _code_hash
    import hashlib
    if _code_hash is None:
        h = hashlib.sha256()
        for fn in ("normalise.py", "dtable.py", "canon.py", "canon_table.json", "cfg.py"):
            with open(os.path.join(HERE, fn), "rb") as f:
                h.update(f.read())
        _code_hash = h.hexdigest()
    h = hashlib.sha256()
    h.update(_code_hash.encode())
    h.update(src_digest.encode())
    if rel not in _ref_raw:
        reference_tree(rel, None)
    if _ref_raw.get(rel) is not None:
        h.update(_ref_raw[rel])
    return h.hexdigest()[:32]


def new_module_constants(tree, ref):
    """module-level names bound once to an immutable literal / table of constants / compiled regex that the reviewed copy does not have"""
    def consts(t):
        out, counts = {}, Counter()
        for s in t.body:
            if isinstance(s, ast.Assign) and len(s.targets) == 1 and isinstance(s.targets[0], ast.Name):
                counts[s.targets[0].id] += 1
                if _immutable_literal(s.value) or _const_collection(s.value) or _compiled_regex(s.value):
                    out[s.targets[0].id] = s.value
        return {k: v for k, v in out.items() if counts[k] == 1}
    cf, cr = consts(tree), consts(ref)
    names_r = {t.id for s in ref.body if isinstance(s, ast.Assign) for t in s.targets if isinstance(t, ast.Name)}
    return {k: v for k, v in cf.items() if k not in cr and k not in names_r and _immutable_literal(v)}


def normalise(tree, rel, module_key, src_digest=None):
    """normalise `tree` in place; -> stats dict (None when there is no reference for this module).
    The result for a given (module text, reference text, normaliser code) is cached under /verif/.cache (every property check
    is its own process and would otherwise repeat the same proofs); the cache only ever holds what this function computed."""
    ref = reference_tree(rel, module_key)
    if ref is None:
        return None
    cache_file = None
    if src_digest and os.environ.get("VERIF_NO_CACHE") != "1":
        import pickle
        cdir = os.path.join(os.path.dirname(HERE), ".cache", "norm")
        cache_file = os.path.join(cdir, _cache_key(rel, src_digest) + ".pkl")
        try:
            with open(cache_file, "rb") as f:
                body, st = pickle.load(f)
            tree.body = body
            return st
        except Exception:
            pass
    n = Normaliser(tree, ref, module_key)
    try:
        st = n.run()
    except RecursionError:
        st = n.stats
        st["error"] = "recursion limit"
    for l in st.get("left", []):
        l.pop("_block", None)
    if cache_file and (st.get("functions_changed") or st.get("constants_inlined")):
        try:
            import pickle
            os.makedirs(os.path.dirname(cache_file), exist_ok=True)
            tmp = cache_file + ".%d.tmp" % os.getpid()
            with open(tmp, "wb") as f:
                pickle.dump((tree.body, st), f)
            os.replace(tmp, cache_file)
        except Exception:
            pass
    return st
