"""Small shared pattern helpers for the rule modules."""
import ast

from .core import dotted, callname, last, const, subscript_key, walk_no_nested_incl, norm, short


def body_nodes(func):
    for s in func.node.body:
        for n in walk_no_nested_incl(s):
            yield n


def all_nodes(func):
    """including nested function bodies"""
    return ast.walk(func.node)


def stores_to(func_node_iter, attr_names):
    """yield (node, kind, attr) for writes through  <...>.<attr>[k] = v / del <...>.<attr>[k] / <...>.<attr>.mutator(...)"""
    MUT = {"pop", "clear", "update", "setdefault", "popitem", "__setitem__", "__delitem__", "append", "extend", "insert", "remove", "sort", "reverse"}
    for n in func_node_iter:
        if isinstance(n, (ast.Assign, ast.AugAssign, ast.AnnAssign)):
            targets = n.targets if isinstance(n, ast.Assign) else [n.target]
            for t in targets:
                for s in ast.walk(t):
                    if isinstance(s, ast.Subscript) and isinstance(s.ctx, ast.Store):
                        d = dotted(s.value)
                        if d and last(d) in attr_names:
                            yield n, "store", last(d)
        elif isinstance(n, ast.Delete):
            for t in n.targets:
                if isinstance(t, ast.Subscript):
                    d = dotted(t.value)
                    if d and last(d) in attr_names:
                        yield n, "delete", last(d)
        elif isinstance(n, ast.Call) and isinstance(n.func, ast.Attribute) and n.func.attr in MUT:
            d = dotted(n.func.value)
            if d and last(d) in attr_names:
                yield n, "mutator:" + n.func.attr, last(d)


def dict_literal_value(d, key):
    if isinstance(d, ast.Dict):
        for k, v in zip(d.keys, d.values):
            if isinstance(k, ast.Constant) and k.value == key:
                return v
    return None


def dict_keys(d):
    return [k.value for k in d.keys if isinstance(k, ast.Constant)] if isinstance(d, ast.Dict) else []


def find_calls(func, pred, nested=False):
    it = all_nodes(func) if nested else body_nodes(func)
    return [n for n in it if isinstance(n, ast.Call) and pred(n)]


def enclosing_ifs(module, node, stop):
    """list of (If node, 'body'|'orelse') from innermost outwards, up to function node `stop`"""
    out = []
    n = node
    while n is not None and n is not stop:
        p = module.parent(n)
        if isinstance(p, ast.If):
            if any(n is x for x in p.body):
                out.append((p, "body"))
            elif any(n is x for x in p.orelse):
                out.append((p, "orelse"))
        n = p
    return out


def enclosing_stmt(module, node):
    n = node
    while n is not None and not isinstance(n, ast.stmt):
        n = module.parent(n)
    return n


def in_try_with_handler(module, node, stop, classes=("Exception",)):
    """is node inside the body of a try that has a handler for one of `classes` (or bare)?"""
    n = node
    while n is not None and n is not stop:
        p = module.parent(n)
        if isinstance(p, ast.Try) and any(n is x for x in p.body):
            for h in p.handlers:
                if h.type is None:
                    return True
                elts = h.type.elts if isinstance(h.type, ast.Tuple) else [h.type]
                for e in elts:
                    nm = e.id if isinstance(e, ast.Name) else getattr(e, "attr", None)
                    if nm in classes:
                        return True
        n = p
    return False


def name_defs(func, name):
    """assignment statements in func (not nested) that bind `name` (simple targets and tuple targets)"""
    out = []
    for n in body_nodes(func):
        if isinstance(n, ast.Assign):
            for t in n.targets:
                for x in ast.walk(t):
                    if isinstance(x, ast.Name) and x.id == name and isinstance(x.ctx, ast.Store):
                        out.append(n)
        elif isinstance(n, (ast.AugAssign, ast.AnnAssign)) and isinstance(n.target, ast.Name) and n.target.id == name:
            out.append(n)
        elif isinstance(n, (ast.For,)):
            for x in ast.walk(n.target):
                if isinstance(x, ast.Name) and x.id == name:
                    out.append(n)
    return out


def derives_from(func, expr, sources, depth=8, extra_funcs=()):
    """def-use closure: does `expr` (transitively through local assignments of func and its
    enclosing functions) read one of the names in `sources`?  Returns the chain or None."""
    seen = set()

    def scopes(f):
        while f is not None:
            yield f
            f = f.parent

    def rec(e, d, chain):
        for n in ast.walk(e):
            if isinstance(n, ast.Name) and isinstance(n.ctx, ast.Load):
                if n.id in sources:
                    return chain + [n.id]
        if d <= 0:
            return None
        for n in ast.walk(e):
            if isinstance(n, ast.Name) and isinstance(n.ctx, ast.Load) and n.id not in seen:
                seen.add(n.id)
                for f in scopes(func):
                    for a in name_defs(f, n.id):
                        v = getattr(a, "value", None) or getattr(a, "iter", None)
                        if v is None:
                            continue
                        r = rec(v, d - 1, chain + [n.id])
                        if r:
                            return r
        return None
    return rec(expr, depth, [])
