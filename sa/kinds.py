"""E7: JSON-kind lattice over request parameters of the REST handlers.

Abstract value = subset of KINDS.  Transfer for params.get(k[,d]), truthiness tests, `not`, `and`/`or`
(with narrowing inside the short-circuit), the repo's valid_* predicates (summarised from their own
bodies), early returns.  Sinks (len, `in {set}`, .get, json.loads, bytes(x, enc), x.attr-call) require
kinds; a sink is covered when an enclosing handler catches the exception it raises.
"""
import ast

from .core import callname, last, norm, const, strip_await

ALL = frozenset("null false true int float str0 str list0 list dict0 dict".split())
FALSY = frozenset("null false str0 list0 dict0".split())
MAYBE_FALSY = FALSY | {"int", "float"}          # 0 and 0.0 are folded into int/float
STR = frozenset({"str0", "str"})
SIZED = frozenset("str0 str list0 list dict0 dict".split())
DICT = frozenset({"dict0", "dict"})
HASHABLE = ALL - frozenset("list0 list dict0 dict".split())


def lit_kind(c):
    v = c.value if isinstance(c, ast.Constant) else None
    if isinstance(c, ast.Dict):
        return {"dict" if c.keys else "dict0"}
    if isinstance(c, ast.List):
        return {"list" if c.elts else "list0"}
    if isinstance(c, ast.Call):          # e.g. str(uuid.uuid4())
        if callname(c) == "str":
            return {"str"}
        return set(ALL)
    if not isinstance(c, ast.Constant):
        return set(ALL)
    if v is None:
        return {"null"}
    if v is True:
        return {"true"}
    if v is False:
        return {"false"}
    if isinstance(v, str):
        return {"str" if v else "str0"}
    if isinstance(v, int):
        return {"int"}
    return {"float"}


def summarise_valid(fn):
    """kinds for which a valid_* predicate can return truthy (from its own body)"""
    ks = set(ALL)
    for n in ast.walk(fn):
        if isinstance(n, ast.Call) and isinstance(n.func, ast.Name) and n.func.id == "isinstance" and isinstance(n.args[1], ast.Name) and n.args[1].id == "str":
            ks &= STR
        if isinstance(n, ast.Compare) and isinstance(n.left, ast.Call) and isinstance(n.left.func, ast.Name) and n.left.func.id == "len" and isinstance(n.ops[0], ast.Gt) and const(n.comparators[0]) == 0:
            ks -= {"str0"}
    return frozenset(ks)


class Finding:
    def __init__(self, sink, var, bad, exc, node):
        self.sink, self.var, self.bad, self.exc, self.node = sink, var, bad, exc, node


class KindAnalysis:
    def __init__(self, module, func, valid, params_name="params", params_kinds=DICT):
        self.m, self.f, self.valid = module, func, valid
        self.params_name = params_name
        self.env = {params_name: frozenset(params_kinds)}
        self.findings = []
        self.sinks_seen = 0
        self._block(func.node.body, frozenset())

    # ---- narrowing
    def narrow(self, test, truth, env):
        test = strip_await(test)
        out = {}
        if isinstance(test, ast.UnaryOp) and isinstance(test.op, ast.Not):
            return self.narrow(test.operand, not truth, env)
        if isinstance(test, ast.Name) and test.id in env:
            k = env[test.id]
            out[test.id] = (k - FALSY) if truth else (k & MAYBE_FALSY)
        elif isinstance(test, ast.Call) and isinstance(test.func, ast.Name) and test.func.id in self.valid and test.args and isinstance(test.args[0], ast.Name) and test.args[0].id in env:
            v = test.args[0].id
            if truth:
                out[v] = env[v] & self.valid[test.func.id]
        elif isinstance(test, ast.Call) and isinstance(test.func, ast.Name) and test.func.id == "isinstance" and isinstance(test.args[0], ast.Name) and test.args[0].id in env:
            t = test.args[1]
            names = [e.id for e in (t.elts if isinstance(t, ast.Tuple) else [t]) if isinstance(e, ast.Name)]
            ks = set()
            for n in names:
                ks |= {"str": STR, "dict": DICT, "list": {"list0", "list"}, "int": {"int", "true", "false"}, "float": {"float"}, "bool": {"true", "false"}}.get(n, ALL)
            v = test.args[0].id
            out[v] = (env[v] & frozenset(ks)) if truth else (env[v] - frozenset(ks))
        elif isinstance(test, ast.Compare) and len(test.ops) == 1 and isinstance(test.left, ast.Name) and test.left.id in env and isinstance(test.comparators[0], ast.Constant) and test.comparators[0].value is None:
            isnone = isinstance(test.ops[0], (ast.Eq, ast.Is))
            v = test.left.id
            if truth == isnone:
                out[v] = env[v] & {"null"}
            else:
                out[v] = env[v] - {"null"}
        elif isinstance(test, ast.BoolOp):
            if (isinstance(test.op, ast.And) and truth) or (isinstance(test.op, ast.Or) and not truth):
                e2 = dict(env)
                for t in test.values:
                    n = self.narrow(t, truth, e2)
                    e2.update(n)
                    out.update(n)
        return out

    # ---- sinks
    def _sinks_expr(self, node, caught, env):
        """walk an expression in evaluation order, narrowing inside short-circuit operators"""
        node_ = strip_await(node)
        if isinstance(node_, ast.BoolOp):
            e2 = dict(env)
            for v in node_.values:
                self._sinks_expr(v, caught, e2)
                e2.update(self.narrow(v, isinstance(node_.op, ast.And), e2))
            return
        if isinstance(node_, ast.IfExp):
            self._sinks_expr(node_.test, caught, env)
            e2 = dict(env)
            e2.update(self.narrow(node_.test, True, env))
            self._sinks_expr(node_.body, caught, e2)
            e3 = dict(env)
            e3.update(self.narrow(node_.test, False, env))
            self._sinks_expr(node_.orelse, caught, e3)
            return
        if isinstance(node_, (ast.Lambda, ast.FunctionDef, ast.AsyncFunctionDef)):
            return
        for c in ast.iter_child_nodes(node_):
            if isinstance(c, (ast.expr, ast.keyword, ast.comprehension)) or isinstance(c, ast.AST) and not isinstance(c, ast.stmt):
                self._sinks_expr(c, caught, env)
        self._sink(node_, caught, env)

    def _kinds(self, e, env):
        return env.get(e.id) if isinstance(e, ast.Name) else None

    def _report(self, sink, var, bad, exc, node, caught):
        self.sinks_seen += 1
        if bad and exc not in caught and "Exception" not in caught:
            self.findings.append(Finding(sink, var, frozenset(bad), exc, node))

    def _sink(self, n, caught, env):
        if isinstance(n, ast.Call):
            nm = callname(n)
            if nm == "len" and n.args and isinstance(n.args[0], ast.Name) and n.args[0].id in env:
                self._report("len(%s)" % n.args[0].id, n.args[0].id, env[n.args[0].id] - SIZED, "TypeError", n, caught)
            elif last(nm) == "loads" and n.args and isinstance(n.args[0], ast.Name) and n.args[0].id in env:
                self._report("%s(%s)" % (nm, n.args[0].id), n.args[0].id, env[n.args[0].id] - STR, "TypeError", n, caught)
            elif nm == "bytes" and n.args and isinstance(n.args[0], ast.Name) and n.args[0].id in env:
                self._report("bytes(%s, ..)" % n.args[0].id, n.args[0].id, env[n.args[0].id] - STR, "TypeError", n, caught)
            elif isinstance(n.func, ast.Attribute) and isinstance(n.func.value, ast.Name) and n.func.value.id in env:
                v = n.func.value.id
                need = {"get": DICT, "items": DICT, "keys": DICT, "values": DICT, "startswith": STR, "endswith": STR, "split": STR, "decode": frozenset(), "encode": STR}.get(n.func.attr)
                if need is not None:
                    self._report("%s.%s(..)" % (v, n.func.attr), v, env[v] - need, "AttributeError", n, caught)
        elif isinstance(n, ast.Compare) and len(n.ops) == 1 and isinstance(n.ops[0], (ast.In, ast.NotIn)) and isinstance(n.comparators[0], ast.Set) and isinstance(n.left, ast.Name) and n.left.id in env:
            self._report("%s in {set}" % n.left.id, n.left.id, env[n.left.id] - HASHABLE, "TypeError", n, caught)
        elif isinstance(n, ast.Subscript) and isinstance(n.ctx, ast.Store) and isinstance(n.value, ast.Name) and n.value.id in env and n.value.id != self.params_name:
            v = n.value.id
            self._report("%s[..] = .." % v, v, env[v] - DICT - {"list", "list0"}, "TypeError", n, caught)

    # ---- statements
    @staticmethod
    def _ends(body):
        return bool(body) and isinstance(body[-1], (ast.Return, ast.Raise, ast.Continue, ast.Break))

    def _block(self, stmts, caught):
        env = self.env
        for s in stmts:
            if isinstance(s, (ast.FunctionDef, ast.AsyncFunctionDef, ast.ClassDef)):
                continue
            if isinstance(s, ast.Assign):
                self._sinks_expr(s.value, caught, env)
                for t in s.targets:
                    if not isinstance(t, ast.Name):
                        self._sinks_expr(t, caught, env)
                if len(s.targets) == 1 and isinstance(s.targets[0], ast.Name):
                    name = s.targets[0].id
                    v = strip_await(s.value)
                    if isinstance(v, ast.Call) and isinstance(v.func, ast.Attribute) and v.func.attr == "get" and isinstance(v.func.value, ast.Name) and v.func.value.id in env and env[v.func.value.id] & DICT:
                        ks = set(ALL)
                        if len(v.args) > 1:
                            ks = (set(ALL) - {"null"}) | lit_kind(v.args[1]) | {"null"}   # explicit null in the body is still possible
                        env[name] = frozenset(ks)
                    elif isinstance(v, ast.Name) and v.id in env:
                        env[name] = env[v.id]
                    elif isinstance(v, ast.BoolOp) and isinstance(v.op, ast.Or) and len(v.values) == 2 and isinstance(strip_await(v.values[0]), ast.Call) \
                            and isinstance(strip_await(v.values[0]).func, ast.Attribute) and strip_await(v.values[0]).func.attr == "get" \
                            and isinstance(strip_await(v.values[0]).func.value, ast.Name) and strip_await(v.values[0]).func.value.id in env and isinstance(v.values[1], ast.Constant):
                        # X.get(k) or <literal>: the truthy kinds of any request value, or the literal
                        env[name] = frozenset((set(ALL) - FALSY) | lit_kind(v.values[1]))
                    else:
                        env.pop(name, None)
            elif isinstance(s, ast.If):
                self._sinks_expr(s.test, caught, env)
                saved = dict(env)
                env.update(self.narrow(s.test, True, saved))
                self._block(s.body, caught)
                t_env, t_end = dict(env), self._ends(s.body)
                env.clear()
                env.update(saved)
                env.update(self.narrow(s.test, False, saved))
                self._block(s.orelse, caught)
                f_env, f_end = dict(env), self._ends(s.orelse)
                env.clear()
                if t_end and not f_end:
                    env.update(f_env)
                elif f_end and not t_end:
                    env.update(t_env)
                else:
                    for k in set(t_env) & set(f_env):
                        env[k] = t_env[k] | f_env[k]
            elif isinstance(s, ast.Try):
                c = set()
                for h in s.handlers:
                    t = h.type
                    if t is None:
                        c |= {"Exception"}
                    elif isinstance(t, ast.Name):
                        c.add(t.id)
                    elif isinstance(t, ast.Tuple):
                        c |= {x.id for x in t.elts if isinstance(x, ast.Name)}
                if "ValueError" in c:
                    c.add("JSONDecodeError")
                saved = dict(env)
                self._block(s.body, caught | frozenset(c))
                after_body = dict(env)
                ends = []
                for h in s.handlers:
                    env.clear()
                    env.update(saved)
                    self._block(h.body, caught)
                    ends.append(self._ends(h.body))
                env.clear()
                env.update(after_body)
                self._block(s.orelse, caught)
                self._block(s.finalbody, caught)
            elif isinstance(s, (ast.With, ast.AsyncWith)):
                for i in s.items:
                    self._sinks_expr(i.context_expr, caught, env)
                self._block(s.body, caught)
            elif isinstance(s, (ast.For, ast.AsyncFor, ast.While)):
                self._sinks_expr(s.iter if not isinstance(s, ast.While) else s.test, caught, env)
                self._block(s.body, caught)
                self._block(s.orelse, caught)
            elif isinstance(s, (ast.Return, ast.Expr)):
                if s.value is not None:
                    self._sinks_expr(s.value, caught, env)
            else:
                for x in ast.iter_child_nodes(s):
                    if isinstance(x, ast.expr):
                        self._sinks_expr(x, caught, env)
