#
# Licensed to the Apache Software Foundation (ASF) under one
# or more contributor license agreements.  See the NOTICE file
# distributed with this work for additional information
# regarding copyright ownership.  The ASF licenses this file
# to you under the Apache License, Version 2.0 (the
# "License"); you may not use this file except in compliance
# with the License.  You may obtain a copy of the License at
#
#   http://www.apache.org/licenses/LICENSE-2.0
#
# Unless required by applicable law or agreed to in writing,
# software distributed under the License is distributed on an
# "AS IS" BASIS, WITHOUT WARRANTIES OR CONDITIONS OF ANY
# KIND, either express or implied.  See the License for the
# specific language governing permissions and limitations
# under the License.
#
"""
This is a deliberately trivial logger implementation. As per 12FA it is treating
logs as an event stream, in this case stderr, see https://12factor.net/logs
A twelve-factor app never concerns itself with routing or storage of its output
stream. It should not attempt to write to or manage logfiles. Instead, each
running process writes its event stream, unbuffered, to stdout (or stderr).
"""

import json
import sys
assert sys.version_info >= (3, 0)  # Bomb out if not running Python3


import os, logging
import logging.config
from logging.handlers import RotatingFileHandler
import structlog

def inject_context(logger, method_name, event_dict):
    # inject current structlog context to stdlib logger calls from dependencies
    context_class = structlog.get_config().get("context_class")
    if context_class:
        context = context_class()
        # context object is not always subscriptable, so create list of kv pairs instead
        kv_pairs = [(k, context.get(k)) for k in context.keys()]
        event_dict.update(kv_pairs)
    return event_dict


# Use these processors for structlog and stdlib loggers
timestamper = structlog.processors.TimeStamper(fmt="iso",key="@timestamp")
shared_processors = [
    inject_context,
    structlog.stdlib.add_logger_name,
    structlog.stdlib.add_log_level,
    timestamper,
    structlog.stdlib.PositionalArgumentsFormatter(),
    structlog.processors.StackInfoRenderer(),
    structlog.processors.format_exc_info,
    structlog.processors.UnicodeDecoder(),
]


def configure_structlog():

    structlog.configure(
        processors=[structlog.stdlib.filter_by_level]
        + shared_processors
        + [structlog.stdlib.ProcessorFormatter.wrap_for_formatter],
        context_class=structlog.threadlocal.wrap_dict(dict),
        logger_factory=structlog.stdlib.LoggerFactory(),
        wrapper_class=structlog.stdlib.BoundLogger,
        cache_logger_on_first_use=True,
    )

def get_structlog_formatter(*args, **kwargs):
    """ 
     The relevant docs for this aren't particularly clear, but it's possible 
     to specify a function that can return a Formatter object in a python 
     logging config file, instead of one of the built-in offerings. 
     
     In this case the arguments to that function default to () and {} 
     (ie. an empty tuple and dict), and so this function should have a 
     signature like def formatter_func(*args, **kwargs). We use the 
     get_structlog_formatter function like this to ensure that we can use
     structlog when configuring via a file and when not.
     
     Link to the relevant docs, I had to infer the above about the default arguments - 
     https://docs.python.org/3/library/logging.config.html#configuration-file-format
    """

    # Intentionally using stdlib JSON here as ujson.dumps doesn't accept all the 
    # named arguments that structlog expects. This is fine as the ASL Engine doesn't
    # log overly much anyway
    formatter = structlog.stdlib.ProcessorFormatter(
        processor=structlog.processors.JSONRenderer(json.dumps),
        foreign_pre_chain=shared_processors,
    )
    return formatter

def init_logging(log_name, log_level=logging.INFO):
    """
    Create a logger to use

    :param log_name: Name of log, usually processor name or similar
    :type log_name: str
    :return: Logger to use
    """
    logger = logging.getLogger(log_name)

    # If logger already has handlers just return it as it is already initialised
    if logger.hasHandlers():
        return logger

    # If the LOG_LEVEL environment variable is set use it to set the log level.
    log_levels = {
        "DEBUG": logging.DEBUG,
        "INFO": logging.INFO,
        "WARN": logging.WARN,
        "ERROR": logging.ERROR,
        "CRITICAL": logging.CRITICAL,
    }

    configured_level = os.environ.get("LOG_LEVEL", "INFO").upper()
    if configured_level in log_levels:
        log_level = log_levels.get(configured_level, logging.INFO)

    # Select automation friendly structured logging or more "human readable"
    # logging based on the value of the USE_STRUCTURED_LOGGING environment var.
    use_structured_logging = os.environ.get("USE_STRUCTURED_LOGGING", "false").lower() == "true"
    if use_structured_logging:
        configure_structlog()
    
    # Allows configuing the logger via an INI format configuration file
    # If a configuration file isn't supplied, we define sensible defaults in code
    # https://docs.python.org/3/library/logging.config.html#logging.config.fileConfig
    log_config_file = os.environ.get("LOG_CONFIG_FILE", "")
    if os.path.isfile(log_config_file):
        logging.config.fileConfig(log_config_file, disable_existing_loggers=False)

    else:
        if use_structured_logging:
            formatter = get_structlog_formatter()
        else:
            formatter = logging.Formatter(
                "[%(asctime)s] %(levelname)-8s - %(name)-15s : %(message)s"
            )

        handler = logging.StreamHandler()
        handler.setFormatter(formatter)

        logger.addHandler(handler)
        logger.setLevel(log_level)

    logger.debug("DEBUG enabled")
    return logger
