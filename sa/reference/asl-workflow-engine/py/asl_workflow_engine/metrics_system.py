#
# Licensed to the Apache Software Foundation (ASF) under one
# or more contributor license agreements.  See the NOTICE file
# distributed with this work for additional information
# regarding copyright ownership.  The ASF licenses this file
# to you under the Apache License, Version 2.0 (the
# "License"); you may not use this file except in compliance
# with the License.  You may obtain a copy of the License at
#
#   http://www.apache.org/licenses/LICENSE-2.0
#
# Unless required by applicable law or agreed to in writing,
# software distributed under the License is distributed on an
# "AS IS" BASIS, WITHOUT WARRANTIES OR CONDITIONS OF ANY
# KIND, either express or implied.  See the License for the
# specific language governing permissions and limitations
# under the License.
#
"""
The "official" prometheus Python client provides metrics for Standard Exports
such as gc, cpu and memory, but aioprometheus does not provide these by default. 
This module provides equivalent system metrics for aioprometheus.
"""

import sys
assert sys.version_info >= (3, 0)  # Bomb out if not running Python3

import gc, os, platform
from aioprometheus import Counter, Gauge

try:
    import resource
    _PAGESIZE = resource.getpagesize()
except ImportError:
    # Not Unix
    _PAGESIZE = 4096


class SystemMetrics(object):
    """
    This class provides aioprometheus with equivalent system level metrics
    to those found in the "official" prometheus Python client.
    https://github.com/prometheus/client_python/blob/master/prometheus_client/process_collector.py
    https://github.com/prometheus/client_python/blob/master/prometheus_client/platform_collector.py
    https://github.com/prometheus/client_python/blob/master/prometheus_client/gc_collector.py
    """
    def __init__(self, namespace=""):
        if namespace:
            ns = namespace + '_'
        else:
            ns = ""

        self._ticks = 100.0
        try:
            self._ticks = os.sysconf('SC_CLK_TCK')
        except (ValueError, TypeError, AttributeError):
            pass

        # This is used to test if we can access /proc.
        self._btime = 0
        try:
            self._btime = self._boot_time()
        except IOError:
            pass

        major, minor, patchlevel = platform.python_version_tuple()
        info = {
            "version": platform.python_version(),
            "implementation": platform.python_implementation(),
            "major": major,
            "minor": minor,
            "patchlevel": patchlevel
        }

        self.process_metrics = {
            "info": Gauge(
                ns + "python_info",
                "Python platform information."
            ),
            "vmem": Gauge(
                ns + "process_virtual_memory_bytes",
                "Virtual memory size in bytes."
            ),
            "rss": Gauge(
                ns + "process_resident_memory_bytes",
                "Resident memory size in bytes."
            ),
            "start_time": Gauge(
                ns + "process_start_time_seconds",
                "Start time of the process since unix epoch in seconds."
            ),
            "cpu": Counter(
                ns + "process_cpu_seconds_total",
                "Total user and system CPU time spent in seconds."
            ),
            "open_fds": Gauge(
                ns + "process_open_fds",
                "Number of open file descriptors."
            ),
            "max_fds": Gauge(
                ns + "process_max_fds",
                "Maximum number of open file descriptors."
            )
        }

        # Only include these metrics if CPython and gc supports get_stats
        if hasattr(gc, 'get_stats') and platform.python_implementation() == 'CPython':
            self.process_metrics["collected"] = Counter(
                ns + "python_gc_objects_collected",
                "Objects collected during gc."
            )
            self.process_metrics["uncollectable"] = Counter(
                ns + "python_gc_objects_uncollectable",
                "Uncollectable object found during GC."
            )
            self.process_metrics["collections"] = Counter(
                ns + "python_gc_collections",
                "Number of times this generation was collected."
            )

        self.process_metrics["info"].set(info, 1.0)

    def _boot_time(self):
        with open("/proc/stat", 'rb') as stat:
            for line in stat:
                if line.startswith(b'btime '):
                    return float(line.split()[1])

    def values(self):
        return self.process_metrics.values()

    def collect(self):
        """
        Update the metrics from the latest system info in /proc.
        Although this method uses open and read it shouldn't pose any blocking
        issues for asyncio as we are only accessing the in-memory procfs
        https://en.wikipedia.org/wiki/Procfs
        """
        if not self._btime:
            return

        try:
            with open("/proc/self/stat", 'rb') as stat:
                parts = (stat.read().split(b')')[-1].split())

            self.process_metrics["vmem"].set("", float(parts[20]))
            self.process_metrics["rss"].set("", float(parts[21]) * _PAGESIZE)
            start_time_secs = float(parts[19]) / self._ticks
            self.process_metrics["start_time"].set(
                "", start_time_secs + self._btime
            )
            utime = float(parts[11]) / self._ticks
            stime = float(parts[12]) / self._ticks
            self.process_metrics["cpu"].set("", utime + stime)
        except IOError:
            pass

        try:
            with open("/proc/self/limits", 'rb') as limits:
                for line in limits:
                    if line.startswith(b'Max open file'):
                        self.process_metrics["max_fds"].set(
                            "", float(line.split()[3])
                        )
                        break

            self.process_metrics["open_fds"].set(
                "", float(len(os.listdir("/proc/self/fd")))
            )
        except (IOError, OSError):
            pass

        # Update gc metrics if enabled.
        if "collected" in self.process_metrics:
            for generation, stat in enumerate(gc.get_stats()):
                generation = {"generation": str(generation)}
                self.process_metrics["collected"].set(
                    generation, stat["collected"]
                )
                self.process_metrics["uncollectable"].set(
                    generation, stat["uncollectable"]
                )
                self.process_metrics["collections"].set(
                    generation, stat["collections"]
                )

